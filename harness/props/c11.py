"""C11 — MultitaskMultivariateNormal: one joint distribution regardless of layout, constructor or index.

Tie
* translator G3 (`harness/translate/g3_mtmvn_index.py`) regenerates `Gen/MTIndex.lean` (the integer
  expressions of every `__getitem__` dispatch branch, `_normalize_*`, the `to_data_independent_dist` grids,
  the constructors' block operator / layout flag); `Props/C11.lean` proves them equal to the specification;
* correspondence with TAGGED distributions on the real class: mean entry at flat position p (batch b) holds
  `b*N + p`, covariance entry (b, p, q) holds `1 + (b*N + p)*N + q`; `d[idx]` is compared
  (a) with the property's own specification — `mean[idx]` taken by torch on the plain tagged mean, and the
      covariance being exactly the tagged sub-matrix of the pairs in `mean[idx]` (no model involved) -> ctx.fail,
  (b) with the positions / result kind computed by the Lean driver from the generated code -> ctx.broke,
  (c) the Lean specification (`specGetitem`) with the torch-derived one -> ctx.broke (spec model wrong);
* numeric checks against the dense joint N(flattened mean, covariance): variance, log_prob, rsample with
  one-hot base samples (Gram matrix of the sampling map = covariance), rsample without base samples
  (moments), to_data_independent_dist, from_batch_mvn / from_independent_mvns / from_repeated_mvn.
"""
import itertools
import math
import os
import sys
import time

from lib import common as C

ID = "C11"
PROP_MODULES = ["GPVerif.Props.C11", "GPVerif.Props.C11Batch"]
BUILD_TARGETS = ["GPVerif.Props.C11", "GPVerif.Props.C11Batch", "GPVerif.Gen.MTIndex", "GPVerif.Model.Proto"]
RULE = ("[wave 3: + batch shapes of rank 0..3 incl. size-1 dimensions and sizes coinciding with n / t / each other, Ellipsis at "
        "every position of every expression, every prefix (batch-only), index tensors on batch dimensions; every tagged cell "
        "also runs the WHOLE generated __getitem__ (B line: exact covariance tags); constructor plans executed by torch; argument "
        "tensors updated in place] "
        "index cells = (n, t <= 4 incl. n != t) x layout x batch shape in {(), (2,)} x index expression; expressions are "
        "built from ints in [-len-1, len], slices with start/stop in {None} u [-len-2, len+2] and step in "
        "{None,1,2,3,len+1,0,-1}, 1-d index tensors / python lists (negative entries, broadcasting, out-of-range), "
        "ellipsis / omitted-trailing-slice / bare presentations, batch ints / slices / tensors; int x int, and the "
        "reported-defect shapes are exhaustive, the rest is an exhaustive product (thorough) or a seeded sample of it "
        "(quick); distinct = distinct (n,t,layout,batch,expression); non-trivial = torch accepts the expression for "
        "the mean's shape and it is not the identity index")
EXHAUSTIVE = False
TRUSTED = ["translator harness/translate/g3_mtmvn_index.py (Python ast -> Lean index expressions)",
           "hand-written Lean model of torch's reading of an index tuple, torch's gather semantics for ints / slices / 1-d index "
           "tensors on a tensor of any rank, the batch-aware specification and the meaning of the covariance selections "
           "(GPVerif/Model/MTBatch.lean), of range / permute / stack / cat / expand / block operators with a block dimension "
           "(GPVerif/Model/MTCtor.lean): exercised against torch / linear_operator on every cell (exact tags)",
           "hand-written Lean model of Python slice.indices / torch integer + tensor indexing / meshgrid / broadcasting "
           "(GPVerif/Model/MTIndex.lean), exercised against torch on every cell",
           "modelled not verified: torch tensor indexing, linear_operator.__getitem__ / BlockInterleaved / BlockDiag / "
           "DiagLinearOperator / to_dense"]
ASSUMPTIONS = ["indexing the covariance LinearOperator with (slice, slice) / an index tensor selects those rows and columns "
               "(linear_operator contract; observed on every cell through the tags)",
               "steps <= 0, out-of-range ints / tensor entries are rejected by torch when the mean is indexed (observed)",
               "boolean masks, None/newaxis, 0-d and >1-d index tensors are outside the property's list of index forms: "
               "exercised, must be rejected or correct, counted separately"]

GEN = os.path.join(C.LEAN_DIR, "GPVerif", "Gen", "MTIndex.lean")
_state = {}


def generate(ctx):
    sys.path.insert(0, os.path.join(C.VERIF, "harness"))
    from translate import g3_mtmvn_index
    tr, changed = g3_mtmvn_index.generate(C.REPO, GEN)
    _state["tr"] = tr
    ctx.notes["gen_changed"] = changed
    ctx.notes["branches_translated"] = [b["name"] for b in tr.branches]
    ctx.notes["helpers_translated"] = [h.pyname for h in tr.helpers.values()]


# ------------------------------------------------------------------------------------------ index forms

def comp_int(v):
    return {"k": "int", "v": int(v)}


def comp_slice(a, b, c):
    return {"k": "slice", "v": [a, b, c]}


def comp_tensor(vals, kind="tensor"):
    return {"k": kind, "v": [int(x) for x in vals]}


ELL = {"k": "ellipsis"}
FULL = comp_slice(None, None, None)


def build(comp):
    import torch
    k = comp["k"]
    if k == "int":
        return comp["v"]
    if k == "slice":
        return slice(*comp["v"])
    if k == "tensor":
        return torch.tensor(comp["v"], dtype=torch.long)
    if k == "list":
        return list(comp["v"])
    if k == "ellipsis":
        return Ellipsis
    if k == "mask":
        return torch.tensor([bool(x) for x in comp["v"]])
    if k == "none":
        return None
    if k == "tensor0":
        return torch.tensor(comp["v"][0], dtype=torch.long)
    if k == "tensor2":
        return torch.tensor([comp["v"]], dtype=torch.long)
    raise ValueError(k)


def build_idx(comps, bare):
    objs = tuple(build(c) for c in comps)
    return objs[0] if bare else objs


def show_comp(c):
    k = c["k"]
    if k == "int":
        return str(c["v"])
    if k == "slice":
        a, b, s = c["v"]
        txt = f"{'' if a is None else a}:{'' if b is None else b}"
        return txt if s is None else f"{txt}:{s}"
    if k == "ellipsis":
        return "..."
    if k == "none":
        return "None"
    return f"{k}({c['v']})"


def show_idx(comps, bare):
    return ("" if bare else "(") + ", ".join(show_comp(c) for c in comps) + ("" if bare else ",)")


def lean_comp(c):
    k = c["k"]
    if k == "int":
        return f"i {c['v']}"
    if k == "slice":
        return "s " + " ".join("N" if v is None else str(v) for v in c["v"])
    if k in ("tensor", "list"):
        return f"l {len(c['v'])} " + " ".join(str(v) for v in c["v"])
    return None


def lean_bcomp(c):
    return "e" if c["k"] == "ellipsis" else lean_comp(c)


def b_line(W, comps, bare):
    """request line for the whole translated `__getitem__` (batch shape, ellipsis, bare / tuple presentation)"""
    toks = [lean_bcomp(c) for c in comps]
    if any(t is None for t in toks) or (bare and len(comps) != 1):
        return None
    return (f"B {1 if W.inter else 0} {len(W.batch)} " + "".join(f"{b} " for b in W.batch) +
            f"{W.n} {W.t} {1 if bare else 0} {len(comps)} " + " ".join(toks))


def cov_str(kind, cov):
    """a batch of tagged covariance matrices (..., m, m) in the driver's notation (exact integers)"""
    c = cov.round().long()
    m = c.shape[-1]
    blocks = c.reshape(-1, m, m).tolist() if c.numel() else [[[] for _ in range(m)] for _ in range(int(math.prod(c.shape[:-2])))]
    return (f"{kind}|{','.join(str(int(x)) for x in c.shape[:-2])}|" +
            "/".join("_".join(",".join(map(str, row)) for row in blk) for blk in blocks))


def _parse_cov(txt):
    import torch
    kind, shape, blocks = txt.split("|")
    shape = [int(x) for x in shape.split(",")] if shape else []
    mats = [[[int(v) for v in row.split(",")] if row else [] for row in blk.split("_")] if blk else [] for blk in blocks.split("/")]
    m = len(mats[0]) if mats and mats[0] else 0
    return kind, torch.tensor(mats, dtype=torch.long).reshape(*shape, m, m)


def _broadcasts_to(gen, real):
    """`gen` (batch of matrices in the driver's notation) expanded over leading batch dimensions is `real`"""
    try:
        (k1, a), (k2, b) = _parse_cov(gen), _parse_cov(real)
        return k1 == k2 and a.numel() > 0 and bool((a.expand(b.shape) == b).all())
    except Exception:
        return False


def spec_cov_str(W, exp_mean, eff):
    """SPEC of d[idx] from torch's mean[idx] on the tagged mean alone: the kind the index asks for and the covariance of
    the selected (batch element, point, task) triples, flattened the way that kind of result flattens its mean."""
    if eff is None:
        kind = "mt1" if W.inter else "mt0"
    else:
        ek = (kind_of(eff[0]), kind_of(eff[1]))
        kind = ("mt1" if W.inter else "mt0") if ("slice" in ek and "int" not in ek) else "mvn"
    if kind == "mvn":
        locp = exp_mean if exp_mean.dim() >= 1 else exp_mean.reshape(1)
    elif exp_mean.dim() < 2:
        return None
    elif W.inter:
        locp = exp_mean.reshape(*exp_mean.shape[:-2], exp_mean.shape[-2] * exp_mean.shape[-1])
    else:
        locp = exp_mean.transpose(-1, -2).reshape(*exp_mean.shape[:-2], exp_mean.shape[-2] * exp_mean.shape[-1])
    return cov_str(kind, W.expected_cov(locp))


def ints_of(length):
    return [comp_int(v) for v in range(-length - 1, length + 1)]


def valid_ints_of(length):
    return [comp_int(v) for v in range(-length, length)]


def slices_of(length, steps=(None, 1, 2, 3)):
    bounds = [None] + list(range(-length - 2, length + 3))
    out = [comp_slice(a, b, s) for a in bounds for b in bounds for s in steps]
    out += [comp_slice(a, b, length + 1) for a in (None, 0, 1, -1) for b in (None, length, -1)]
    return out


def bad_step_slices():
    return [comp_slice(None, None, 0), comp_slice(None, None, -1), comp_slice(2, 0, -1), comp_slice(0, 2, 0)]


def tensors_of(length, rng, k, kind="tensor"):
    """k random 1-d integer index tensors with entries valid for `length` (negatives included)."""
    out = []
    if length == 0:
        return out
    for _ in range(k):
        m = rng.choice([1, 1, 2, 2, 3, 4])
        out.append(comp_tensor([rng.randrange(-length, length) for _ in range(m)], kind))
    return out


# ------------------------------------------------------------------------------------------ tagged world

class Tagged:
    """A tagged MultitaskMultivariateNormal with a lazily represented (non-PSD, exact-integer) covariance."""

    def __init__(self, n, t, inter, batch, dense_psd=False):
        import torch
        from linear_operator import to_linear_operator
        from gpytorch.distributions import MultitaskMultivariateNormal
        self.n, self.t, self.inter, self.batch, self.dense_psd = n, t, inter, tuple(batch), dense_psd
        N = self.N = n * t
        B = self.B = int(math.prod(batch)) if batch else 1
        g = torch.arange(B * N, dtype=torch.float64).reshape(*batch, N)
        if dense_psd:
            # symmetric, diagonally dominant, pairwise distinct entries per unordered pair; goes through the
            # non-lazy (torch.distributions) path, which re-multiplies a Cholesky factor -> compare to 1e-9
            p = torch.arange(N, dtype=torch.float64)
            lo, hi = torch.minimum(p[:, None], p[None, :]), torch.maximum(p[:, None], p[None, :])
            S = 1 + lo * N + hi
            S = S + torch.diag(torch.full((N,), 20.0 * N * N * N))
            cov = torch.stack([S + 7.0 * b * torch.eye(N, dtype=torch.float64) * N for b in range(B)]).reshape(*batch, N, N)
            self.cov = cov
            covarg = cov
        else:
            cov = 1 + g.unsqueeze(-1) * N + torch.arange(N, dtype=torch.float64)
            self.cov = cov
            covarg = to_linear_operator(cov)
        self.covB = self.cov.reshape(B, N, N)
        if inter:
            mean = g.reshape(*batch, n, t)
        else:
            mean = g.reshape(*batch, t, n).transpose(-1, -2)
        self.mean = mean.contiguous()
        self.d = MultitaskMultivariateNormal(self.mean, covarg, interleaved=inter)

    def expected_cov(self, locp):
        """tags of the flattened result mean (shape (..., m)) -> expected covariance (..., m, m)."""
        g = locp.round().long()
        b, p = g // self.N, g % self.N
        E = self.covB[b.unsqueeze(-1), p.unsqueeze(-1), p.unsqueeze(-2)]
        same = b.unsqueeze(-1) == b.unsqueeze(-2)
        import torch
        return torch.where(same, E, torch.zeros_like(E))


def kind_of(c):
    return {"tensor0": "tensor", "tensor2": "tensor"}.get(c["k"], c["k"])


def check_cell(ctx, W, comps, bare, eff, origin, lines, recs, bcomp=None):
    """One index cell on the real class.  eff = (pointComp, taskComp) effective event components (None = batch-only
    index); bcomp = the component sitting on the batch dimension, if any."""
    import torch
    from gpytorch.distributions import MultitaskMultivariateNormal
    layout = "interleaved" if W.inter else "noninterleaved"
    # an index tensor / list on a batch dimension: judged by the specification only (the Lean model has no batch
    # dimensions) and reported under its own key family
    batch_adv = bcomp is not None and bcomp["k"] in ("tensor", "list")
    # index tensors on a batch dimension are PROVED right (getitemB_eq_spec_block_event) where the event part selects a block:
    # batch-only, full x full, int x slice, slice x int; those cells keep a key of their own, outside the known finding
    block = eff is None or (eff[0] == FULL and eff[1] == FULL) or \
        (kind_of(eff[0]), kind_of(eff[1])) in (("int", "slice"), ("slice", "int"))
    batch_tensor_block = batch_adv and block
    batch_adv = batch_adv and not block
    key = f"getitem:{layout}:" + ("batch-advanced:" if batch_adv else ("batch-tensor-block:" if batch_tensor_block else "")) + \
        ("batch-only" if eff is None else f"{kind_of(eff[0])}x{kind_of(eff[1])}")
    text = f"n={W.n} t={W.t} {layout} batch={list(W.batch)}{' psd' if W.dense_psd else ''} d[{show_idx(comps, bare)}]"
    replay = {"n": W.n, "t": W.t, "inter": W.inter, "batch": list(W.batch), "psd": W.dense_psd,
              "idx": comps, "bare": bare, "eff": list(eff) if eff else None, "bcomp": bcomp}
    idx = build_idx(comps, bare)
    # ---- specification side: torch on the plain tagged mean
    try:
        exp_mean = W.mean[idx]
        valid = True
    except Exception:
        exp_mean, valid = None, False
    exotic = any(c["k"] in ("mask", "none", "tensor0", "tensor2") for c in comps)
    identity = valid and exp_mean.shape == W.mean.shape and bool((exp_mean == W.mean).all())
    ctx.case(text, nontrivial=valid and not identity,
             sample={"cell": text, "origin": origin} if (valid and not identity and not exotic) else None)
    ctx.count("cells_" + origin)
    if batch_tensor_block:
        ctx.count("batch_tensor_block_cells")
    if batch_adv:
        ctx.count("batch_advanced_cells")
    # ---- implementation
    try:
        R = W.d[idx]
        Rmean = R.mean
        Rcov = R.covariance_matrix
        err = None
    except Exception as e:  # explicit rejection
        R, err = None, e
    want_line = (eff is not None and lean_comp(eff[0]) is not None and lean_comp(eff[1]) is not None
                 and not W.dense_psd and not batch_adv)
    rec = {"text": text, "key": key, "replay": replay, "valid": valid, "real": None, "spec": None, "rejected": err is not None}
    # the whole translated __getitem__ (ellipsis, batch components, batch-only branch) on this very cell
    bl = None if W.dense_psd else b_line(W, comps, bare)
    # torch does not bounds-check index tensors when the result is empty (no element is ever read): for such a cell "invalid"
    # on the Lean side is not contradicted by torch accepting it
    lax_bounds = bool(valid and exp_mean.numel() == 0 and any(c["k"] in ("tensor", "list") for c in comps))
    if bl is not None:
        brec = {"text": text, "key": key, "b": True, "valid": valid, "rejected": err is not None, "real": None,
                "spec": "none" if not valid else spec_cov_str(W, exp_mean, eff), "batch_adv": batch_adv, "lax": lax_bounds}
        if valid and err is None:
            try:
                g = Rcov.reshape(1, 1) if (exp_mean.dim() == 0 and Rcov.numel() == 1) else Rcov
                if g.dim() >= 2 and g.shape[-1] == g.shape[-2]:
                    brec["real"] = cov_str(("mt1" if R._interleaved else "mt0") if isinstance(R, MultitaskMultivariateNormal)
                                           else "mvn", g)
            except Exception:
                pass
        lines.append(bl)
        recs.append(brec)
    if not valid:
        ctx.count("invalid_for_mean")
        if err is None:
            ctx.fail(key + ":accepted-invalid", f"{text}: torch rejects this index for the mean, d[idx] returned "
                     f"{type(R).__name__} with mean shape {tuple(Rmean.shape)}", replay)
        if want_line and not W.batch:      # with batch dimensions the B line carries the "invalid <=> torch raises" comparison
            rec["spec"] = "none"
            lines.append(f"G {1 if W.inter else 0} {W.n} {W.t} {lean_comp(eff[0])} {lean_comp(eff[1])}")
            recs.append(rec)
        return
    if err is not None:
        ctx.count("rejected")
        cls = "exotic" if exotic else ("batch-advanced" if batch_adv else "plain")
        rk = f"{cls}:{key.split(':', 2)[2]}:{type(err).__name__}"
        ctx.notes.setdefault("rejected_by_kind", {})
        ctx.notes["rejected_by_kind"][rk] = ctx.notes["rejected_by_kind"].get(rk, 0) + 1
        if exp_mean.numel() == 0 and 0 in tuple(exp_mean.shape[:-1]) and "cannot reshape tensor of 0 elements" in str(err):
            # an EMPTY batch (a zero-size dimension in front of the event): the constructor's `reshape(*batch, -1)` is
            # ambiguous for 0 elements and raises.  Degenerate result (no distribution at all), recorded, not judged.
            ctx.count("empty_batch_rejected_by_constructor")
            ctx.notes["observation_empty_batch"] = ("d[idx] selecting an empty batch raises in __init__ "
                                                    "(mean.reshape(*batch, -1) with 0 elements): " + text)
            return
        if cls == "plain":
            # ints / slices / 1-d integer index tensors / lists / ellipsis that torch accepts for the mean: d[idx] must
            # exist (otherwise a check that rejects everything would pass)
            ctx.fail(key + ":rejected", f"{text}: valid for the mean (mean[idx] has shape {tuple(exp_mean.shape)}) but "
                     f"d[idx] raises {type(err).__name__}: {str(err)[:120]}", replay)
        return
    if exotic:
        ctx.count("exotic_accepted")
    # (1) mean
    problems = []
    if tuple(Rmean.shape) != tuple(exp_mean.shape) or not bool((Rmean == exp_mean).all()):
        problems.append(f"mean is {Rmean.tolist()} expected mean[idx] = {exp_mean.tolist()}")
    # (2) flattening of mean[idx] in the result's own layout
    is_mt = isinstance(R, MultitaskMultivariateNormal)
    if is_mt:
        if exp_mean.dim() < 2:
            problems.append(f"result is multitask but mean[idx] has shape {tuple(exp_mean.shape)}")
            locp = exp_mean.reshape(-1)
        elif R._interleaved:
            locp = exp_mean.reshape(*exp_mean.shape[:-2], exp_mean.shape[-2] * exp_mean.shape[-1])
        else:
            locp = exp_mean.transpose(-1, -2).reshape(*exp_mean.shape[:-2], exp_mean.shape[-2] * exp_mean.shape[-1])
    else:
        locp = exp_mean if exp_mean.dim() >= 1 else exp_mean.reshape(1)
    # (3) covariance = tagged sub-matrix of the selected pairs
    E = W.expected_cov(locp)
    got = Rcov.reshape(1, 1) if (exp_mean.dim() == 0 and Rcov.numel() == 1) else Rcov
    if tuple(got.shape) != tuple(E.shape):
        problems.append(f"covariance has shape {tuple(Rcov.shape)} for a mean of shape {tuple(exp_mean.shape)} "
                        f"(expected {tuple(E.shape)})")
    else:
        tol = 1e-9 * float(W.cov.abs().max()) if W.dense_psd else 0.0
        if not bool(((got - E).abs() <= tol).all()):
            bad = ((got - E).abs() > tol).nonzero()[0].tolist()
            problems.append(f"covariance entry {bad} is {got[tuple(bad)].item():g}, the selected pairs give "
                            f"{E[tuple(bad)].item():g}")
    if problems:
        ctx.fail(key, f"{text}: " + "; ".join(problems)[:300], replay)
    # ---- positions for the model comparison (lazy tags only: exact decode from the diagonal)
    if want_line and locp.numel() == 0 and locp.dim() >= 1 and \
            (locp.shape[-1] > 0 or (kind_of(eff[0]), kind_of(eff[1])) == ("int", "int")):
        ctx.count("empty_batch_event_positions_not_decoded")   # no batch member to read the event positions from (B line covers it)
    elif want_line:
        m = locp.shape[-1]
        spec_pos = (locp.reshape(-1, m)[0].round().long() % W.N).tolist() if locp.numel() else []
        kindtxt = ("mt1" if R._interleaved else "mt0") if is_mt else "mvn"
        ek = (kind_of(eff[0]), kind_of(eff[1]))
        spec_kind = ("mt1" if W.inter else "mt0") if ("slice" in ek and "int" not in ek) else "mvn"
        if ek == ("int", "int"):
            spec_pos = spec_pos[:1]     # a kept batch dimension plays the event dimension: compare one member
        real_pos = None
        if got.dim() >= 2 and got.shape[-1] == got.shape[-2] and got.numel() == 0:
            real_pos = []
        elif got.dim() >= 2 and got.shape[-1] == got.shape[-2]:
            dg = torch.diagonal(got.reshape(-1, got.shape[-2], got.shape[-1])[0], dim1=-1, dim2=-2).round().long() - 1
            rowp, colp = (dg // W.N) % W.N, dg % W.N
            if bool((rowp == colp).all()) and bool((dg >= 0).all()):
                real_pos = rowp.tolist()[:1] if ek == ("int", "int") else rowp.tolist()
        rec["real"] = None if real_pos is None else f"{kindtxt}:" + ",".join(map(str, real_pos))
        rec["spec"] = f"{spec_kind}:" + ",".join(map(str, spec_pos))
        lines.append(f"G {1 if W.inter else 0} {W.n} {W.t} {lean_comp(eff[0])} {lean_comp(eff[1])}")
        recs.append(rec)


# ------------------------------------------------------------------------------------------ cell generators

def presentations(bcomps, p, t, rng, allv):
    """Syntactic variants of the full index (batch..., p, t): explicit, omitted trailing full slice, ellipsis for
    runs of full slices or for nothing, bare."""
    full = list(bcomps) + [p, t]
    out = [(full, False)]
    var = []
    if t == FULL:
        var.append((full[:-1], False))
        if len(full) == 2:
            var.append((full[:-1], True))
    isfull = [c == FULL for c in full]
    # ellipsis replacing a maximal run of full slices
    i = 0
    while i < len(full):
        if isfull[i]:
            j = i
            while j < len(full) and isfull[j]:
                j += 1
            var.append((full[:i] + [ELL] + full[j:], False))
            i = j
        else:
            i += 1
    # ellipsis standing for zero dimensions
    for pos in range(len(full) + 1):
        var.append((full[:pos] + [ELL] + full[pos:], False))
    if allv:
        return out + var
    return out + ([rng.choice(var)] if var and rng.random() < 0.35 else [])


def event_cells(n, t, rng, quick):
    """(pointComp, taskComp, origin) for one (n, t)."""
    cells = []
    # A. int x int, exhaustive incl. out-of-range
    for p in ints_of(n):
        for a in ints_of(t):
            cells.append((p, a, "intxint"))
    sl_n, sl_t = slices_of(n), slices_of(t)
    vi_n, vi_t = valid_ints_of(n), valid_ints_of(t)

    def pick(lst, k):
        return lst if (not quick or len(lst) <= k) else rng.sample(lst, k)
    # B. int x slice, slice x int
    kk = 70
    for p in vi_n:
        for s in pick(sl_t, kk // max(1, len(vi_n)) + 6):
            cells.append((p, s, "intxslice"))
    for a in vi_t:
        for s in pick(sl_n, kk // max(1, len(vi_t)) + 6):
            cells.append((s, a, "slicexint"))
    # the reported-defect shapes: start > 0, out-of-range stop / start, always present
    for a in vi_t:
        for s in (comp_slice(1, None, None), comp_slice(-n - 2, None, None), comp_slice(None, n + 2, None),
                  comp_slice(1, None, 2), comp_slice(-1, None, None), comp_slice(None, -1, None)):
            cells.append((s, a, "slicexint"))
    for p in vi_n:
        for s in (comp_slice(None, t + 3, None), comp_slice(-t - 2, None, None), comp_slice(1, None, None),
                  comp_slice(None, None, 2), comp_slice(-1, None, None)):
            cells.append((p, s, "intxslice"))
    # C. slice x slice
    if quick:
        for _ in range(110):
            cells.append((rng.choice(sl_n), rng.choice(sl_t), "slicexslice"))
    else:
        sub_n, sub_t = pick_sub(sl_n, rng, 160), pick_sub(sl_t, rng, 160)
        for s1 in sub_n:
            for s2 in rng.sample(sub_t, 24):
                cells.append((s1, s2, "slicexslice"))
    cells.append((FULL, FULL, "slicexslice"))
    for s in bad_step_slices():
        cells.append((s, FULL, "badstep"))
        cells.append((comp_int(0), s, "badstep"))
        cells.append((s, comp_int(0), "badstep"))
    # D/E/F. index tensors and python lists
    m = 14 if quick else 60
    for kind in ("tensor", "list"):
        tn, tt = tensors_of(n, rng, m, kind), tensors_of(t, rng, m, kind)
        for x in tn:
            cells.append((x, rng.choice(sl_t), f"{kind}xslice"))
            cells.append((x, FULL, f"{kind}xslice"))
            cells.append((x, rng.choice(vi_t), f"{kind}xint"))
        for y in tt:
            cells.append((rng.choice(sl_n), y, f"slicex{kind}"))
            cells.append((FULL, y, f"slicex{kind}"))
            cells.append((rng.choice(vi_n), y, f"intx{kind}"))
        for x in tn:   # pairs: equal length, broadcast, mismatch
            L = len(x["v"])
            cells.append((x, comp_tensor([rng.randrange(-t, t) for _ in range(L)], kind), f"{kind}x{kind}"))
            cells.append((x, comp_tensor([rng.randrange(-t, t)], kind), f"{kind}x{kind}"))
            cells.append((comp_tensor([rng.randrange(-n, n)], kind), rng.choice(tt), f"{kind}x{kind}"))
        cells.append((comp_tensor([0, n - 1, 0], kind), comp_tensor([0, t - 1], kind), "mismatch"))
        cells.append((comp_tensor([n], kind), FULL, "outofrange"))
        cells.append((FULL, comp_tensor([-t - 1], kind), "outofrange"))
        cells.append((comp_tensor([0], kind), comp_tensor([t], kind), "outofrange"))
    # mixed tensor / list pairs
    for _ in range(4 if quick else 20):
        L = rng.choice([1, 2, 3])
        cells.append((comp_tensor([rng.randrange(-n, n) for _ in range(L)], "tensor"),
                      comp_tensor([rng.randrange(-t, t) for _ in range(L)], "list"), "tensorxlist"))
    # exotic forms (outside the property's list): must be rejected or right
    cells.append(({"k": "mask", "v": [1] + [0] * (n - 1)}, FULL, "exotic"))
    cells.append(({"k": "mask", "v": [1] * n}, comp_int(0), "exotic"))
    cells.append((FULL, {"k": "mask", "v": [1] * t}, "exotic"))
    cells.append(({"k": "none"}, comp_int(0), "exotic"))
    cells.append(({"k": "tensor0", "v": [0]}, comp_int(0), "exotic"))
    cells.append(({"k": "tensor0", "v": [0]}, FULL, "exotic"))
    cells.append(({"k": "tensor2", "v": [0, n - 1]}, {"k": "tensor2", "v": [0, t - 1]}, "exotic"))
    return cells


def pick_sub(lst, rng, k):
    return lst if len(lst) <= k else rng.sample(lst, k)


def batch_comps(rng):
    return [comp_int(0), comp_int(1), comp_int(-1), comp_int(-2), FULL, comp_slice(1, None, None), comp_slice(None, None, 2),
            comp_slice(None, 1, None), comp_tensor([1, 0]), comp_tensor([1], "list"), comp_tensor([-1, 0, 1])]


def rank_batch_shapes(n, t):
    """batch shapes of rank 0..3: size-1 dimensions, sizes coinciding with n / t / each other, and unequal ones"""
    out = []
    for shp in ((), (1,), (2,), (n,), (t,), (1, 1), (1, 2), (2, 1), (n, t), (t, n), (2, 3), (1, 1, 2), (2, 1, 3), (n, 1, t),
                (1, n, 1), (t, t, n)):
        if shp not in out and math.prod(shp) * n * t <= 96:
            out.append(shp)
    return out


def batch_comp_choices(b, rng, adv):
    """index components for a batch dimension of size b"""
    out = [comp_int(v) for v in range(-b, b)] + [FULL, FULL, comp_slice(None, None, 2), comp_slice(None, b + 2, None),
                                                 comp_slice(-1, None, None), comp_slice(-b - 1, b, 3)]
    if b > 1:
        out += [comp_slice(1, None, None), comp_slice(None, -1, None)]
    if rng.random() < 0.1:
        out += [comp_slice(b, None, None), comp_slice(1, None, None), comp_slice(None, -1, None)]   # (possibly) empty batch selections
    if adv:
        out += [comp_tensor([rng.randrange(-b, b) for _ in range(rng.choice([1, 2, 3]))], rng.choice(["tensor", "list"]))]
    return out


def run_rank_cells(ctx, rng, quick, lines, recs, deadline=None):
    """The whole `__getitem__` (tuple normalisation, Ellipsis at EVERY position, appended task slice, batch-only branch,
    batch components) on batch shapes of rank 0..3 incl. size-1 dimensions and sizes that coincide with n / t / each
    other; every cell goes through the specification oracle and - as a `B` line - through the generated dispatch."""
    sizes = [(1, 1), (2, 2), (3, 2), (2, 3), (1, 3), (4, 1), (3, 3)] if quick else [(n, t) for n in range(1, 5) for t in range(1, 5)]
    per_world = 4 if quick else 24
    for (n, t) in sizes:
        ev = [c for c in event_cells(n, t, rng, True) if c[2] not in ("exotic",)]
        for inter in (True, False):
            for shp in rank_batch_shapes(n, t):
                if deadline is not None and time.time() > deadline:
                    return
                W = Tagged(n, t, inter, shp)
                k = len(shp)
                for j in range(per_world):
                    adv = rng.random() < 0.2
                    bcs = [rng.choice(batch_comp_choices(b, rng, adv)) for b in shp]
                    p, a, origin = rng.choice(ev)
                    advc = [b for b in bcs if b["k"] in ("tensor", "list")]
                    bc = advc[0] if advc else (bcs[0] if bcs else None)
                    for comps, bare in presentations(bcs, p, a, rng, allv=True):
                        check_cell(ctx, W, comps, bare, (p, a), f"rank{k}:" + origin, lines, recs, bcomp=bc)
                    # short forms: every prefix of the batch components (batch-only branch), with and without Ellipsis,
                    # bare single component, batch + point (task slice appended)
                    if j < 2:
                        for m in range(k + 1):
                            pre = bcs[:m]
                            pc = [b for b in pre if b["k"] in ("tensor", "list")]
                            pb = pc[0] if pc else (pre[0] if pre else None)
                            check_cell(ctx, W, pre, False, None, f"rank{k}-short", lines, recs, bcomp=pb)
                            if m == 1:
                                check_cell(ctx, W, pre, True, None, f"rank{k}-short", lines, recs, bcomp=pb)
                            check_cell(ctx, W, pre + [ELL], False, (FULL, FULL), f"rank{k}-short", lines, recs, bcomp=pb)
                            onb = [b for b in pre[:max(0, m - 2)] if b["k"] in ("tensor", "list")]
                            check_cell(ctx, W, [ELL] + pre, False, _eff_after_ellipsis(pre, k), f"rank{k}-short", lines, recs,
                                       bcomp=onb[0] if onb else None)
                        check_cell(ctx, W, bcs + [p], False, (p, FULL), f"rank{k}-short", lines, recs, bcomp=bc)
                        if k == 0:
                            check_cell(ctx, W, [p], True, (p, FULL), f"rank{k}-short", lines, recs, bcomp=None)


def _eff_after_ellipsis(pre, k):
    """(..., c1, …, cm): the components land on the LAST m dimensions of a mean of rank k + 2"""
    m = len(pre)
    if m == 0:
        return (FULL, FULL)
    if m == 1:
        return (FULL, pre[-1])
    return (pre[-2], pre[-1])


def run_reported(ctx):
    """The minimal replays of the defects exposed in the design phase / while building this check (n=3, t=2), first,
    so that they head the report when they are present."""
    lines, recs = [], []
    cases = [(True, comp_slice(1, None, None), comp_int(0)), (True, comp_int(0), comp_slice(None, 10, None)),
             (False, comp_int(1), comp_slice(1, None, None)), (False, comp_slice(-5, None, None), comp_int(0)),
             (True, FULL, comp_tensor([-1])), (True, comp_tensor([1, 2]), comp_tensor([-1, 0])),
             (True, comp_tensor([1, 0]), comp_int(-1)), (False, comp_int(-1), comp_tensor([1, 0])),
             (True, comp_tensor([0, 1], "list"), comp_tensor([1, 0], "list"))]
    for inter, p, a in cases:
        check_cell(ctx, Tagged(3, 2, inter, ()), [p, a], False, (p, a), "reported", lines, recs)


def run_cells(ctx, want_driver=True, deep=False):
    import torch
    torch.set_num_threads(2)
    quick = ctx.quick and not deep
    rng = ctx.rng("cells")
    lines, recs = [], []
    sizes = [(n, t) for n in range(1, 5) for t in range(1, 5)]
    worlds = {}

    def world(n, t, inter, batch, psd=False):
        k = (n, t, inter, tuple(batch), psd)
        if k not in worlds:
            worlds[k] = Tagged(n, t, inter, batch, psd)
        return worlds[k]
    deadline = _state.get("deadline")
    if deadline is not None:
        rng.shuffle(sizes)      # a capped search should not spend its budget on the smallest shapes only
    for (n, t) in sizes:
        for inter in (True, False):
            if deadline is not None and time.time() > deadline:
                ctx.notes["deep_search_truncated_at"] = f"n={n} t={t} after {ctx.evaluations} cases"
                break
            W = world(n, t, inter, ())
            # constructor: the flat mean is the tag vector, the mean view gives the matrix back
            if not bool((W.d.loc == torch.arange(W.N, dtype=torch.float64)).all()) or not bool((W.d.mean == W.mean).all()):
                ctx.fail(f"constructor:{'interleaved' if inter else 'noninterleaved'}",
                         f"n={n} t={t}: loc / mean of the constructed distribution are not the tagged ones",
                         {"n": n, "t": t, "inter": inter})
            cells = event_cells(n, t, rng, quick)
            for (p, a, origin) in cells:
                for comps, bare in presentations([], p, a, rng, allv=(origin in ("intxint",) and n == 3 and t == 2)):
                    check_cell(ctx, W, comps, bare, (p, a), origin, lines, recs)
            # batch shape (2,): batch component x a sample of event cells
            Wb = world(n, t, inter, (2,))
            if not bool((Wb.d.mean == Wb.mean).all()):
                ctx.fail(f"constructor:{'interleaved' if inter else 'noninterleaved'}",
                         f"n={n} t={t} batch=(2,): mean of the constructed distribution is not the tagged one",
                         {"n": n, "t": t, "inter": inter, "batch": [2]})
            sub = [c for c in cells if c[2] not in ("exotic",)]
            sub = rng.sample(sub, min(len(sub), 90 if quick else 700))
            for (p, a, origin) in sub:
                b = rng.choice(batch_comps(rng))
                for comps, bare in presentations([b], p, a, rng, allv=False):
                    check_cell(ctx, Wb, comps, bare, (p, a), "batch:" + origin, lines, recs, bcomp=b)
            # two batch dimensions (2, 3): ints / slices / an index tensor on either of them
            if not quick or (n, t) in ((3, 2), (2, 3), (1, 2), (2, 1), (4, 4)):
                Wbb = world(n, t, inter, (2, 3))
                b2s = [comp_int(0), comp_int(2), comp_int(-3), comp_int(-1), FULL, comp_slice(1, None, None), comp_slice(None, None, 2),
                       comp_slice(-2, 5, None), comp_tensor([2, 0]), comp_tensor([-1, 1, 1], "list")]
                for (p, a, origin) in rng.sample(sub, min(len(sub), 45 if quick else 300)):
                    b1, b2 = rng.choice(batch_comps(rng)), rng.choice(b2s)
                    adv = [b for b in (b1, b2) if b["k"] in ("tensor", "list")]
                    for comps, bare in presentations([b1, b2], p, a, rng, allv=False):
                        check_cell(ctx, Wbb, comps, bare, (p, a), "batch2:" + origin, lines, recs, bcomp=adv[0] if adv else b1)
                for b1, b2 in ((comp_int(1), comp_int(-1)), (FULL, comp_int(0)), (comp_int(0), FULL), (comp_slice(1, None, None), FULL)):
                    for comps, bare, eff in (([b1, b2], False, None), ([b1], False, None), ([b1], True, None),
                                             ([b1, b2, ELL], False, (FULL, FULL)), ([b1, ELL], False, (FULL, FULL)),
                                             ([ELL, b2], False, None)):
                        if comps == [ELL, b2]:
                            eff = (FULL, b2)   # lands on the task dimension
                        check_cell(ctx, Wbb, comps, bare, eff, "batch2-short", lines, recs, bcomp=b1)
            # batch-only and short indices
            for b in batch_comps(rng):
                short = [([b], False, None), ([b], True, None),            # batch-only branch
                         ([b, ELL], False, (FULL, FULL)), ([ELL], False, (FULL, FULL)), ([ELL], True, (FULL, FULL)),
                         ([b, FULL], False, (FULL, FULL)),                    # task slice appended
                         ([ELL, b], False, (FULL, b))]                        # b lands on the task dimension
                for comps, bare, eff in short:
                    if comps == [ELL, b] and lean_comp(b) is None:
                        continue
                    check_cell(ctx, Wb, comps, bare, eff, "batch-short", lines, recs, bcomp=None if comps[0] == ELL else b)
            # dense PSD covariance (non-lazy constructor path), symmetric tags
            if (n, t) in ((3, 2), (2, 3), (4, 3)) or not quick:
                Wp = world(n, t, inter, (), True)
                for (p, a, origin) in rng.sample(sub, min(len(sub), 60 if quick else 300)):
                    check_cell(ctx, Wp, [p, a], False, (p, a), "psd:" + origin, lines, recs)
    run_rank_cells(ctx, ctx.rng("rank-cells"), quick, lines, recs, deadline)
    ctx.notes["cells_sent_to_driver"] = len(lines)
    if not want_driver:
        return
    # ---- Lean driver: generated code positions and Lean spec positions
    try:
        replies = C.run_driver("C11", lines)
    except Exception as e:
        ctx.broke("driver", "C11 driver", str(e))
        return
    mism = spec_mism = 0
    for rec, rep in zip(recs, replies):
        try:
            gen, spec = (x.split("=", 1)[1] for x in rep.split(";"))
        except Exception:
            ctx.broke("driver", "bad reply", rep[:200])
            break
        if rec.get("lax") and spec == "none":
            ctx.count("empty_result_out_of_range_tensor_not_observable")
            continue
        if rec["spec"] is not None and spec != rec["spec"]:
            spec_mism += 1
            if spec_mism <= 3:
                ctx.broke("correspondence", "spec-model-mismatch:" + rec["key"],
                          f"{rec['text']}: Lean specGetitem gives {spec}, torch mean[idx] gives {rec['spec']}")
        if rec.get("b") and rec["valid"] and rec["rejected"] and gen != "none":
            ctx.count("generated_selects_where_implementation_raises" + ("_batch_advanced" if rec.get("batch_adv") else ""))
        if rec.get("batch_adv") and rec["real"] is not None and rec["real"].split("|")[2].replace("/", "").replace("_", "") == "":
            # an EMPTY selection combined with an index tensor on a batch dimension: linear_operator keeps the batch
            # dimension where torch broadcasts it away; outside the model of LinearOperator indexing, inside the known finding
            ctx.count("batch_advanced_empty_not_compared")
            continue
        if rec.get("batch_adv") and rec["real"] is not None and gen != rec["real"] and _broadcasts_to(gen, rec["real"]):
            # the selected covariance has a smaller batch shape than mean[idx]; the constructor of the result broadcasts it
            ctx.count("batch_advanced_cov_broadcast_by_constructor")
            continue
        if rec["valid"] and not rec["rejected"] and rec["real"] is not None and gen != rec["real"]:
            mism += 1
            mk = ctx.notes.setdefault("model_mismatch_keys", {})
            mk[rec["key"]] = mk.get(rec["key"], 0) + 1
            if mism <= 3:
                ctx.broke("correspondence", "model-mismatch:" + rec["key"],
                          f"{rec['text']}: generated code gives {gen}, the implementation selected {rec['real']}")
    ctx.count("driver_lines", len(lines))
    ctx.count("driver_lines_full_getitem", sum(1 for r in recs if r.get("b")))
    ctx.count("driver_lines_full_getitem_batch_advanced", sum(1 for r in recs if r.get("b") and r.get("batch_adv")))
    ctx.count("model_mismatches", mism)
    ctx.count("spec_model_mismatches", spec_mism)


# ------------------------------------------------------------------------------------------ dense-joint numerics

def _flatten(x, inter):
    """(…, n, t) -> (…, n·t) in the layout's order; pure torch, independent of gpytorch."""
    return x.reshape(*x.shape[:-2], -1) if inter else x.transpose(-1, -2).reshape(*x.shape[:-2], -1)


def _rand_cov(gen, batch, N):
    import torch
    A = torch.rand(*batch, N, N, generator=gen, dtype=torch.float64) * 2 - 1
    K = A @ A.transpose(-1, -2) / N + 0.5 * torch.eye(N, dtype=torch.float64)
    return K + 0.05 * torch.diag_embed(torch.arange(N, dtype=torch.float64).expand(*batch, N) / N)


def _logpdf(y, m, K):
    import torch
    r = (y - m).unsqueeze(-1)
    sol = torch.linalg.solve(K, r)
    quad = (r * sol).sum((-1, -2))
    return -0.5 * quad - 0.5 * torch.linalg.slogdet(K)[1] - 0.5 * K.shape[-1] * math.log(2 * math.pi)


def _close(a, b, rtol=1e-9, atol=1e-9):
    import torch
    a, b = torch.as_tensor(a, dtype=torch.float64), torch.as_tensor(b, dtype=torch.float64)
    if a.shape != b.shape:
        return False, f"shape {tuple(a.shape)} vs {tuple(b.shape)}"
    d = (a - b).abs()
    ok = bool((d <= atol + rtol * b.abs()).all())
    return ok, f"max abs diff {float(d.max()) if d.numel() else 0.0:.3e}"


COV_FORMS = ("dense", "lazy", "diag", "root", "rootwide")


def _cov_form(form, gen, batch, N):
    """(K dense reference, covariance argument) for one storage form of the covariance.
    dense = plain tensor (non-lazy torch path), lazy = DenseLinearOperator, diag = DiagLinearOperator (distinct
    variances), root = RootLinearOperator with a square root, rootwide = RootLinearOperator with a wide N x (N+2) root."""
    import torch
    from linear_operator import to_linear_operator
    from linear_operator.operators import DiagLinearOperator, RootLinearOperator
    if form in ("dense", "lazy"):
        K = _rand_cov(gen, batch, N)
        return K, (K if form == "dense" else to_linear_operator(K))
    if form == "diag":
        dv = 0.5 + torch.rand(*batch, N, generator=gen, dtype=torch.float64) + torch.arange(N, dtype=torch.float64) / N
        return torch.diag_embed(dv), DiagLinearOperator(dv)
    r = N if form == "root" else N + 2
    R = 0.5 * (torch.rand(*batch, N, r, generator=gen, dtype=torch.float64) * 2 - 1) / math.sqrt(N)
    R = R + torch.eye(N, r, dtype=torch.float64)
    return R @ R.transpose(-1, -2), RootLinearOperator(R)


COND_MAX = 1e4   # problems are generated well conditioned; anything above is discarded and counted


def _well_conditioned(ctx, K):
    import torch
    if K.numel() and float(torch.linalg.cond(K).max()) > COND_MAX:
        ctx.count("discarded_ill_conditioned")
        return False
    return True


def _numeric_one(d, mean, K, m_flat, n, t, inter, batch, gen, report, form="lazy"):
    import torch
    import warnings
    N = n * t
    mean0, K0 = mean.clone(), K.clone()
    # mean / variance
    report("mean", *_close(d.mean, mean, 0, 0))
    var_ref = torch.diagonal(K, dim1=-1, dim2=-2)
    var_ref = var_ref.reshape(*batch, n, t) if inter else var_ref.reshape(*batch, t, n).transpose(-1, -2)
    report("variance", *_close(d.variance, var_ref))
    # log_prob, also with extra sample dimensions
    first = None
    for sshape in ((), (3,)):
        v = torch.rand(*sshape, *batch, n, t, generator=gen, dtype=torch.float64) * 4 - 2
        ref = _logpdf(_flatten(v, inter), m_flat, K)
        with warnings.catch_warnings():
            warnings.simplefilter("ignore")
            got = d.log_prob(v)
        report("log_prob", *_close(got, ref, 1e-9, 1e-9))
        if first is None:
            first = (v, got.clone())
    # rsample with base samples: the sampling map is affine with Gram matrix K
    if form != "rootwide":   # a non-square root takes base samples of the root's width: MultivariateNormal's business (C10)
        E = torch.eye(N, dtype=torch.float64).reshape(N, *([1] * len(batch)), n, t).expand(N, *batch, n, t).contiguous()
        with warnings.catch_warnings():
            warnings.simplefilter("ignore")
            s0 = d.rsample(base_samples=torch.zeros(*batch, n, t, dtype=torch.float64))
            S = d.rsample(base_samples=E)
        report("rsample-zero-base", *_close(s0, mean, 1e-12, 1e-12))
        ok_shape = tuple(S.shape) == (N, *batch, n, t)
        if not ok_shape:
            report("rsample-base", False, f"shape {tuple(S.shape)}")
        else:
            A = (_flatten(S, inter) - m_flat).movedim(0, -1)     # (..., N, N): column k = image of e_k
            report("rsample-base", *_close(A @ A.transpose(-1, -2), K, 1e-9, 1e-9))
        bs = d.get_base_samples(torch.Size([2]))
        report("get_base_samples-shape", tuple(bs.shape) == (2, *batch, n, t), f"shape {tuple(bs.shape)}")
    # to_data_independent_dist (jitter 1e-3 and the legal 0.0)
    pos = torch.tensor([[i * t + a if inter else a * n + i for a in range(t)] for i in range(n)])
    for jit in (1e-3, 0.0):
        with warnings.catch_warnings():
            warnings.simplefilter("ignore")
            di = d.to_data_independent_dist(jitter_val=jit)
        ref = K[..., pos.unsqueeze(-1), pos.unsqueeze(-2)] + jit * torch.eye(t, dtype=torch.float64)
        report("to_data_independent_dist-mean", *_close(di.mean, mean, 0, 0))
        report("to_data_independent_dist-cov", *_close(di.covariance_matrix, ref, 1e-12, 1e-12))
    # indexing against the dense joint (numeric twin of the tagged cells, for every covariance storage form)
    bsl = (slice(None),) * len(batch)
    r0 = min(1, n - 1)    # non-empty: densifying an empty selection of a DiagLinearOperator fails inside linear_operator
    for idx, rows, cols in (((n - 1, slice(None)), [n - 1], list(range(t))), ((slice(None), t - 1), list(range(n)), [t - 1]),
                            ((slice(r0, None), slice(None, None, 2)), list(range(r0, n)), list(range(0, t, 2))),
                            ((torch.tensor([-1, 0]), slice(None)), [n - 1, 0], list(range(t)))):
        sub = d[bsl + idx]
        order = [(i, a) for i in rows for a in cols] if (inter or len(rows) == 1 or len(cols) == 1) else \
            [(i, a) for a in cols for i in rows]
        pp = torch.tensor([int(pos[i, a]) for i, a in order], dtype=torch.long)
        refc = K[..., pp.unsqueeze(-1), pp.unsqueeze(-2)] if len(order) else K[..., :0, :0]
        with warnings.catch_warnings():
            warnings.simplefilter("ignore")
            gotc = sub.covariance_matrix
        report("getitem-cov", *_close(gotc, refc, 1e-10, 1e-10))
        report("getitem-mean", *_close(sub.mean, mean[bsl + idx], 0, 0))
    # expand: the same joint replicated over new leading batch dimensions.  (On an object built from a plain tensor
    # covariance `expand` raises AttributeError `_covar` on the current tree: recorded by run_numeric as an observation,
    # `expand` not being one of the observables the property lists.)
    if form == "dense":
        return _numeric_history(d, mean, K, mean0, K0, var_ref, first, report)
    e = d.expand(torch.Size([3]) + torch.Size(batch))
    report("expand-mean", *_close(e.mean, mean.expand(3, *batch, n, t), 0, 0))
    report("expand-variance", *_close(e.variance, var_ref.expand(3, *batch, n, t)))
    with warnings.catch_warnings():
        warnings.simplefilter("ignore")
        report("expand-log_prob", *_close(e.log_prob(first[0]), _logpdf(_flatten(first[0], inter), m_flat, K).expand(3, *batch),
                                          1e-9, 1e-9))
    _numeric_history(d, mean, K, mean0, K0, var_ref, first, report)


def _numeric_history(d, mean, K, mean0, K0, var_ref, first, report):
    """history / aliasing: after all of the above the object answers as it did first, and its inputs are untouched"""
    import warnings
    with warnings.catch_warnings():
        warnings.simplefilter("ignore")
        d.covariance_matrix
        d.confidence_region()
        again = d.log_prob(first[0])
    report("history-log_prob", *_close(again, first[1], 0, 0))
    report("history-mean", *_close(d.mean, mean0, 0, 0))
    report("history-variance", *_close(d.variance, var_ref))
    report("inputs-untouched", bool((mean == mean0).all()) and bool((K == K0).all()), "mean / covariance tensor passed in was modified")


def _one_gaussian(d, n, t, inter, batch, gen, report, tag, Kref=None):
    """One object = ONE joint Gaussian N(flatten(d.mean), d.covariance_matrix): every view of the object (log_prob,
    the centre of rsample, variance, the means / densities of d[idx], to_data_independent_dist) must describe that
    Gaussian, and asking twice must give the same answer.  Which values the object holds is not prescribed here."""
    import torch
    import warnings
    with warnings.catch_warnings():
        warnings.simplefilter("ignore")
        m = d.mean.clone()
        Kd = d.covariance_matrix.clone()
        report(f"{tag}-mean-repeat", *_close(d.mean, m, 0, 0))
        report(f"{tag}-cov-repeat", *_close(d.covariance_matrix, Kd, 0, 0))
        if Kref is not None:
            Kd = Kref
        if tuple(m.shape) != (*batch, n, t):
            report(f"{tag}-mean-shape", False, f"shape {tuple(m.shape)}")
            return
        m_flat = _flatten(m, inter)
        x = m + 0.3 * (torch.rand(*batch, n, t, generator=gen, dtype=torch.float64) * 2 - 1)
        lp = d.log_prob(x)
        report(f"{tag}-log_prob", *_close(lp, _logpdf(_flatten(x, inter), m_flat, Kd), 1e-9, 1e-9))
        report(f"{tag}-log_prob-repeat", *_close(d.log_prob(x), lp, 0, 0))
        c0 = d.rsample(base_samples=torch.zeros(*batch, n, t, dtype=torch.float64))
        report(f"{tag}-rsample-centre", *_close(c0, m, 1e-12, 1e-12))
        dg = torch.diagonal(Kd, dim1=-1, dim2=-2)
        report(f"{tag}-variance", *_close(d.variance, dg.reshape(*batch, n, t) if inter else dg.reshape(*batch, t, n).transpose(-1, -2)))
        pos = torch.tensor([[i * t + a if inter else a * n + i for a in range(t)] for i in range(n)])
        i, a = n - 1, 0
        for name, sub, ref_m, pp in (("point", d[..., i, :], m[..., i, :], pos[i, :]), ("task", d[..., :, a], m[..., :, a], pos[:, a])):
            report(f"{tag}-getitem-{name}-mean", *_close(sub.mean, ref_m, 0, 0))
            y = ref_m + 0.2
            report(f"{tag}-getitem-{name}-log_prob",
                   *_close(sub.log_prob(y), _logpdf(y, ref_m, Kd[..., pp.unsqueeze(-1), pp.unsqueeze(-2)]), 1e-9, 1e-9))
        s2 = d[..., : n, :]
        report(f"{tag}-getitem-slices-mean", *_close(s2.mean, m, 0, 0))
        report(f"{tag}-to_data_independent_dist-mean", *_close(d.to_data_independent_dist(jitter_val=0.0).mean, m, 0, 0))
        report(f"{tag}-mean-repeat2", *_close(d.mean, m, 0, 0))


def run_inplace(ctx, gen):
    """History class "argument tensors updated in place after construction" (optimizer step, re-used buffer): the mean
    tensor (full, 1 x t and n x 1 broadcast forms; the flat `loc` aliases it only when interleaved and full) and a dense
    covariance tensor are modified in place, before any use of the object and after every view has been used once;
    afterwards the object must still be ONE Gaussian (`_one_gaussian`): either every view follows the update or none."""
    import torch
    import warnings
    from linear_operator import to_linear_operator
    from gpytorch.distributions import MultitaskMultivariateNormal
    sizes = ((3, 2), (2, 3)) if ctx.quick else ((3, 2), (2, 3), (2, 2), (1, 3), (4, 1))
    for (n, t), inter, batch, mform, cform, when, target in itertools.product(
            sizes, (True, False), ((), (2,)), ("full", "row", "col", "noncontig"), ("dense", "lazy"), ("fresh", "used"),
            ("mean", "cov")):
        if target == "cov" and cform != "dense":
            continue    # a LinearOperator wrapping the tensor: linear_operator's caches are its own business
        if ctx.quick and batch and (n, t) != (3, 2):
            continue
        N = n * t
        lay = "interleaved" if inter else "noninterleaved"
        K = _rand_cov(gen, batch, N)
        Ksrc = K.clone()
        shape = {"full": (n, t), "row": (1, t), "col": (n, 1), "noncontig": (n, t)}[mform]
        if shape == (1, 1) and N > 1:
            continue    # ambiguous: a 1 x 1 mean
        if (mform == "row" and n == 1) or (mform == "col" and t == 1):
            continue
        src = torch.rand(*batch, *shape, generator=gen, dtype=torch.float64) * 4 - 2
        if mform == "noncontig":
            src = (torch.rand(*batch, t, n, generator=gen, dtype=torch.float64) * 4 - 2).transpose(-1, -2)
        desc = f"inplace n={n} t={t} {lay} batch={list(batch)} mean={mform} cov={cform} {when} update={target}"
        rp = {"n": n, "t": t, "inter": inter, "batch": list(batch), "numeric": True, "what": "inplace", "mform": mform,
              "cform": cform, "when": when, "target": target}

        def report(what, ok, info, desc=desc, rp=rp, lay=lay):
            ctx.case(f"{desc} {what}")
            ctx.count("numeric_checks")
            if not ok:
                ctx.fail(f"numeric:{what}:{lay}", f"{desc}: {what}: the object no longer denotes one Gaussian ({info})", dict(rp, site=what))
        try:
            with warnings.catch_warnings():
                warnings.simplefilter("ignore")
                d = MultitaskMultivariateNormal(src, Ksrc if cform == "dense" else to_linear_operator(Ksrc), interleaved=inter)
            if when == "used":
                _one_gaussian(d, n, t, inter, batch, gen, report, "inplace-before")
            with torch.no_grad():
                if target == "mean":
                    src.add_(1.5)
                    src.mul_(-0.5)
                else:
                    Ksrc.mul_(1.7)
                    Ksrc.add_(0.3 * torch.eye(N, dtype=torch.float64))
            Kref = None
            if target == "cov":
                # torch.distributions.MultivariateNormal (outside gpytorch) keeps the dense argument tensor as its
                # `covariance_matrix` attribute and factorises it once at construction: the attribute follows an in-place
                # update, the factor does not.  Recorded as an observation; gpytorch's own views are judged against
                # whichever of the old / new matrix the variance reports - all of them must agree on that one.
                with warnings.catch_warnings():
                    warnings.simplefilter("ignore")
                    var = _flatten(d.variance, inter)
                    follows = _close(var, torch.diagonal(Ksrc, dim1=-1, dim2=-2))[0]
                    Kref = Ksrc.clone() if follows else K
                    if not _close(d.covariance_matrix, Kref)[0]:
                        ctx.notes["observation_dense_cov_attribute_follows_inplace_update"] = \
                            "torch.distributions keeps the argument tensor as covariance_matrix; factor computed at construction"
            _one_gaussian(d, n, t, inter, batch, gen, report, f"inplace-{target}", Kref)
        except Exception as e:
            report("inplace-raises", False, f"{type(e).__name__}: {str(e)[:150]}")


def run_numeric(ctx):
    import torch
    import warnings
    from linear_operator import to_linear_operator
    from gpytorch.distributions import MultitaskMultivariateNormal, MultivariateNormal
    rng = ctx.rng("numeric")
    gen = torch.Generator().manual_seed(rng.torch_seed())
    shapes = [(2, 3), (3, 2), (4, 2), (1, 3), (3, 1), (2, 4)] + ([] if ctx.quick else [(3, 4), (4, 3), (2, 2), (4, 1), (1, 4)])
    reps = 1 if ctx.quick else 3
    batches = ((), (2,), (2, 3)) if ctx.quick else ((), (2,), (2, 3), (1, 2, 2))
    for (n, t), inter, batch, form, _ in itertools.product(shapes, (True, False), batches, COV_FORMS, range(reps)):
        if ctx.quick and len(batch) >= 2 and (n, t) not in ((2, 3), (3, 2)):
            continue
        N = n * t
        lay = "interleaved" if inter else "noninterleaved"
        K, covarg = _cov_form(form, gen, batch, N)
        if not _well_conditioned(ctx, K):
            continue
        mean = torch.rand(*batch, n, t, generator=gen, dtype=torch.float64) * 4 - 2
        d = MultitaskMultivariateNormal(mean, covarg, interleaved=inter)
        desc = f"numeric n={n} t={t} {lay} batch={list(batch)} cov={form}"
        rp = {"n": n, "t": t, "inter": inter, "batch": list(batch), "form": form, "numeric": True}
        m_flat = _flatten(mean, inter)

        def report(what, ok, info, desc=desc, rp=rp, lay=lay):
            ctx.case(f"{desc} {what}")
            ctx.count("numeric_checks")
            if not ok:
                ctx.fail(f"numeric:{what}:{lay}", f"{desc}: {what} differs from the dense joint ({info})", dict(rp, what=what))
        try:
            _numeric_one(d, mean, K, m_flat, n, t, inter, batch, gen, report, form)
        except Exception as e:   # the implementation raised on a valid call: a failure of that site, not of the harness
            import traceback
            site = [f.name for f in traceback.extract_tb(e.__traceback__) if "multitask_multivariate_normal" in f.filename]
            report((site[-1] if site else "call") + "-raises", False, f"{type(e).__name__}: {str(e)[:150]}")
    run_broadcast_ctor(ctx, gen)
    run_inplace(ctx, gen)
    # rsample without base samples: moments of the joint (statistical, 6-sigma bounds; deterministic per seed)
    for (n, t), inter, form in (((3, 2), True, "lazy"), ((3, 2), False, "lazy"), ((2, 3), False, "diag"), ((2, 3), True, "root"),
                                ((2, 3), False, "rootwide")):
        N = n * t
        K, covarg = _cov_form(form, gen, (), N)
        mean = torch.rand(n, t, generator=gen, dtype=torch.float64) * 4 - 2
        d = MultitaskMultivariateNormal(mean, covarg, interleaved=inter)
        torch.manual_seed(rng.torch_seed())
        ns = 40000
        with warnings.catch_warnings():
            warnings.simplefilter("ignore")
            S = d.rsample(torch.Size([ns]))
        lay = "interleaved" if inter else "noninterleaved"
        ctx.case(f"numeric rsample-moments n={n} t={t} {lay} cov={form}")
        if tuple(S.shape) != (ns, n, t):
            ctx.fail(f"numeric:rsample:{lay}", f"rsample shape {tuple(S.shape)}", {"n": n, "t": t, "inter": inter})
            continue
        Y = _flatten(S, inter)
        emp = torch.cov(Y.T)
        sd = torch.sqrt((torch.diagonal(K)[:, None] * torch.diagonal(K)[None, :] + K * K) / ns)
        z = float(((emp - K).abs() / sd).max())
        zm = float(((Y.mean(0) - _flatten(mean, inter)).abs() / torch.sqrt(torch.diagonal(K) / ns)).max())
        ctx.notes.setdefault("rsample_moment_z", []).append(round(max(z, zm), 2))
        if z > 6.5 or zm > 6.5:
            ctx.fail(f"numeric:rsample:{lay}", f"n={n} t={t} {lay} cov={form}: sample moments of rsample() are {max(z, zm):.1f} "
                     f"standard errors from the joint's ({ns} samples)", {"n": n, "t": t, "inter": inter, "what": "rsample"})
    # constructors
    run_constructors(ctx, gen)


def run_broadcast_ctor(ctx, gen):
    """Legal-but-unusual constructor arguments: a mean with a singleton point / task dimension, a covariance batch
    broader than the mean's (and vice versa), validate_args=True.  The joint is the broadcast one."""
    import torch
    import warnings
    from linear_operator import to_linear_operator
    from gpytorch.distributions import MultitaskMultivariateNormal
    for (n, t), inter in itertools.product(((2, 3), (3, 2), (1, 3)), (True, False)):
        N = n * t
        lay = "interleaved" if inter else "noninterleaved"
        for kind, mshape, kbatch in (("mean-1xt", (1, t), ()), ("mean-nx1", (n, 1), ()), ("cov-batch", (n, t), (2,)),
                                     ("mean-batch", (2, n, t), ()), ("both-batch", (2, 1, n, t), (3,)), ("validate", (n, t), ())):
            if (kind == "mean-nx1" and n == 1) or (kind == "mean-1xt" and t == 1):
                continue    # ambiguous: a 1 x 1 mean
            K = _rand_cov(gen, kbatch, N)
            m = torch.rand(*mshape, generator=gen, dtype=torch.float64) * 4 - 2
            desc = f"constructor-broadcast {kind} n={n} t={t} {lay}"
            rp = {"n": n, "t": t, "inter": inter, "numeric": True, "what": "broadcast-" + kind}
            ctx.case(desc)
            ctx.count("numeric_checks")
            try:
                with warnings.catch_warnings():
                    warnings.simplefilter("ignore")
                    d = MultitaskMultivariateNormal(m, to_linear_operator(K), interleaved=inter, validate_args=(kind == "validate"))
                    bshape = torch.broadcast_shapes(m.shape[:-2], K.shape[:-2])
                    full = m.expand(*bshape, n, t)
                    Kf = K.expand(*bshape, N, N)
                    v = torch.rand(*bshape, n, t, generator=gen, dtype=torch.float64) * 2 - 1
                    checks = (("mean", d.mean, full, 0, 0),
                              ("variance", d.variance, (torch.diagonal(Kf, dim1=-1, dim2=-2).reshape(*bshape, n, t) if inter else
                                                        torch.diagonal(Kf, dim1=-1, dim2=-2).reshape(*bshape, t, n).transpose(-1, -2)), 1e-9, 1e-9),
                              ("log_prob", d.log_prob(v), _logpdf(_flatten(v, inter), _flatten(full, inter), Kf), 1e-9, 1e-9))
            except Exception as e:
                ctx.fail(f"numeric:broadcast-{kind}:raises", f"{desc}: {type(e).__name__}: {str(e)[:150]}", rp)
                continue
            for what, got, ref, rt, at in checks:
                ok, info = _close(got, ref, rt, at)
                if not ok:
                    ctx.fail(f"numeric:broadcast-{kind}-{what}:{lay}", f"{desc}: {what} is not that of the broadcast joint ({info})", rp)


def _batch_shapes_with_task(t, max_dims):
    """(batch shape, task position): the task dimension at every position among up to `max_dims` batch dimensions, the
    other dimensions equal to each other / to t, unequal, or of size 1."""
    out = [((t,), 0)]
    others = {2: [(2,), (3,), (1,), (t,)], 3: [(2, 2), (2, 3), (1, 2), (3, 1), (t, t)], 4: [(2, 2, 2), (2, 3, 1)]}
    for nb in range(2, max_dims + 1):
        for pos in range(nb):
            for oth in others[nb]:
                shp = list(oth)
                shp.insert(pos, t)
                if (tuple(shp), pos) not in out:
                    out.append((tuple(shp), pos))
    return out


def _plan_case(case):
    """remember a constructor call so that the REGENERATED permutation / stacking / block dimensions can be executed by torch
    on the same arguments (run_plan_cases)"""
    import warnings
    lst = _state.setdefault("plan_cases", [])
    if sum(1 for c in lst if c["kind"] == case["kind"]) >= 80:
        return
    try:
        with warnings.catch_warnings():
            warnings.simplefilter("ignore")
            case["res_mean"] = case["res"].mean.clone()
            case["res_cov"] = case["res"].covariance_matrix.clone()
        del case["res"]
        lst.append(case)
    except Exception:
        pass


def run_plan_cases(ctx, creply):
    """The regenerated plans of the constructors executed by torch: `mean.permute(*perm)` / `BlockInterleaved(K, block_dim)`,
    `stack` / `unsqueeze` / `cat` / `BlockDiag`, `expand(shape)` + task_dim — on the arguments of the real calls, compared
    (exactly) with what the real constructors built."""
    import torch
    import warnings
    from linear_operator import to_linear_operator
    from linear_operator.operators import BlockDiagLinearOperator, BlockInterleavedLinearOperator
    cases = _state.pop("plan_cases", [])
    if not cases:
        return
    ops = {"interleavedBlocks": BlockInterleavedLinearOperator, "diagBlocks": BlockDiagLinearOperator}
    info = dict(part.split("=", 1) for part in creply.split(";"))
    lines = []
    for c in cases:
        if c["kind"] == "batch":
            lines.append(f"P {c['nb']} {c['task_dim']}")
        elif c["kind"] == "rep":
            lines.append(f"R {c['nt']} {len(c['bshape'])} " + " ".join(map(str, c["bshape"])))
            lines.append(f"P {len(c['bshape']) + 1} {info['repeated'].split('/')[0]}")
    try:
        replies = iter(C.run_driver("C11", lines)) if lines else iter(())
    except Exception as e:
        ctx.broke("driver", "C11 driver", str(e))
        return

    def plan(rep):
        body = rep.split("=", 1)[1]
        if body == "none":
            return None
        perm, bd = body.split("/")
        return [int(x) for x in perm.split(",")], int(bd)
    bad = 0
    for c in cases:
        ctx.case(f"generated plan executed: {c['desc']}")
        ctx.count("generated_plan_executions")
        try:
            with warnings.catch_warnings():
                warnings.simplefilter("ignore")
                if c["kind"] == "batch":
                    pl = plan(next(replies))
                    op = ops[info["fromBatchMvn"].split("/")[0]]
                    mean2 = c["m"].permute(*pl[0])
                    cov2 = op(to_linear_operator(c["K"]), block_dim=pl[1]).to_dense()
                elif c["kind"] == "indep":
                    sd, ud, cd, bd = (int(x) for x in info["indep"].split(","))
                    op = ops[info["fromIndependentMvns"].split("/")[0]]
                    mean2 = torch.stack(c["ms"], sd)
                    cov2 = op(to_linear_operator(torch.cat([k.unsqueeze(ud) for k in c["Ks"]], dim=cd)), block_dim=bd).to_dense()
                else:
                    r1 = dict(part.split("=", 1) for part in next(replies).split(";"))
                    pl = plan(next(replies))
                    shape = [int(x) for x in r1["shape"].split(",")]
                    op = ops[info["fromRepeatedMvn"].split("/")[0]]
                    mean2 = c["m"].expand(*shape, c["m"].shape[-1]).permute(*pl[0])
                    cov2 = op(to_linear_operator(c["K"].expand(*shape, *c["K"].shape[-2:])), block_dim=pl[1]).to_dense()
            ok = (tuple(mean2.shape) == tuple(c["res_mean"].shape) and bool((mean2 == c["res_mean"]).all())
                  and tuple(cov2.shape) == tuple(c["res_cov"].shape) and bool(((cov2 - c["res_cov"]).abs() <= 1e-12).all()))
            why = "" if ok else f"mean shape {tuple(mean2.shape)} vs {tuple(c['res_mean'].shape)}, cov shape {tuple(cov2.shape)}"
        except Exception as e:
            ok, why = False, f"{type(e).__name__}: {str(e)[:120]}"
        if not ok:
            bad += 1
            if bad <= 3:
                ctx.broke("correspondence", f"model-mismatch:constructor-plan:{c['kind']}",
                          f"{c['desc']}: the regenerated plan executed by torch does not rebuild the real result ({why})")
    ctx.count("generated_plan_mismatches", bad)


def run_constructors(ctx, gen):
    import torch
    import warnings
    from linear_operator import to_linear_operator
    from linear_operator.operators import DiagLinearOperator, RootLinearOperator
    from gpytorch.distributions import MultitaskMultivariateNormal, MultivariateNormal

    def task_cov(form, bshape, n):
        """per-task covariance in one storage form -> (dense reference, argument for MultivariateNormal)"""
        return _cov_form(form, gen, bshape, n)

    def joint_check(what, res, means, covs, desc, rp):
        try:
            joint_check_(what, res, means, covs, desc, rp)
        except Exception as e:
            ctx.fail(f"numeric:{what}:raises", f"{desc}: {type(e).__name__}: {str(e)[:150]}", rp)

    def joint_check_(what, res, means, covs, desc, rp):
        """means: (..., t, n) per-task means, covs (..., t, n, n): expected joint = independent tasks."""
        t, n = means.shape[-2], means.shape[-1]
        exp_mean = means.transpose(-1, -2)
        ok, info = _close(res.mean, exp_mean, 0, 0)
        lay = "interleaved" if res._interleaved else "noninterleaved"
        ctx.case(f"{desc} {what}")
        ctx.count("numeric_checks")
        if not ok:
            ctx.fail(f"numeric:{what}-mean:{lay}", f"{desc}: mean is not the stack of the task means ({info})", rp)
            return
        N = n * t
        Kexp = torch.zeros(*means.shape[:-2], N, N, dtype=torch.float64)
        grid = torch.tensor([[i * t + a if res._interleaved else a * n + i for a in range(t)] for i in range(n)])
        for a in range(t):
            pos = grid[:, a]
            Kexp[..., pos.unsqueeze(-1), pos.unsqueeze(-2)] = covs[..., a, :, :]
        with warnings.catch_warnings():
            warnings.simplefilter("ignore")
            ok, info = _close(res.covariance_matrix, Kexp, 1e-10, 1e-10)
        if not ok:
            ctx.fail(f"numeric:{what}-cov:{lay}", f"{desc}: covariance is not block-independent over tasks ({info})", rp)
            return
        v = torch.rand(*means.shape[:-2], n, t, generator=gen, dtype=torch.float64) * 2 - 1
        ref = sum(_logpdf(v[..., a], means[..., a, :], covs[..., a, :, :]) for a in range(t))
        with warnings.catch_warnings():
            warnings.simplefilter("ignore")
            got = res.log_prob(v)
        ok, info = _close(got, ref, 1e-9, 1e-9)
        if not ok:
            ctx.fail(f"numeric:{what}-log_prob:{lay}", f"{desc}: log_prob is not the sum of the task log-densities ({info})", rp)
        ok, info = _close(res.variance, torch.diagonal(covs, dim1=-1, dim2=-2).transpose(-1, -2))
        if not ok:
            ctx.fail(f"numeric:{what}-variance:{lay}", f"{desc}: variance ({info})", rp)
        # the result used like any other multitask distribution: task block of every point, one task, one point
        with warnings.catch_warnings():
            warnings.simplefilter("ignore")
            di = res.to_data_independent_dist(jitter_val=0.0)
            ok, info = _close(di.covariance_matrix, Kexp[..., grid.unsqueeze(-1), grid.unsqueeze(-2)], 1e-10, 1e-10)
            if not ok:
                ctx.fail(f"numeric:{what}-to_data_independent_dist:{lay}", f"{desc}: task blocks ({info})", rp)
            a = t - 1
            ok, info = _close(res[..., :, a].covariance_matrix, covs[..., a, :, :], 1e-10, 1e-10)
            ok2, info2 = _close(res[..., :, a].mean, means[..., a, :], 0, 0)
            if not (ok and ok2):
                ctx.fail(f"numeric:{what}-getitem-task:{lay}", f"{desc}: d[..., :, {a}] is not task {a} ({info}; mean {info2})", rp)
            i = n - 1
            ok, info = _close(res[..., i, :].covariance_matrix, torch.diag_embed(covs[..., :, i, i]), 1e-10, 1e-10)
            if not ok:
                ctx.fail(f"numeric:{what}-getitem-point:{lay}", f"{desc}: d[..., {i}, :] ({info})", rp)
    observed = {}
    sizes = ((3, 2), (2, 3)) if ctx.quick else ((3, 2), (2, 3), (4, 2), (2, 2), (1, 3), (3, 1))
    forms = ("lazy", "diag", "root", "dense")
    for (n, t) in sizes:
        # from_batch_mvn: the task dimension at every position of 1..3 (thorough: 4) batch dimensions, both signs of task_dim
        for bshape, pos in _batch_shapes_with_task(t, 3 if ctx.quick else 4):
            for task_dim in (pos, pos - len(bshape)):
                form = forms[(len(bshape) + pos + (task_dim < 0)) % len(forms)] if ctx.quick else None
                for form in ([form] if form else forms):
                    K, karg = task_cov(form, bshape, n)
                    if not _well_conditioned(ctx, K):
                        continue
                    m = torch.rand(*bshape, n, generator=gen, dtype=torch.float64)
                    desc = f"from_batch_mvn n={n} t={t} batch_shape={list(bshape)} task_dim={task_dim} cov={form}"
                    rp = {"ctor": "from_batch_mvn", "n": n, "t": t, "bshape": list(bshape), "task_dim": task_dim, "form": form}
                    try:
                        with warnings.catch_warnings():
                            warnings.simplefilter("ignore")
                            res = MultitaskMultivariateNormal.from_batch_mvn(MultivariateNormal(m, karg), task_dim=task_dim)
                    except Exception as e:
                        ctx.fail("numeric:from_batch_mvn:raises", f"{desc}: {type(e).__name__}: {str(e)[:150]}", rp)
                        continue
                    joint_check("from_batch_mvn", res, m.movedim(pos, -2), K.movedim(pos, -3), desc, rp)
                    _plan_case({"kind": "batch", "nb": len(bshape), "task_dim": task_dim, "m": m, "K": K, "res": res, "desc": desc})
                    if form == "lazy":
                        observed["fromBatchMvn"] = (type(res.lazy_covariance_matrix).__name__, res._interleaved)
        # from_independent_mvns: every storage form of the task covariances, all equal or mixed; batch shapes incl. broadcasting
        if t >= 2:
            mixes = [(f,) * t for f in forms] + [tuple(("diag", "lazy", "root", "dense")[k % 4] for k in range(t)),
                                                 tuple(("lazy", "diag")[k % 2] for k in range(t))]
            for fmix in mixes:
                for bshapes in (((),) * t, ((2,),) * t, ((2, 3),) * t, ((2,),) + ((),) * (t - 1), ((),) * (t - 1) + ((3, 1),)):
                    if ctx.quick and len(bshapes[0]) + len(bshapes[-1]) >= 2 and fmix[0] not in ("diag", "lazy"):
                        continue
                    parts = [task_cov(f, bs, n) for f, bs in zip(fmix, bshapes)]
                    if not all(_well_conditioned(ctx, kk) for kk, _ in parts):
                        continue
                    ms = [torch.rand(*bs, n, generator=gen, dtype=torch.float64) for bs in bshapes]
                    desc = f"from_independent_mvns n={n} t={t} batch_shapes={[list(b) for b in bshapes]} cov={'/'.join(fmix)}"
                    rp = {"ctor": "from_independent_mvns", "n": n, "t": t, "bshapes": [list(b) for b in bshapes], "forms": list(fmix)}
                    try:
                        with warnings.catch_warnings():
                            warnings.simplefilter("ignore")
                            res = MultitaskMultivariateNormal.from_independent_mvns(
                                [MultivariateNormal(mm, ka) for mm, (_, ka) in zip(ms, parts)])
                    except Exception as e:
                        ctx.fail("numeric:from_independent_mvns:raises", f"{desc}: {type(e).__name__}: {str(e)[:150]}", rp)
                        continue
                    full = torch.broadcast_shapes(*bshapes)
                    joint_check("from_independent_mvns", res, torch.stack([mm.expand(*full, n) for mm in ms], -2),
                                torch.stack([kk.expand(*full, n, n) for kk, _ in parts], -3), desc, rp)
                    _plan_case({"kind": "indep", "ms": [mm.expand(*full, n) for mm in ms],
                                "Ks": [kk.expand(*full, n, n) for kk, _ in parts], "res": res, "desc": desc})
                    if fmix == ("lazy",) * t:
                        observed["fromIndependentMvns"] = (type(res.lazy_covariance_matrix).__name__, res._interleaved)
        # from_repeated_mvn: num_tasks incl. 1, storage forms, batch shapes
        for bshape, form, nt in itertools.product(((), (2,), (2, 3)), forms, sorted({1, t, 3})):
            if ctx.quick and len(bshape) == 2 and form in ("root", "dense"):
                continue
            K, karg = task_cov(form, bshape, n)
            if not _well_conditioned(ctx, K):
                continue
            m = torch.rand(*bshape, n, generator=gen, dtype=torch.float64)
            desc = f"from_repeated_mvn n={n} num_tasks={nt} batch_shape={list(bshape)} cov={form}"
            rp = {"ctor": "from_repeated_mvn", "n": n, "t": nt, "bshape": list(bshape), "form": form}
            try:
                with warnings.catch_warnings():
                    warnings.simplefilter("ignore")
                    res = MultitaskMultivariateNormal.from_repeated_mvn(MultivariateNormal(m, karg), num_tasks=nt)
            except Exception as e:
                ctx.fail("numeric:from_repeated_mvn:raises", f"{desc}: {type(e).__name__}: {str(e)[:150]}", rp)
                continue
            joint_check("from_repeated_mvn", res, m.unsqueeze(-2).expand(*bshape, nt, n), K.unsqueeze(-3).expand(*bshape, nt, n, n),
                        desc, rp)
            _plan_case({"kind": "rep", "nt": nt, "bshape": list(bshape), "m": m, "K": K, "res": res, "desc": desc})
            if form == "lazy":
                observed["fromRepeatedMvn"] = (type(res.lazy_covariance_matrix).__name__, res._interleaved)
    _state["ctor_observed"] = observed
    try:
        MultitaskMultivariateNormal(torch.zeros(2, 3, dtype=torch.float64), torch.eye(6, dtype=torch.float64)).expand(torch.Size([2]))
        ctx.notes["observation_expand_on_tensor_covariance"] = "ok"
    except Exception as e:
        ctx.notes["observation_expand_on_tensor_covariance"] = f"raises {type(e).__name__}: {e}"
    # observation (outside the property's list of observables): arithmetic / add_jitter inherited from MultivariateNormal
    # rebuild the object with the default layout flag
    try:
        K, karg = _cov_form("lazy", gen, (), 6)
        dni = MultitaskMultivariateNormal(torch.rand(2, 3, generator=gen, dtype=torch.float64), karg, interleaved=False)
        ctx.notes["observation_inherited_ops_keep_layout"] = {
            "add_jitter": dni.add_jitter(1e-3)._interleaved is False, "mul": (dni * 2.0)._interleaved is False,
            "add": (dni + 1.0)._interleaved is False}
    except Exception as e:
        ctx.notes["observation_inherited_ops_keep_layout"] = f"{type(e).__name__}: {e}"


def run_data_independent_tags(ctx, want_driver=True):
    """to_data_independent_dist on tagged distributions: the selected positions are read back exactly and compared
    with the generated index grids."""
    import torch
    import warnings
    lines, want = [], []
    for n in range(1, 5):
        for t in range(1, 5):
            for inter in (True, False):
                for batch in ((), (2,)):
                    W = Tagged(n, t, inter, batch)
                    lay = "interleaved" if inter else "noninterleaved"
                    ctx.case(f"data-independent tags n={n} t={t} {lay} batch={list(batch)}")
                    try:
                        with warnings.catch_warnings():
                            warnings.simplefilter("ignore")
                            di = W.d.to_data_independent_dist(jitter_val=0.0)
                            di.covariance_matrix
                    except Exception as e:
                        ctx.fail(f"data_independent:{lay}", f"n={n} t={t} {lay} batch={list(batch)}: to_data_independent_dist "
                                 f"raises {type(e).__name__}: {str(e)[:120]}",
                                 {"n": n, "t": t, "inter": inter, "batch": list(batch), "what": "data_independent"})
                        continue
                    g = W.mean.round().long()              # (..., n, t) tags
                    b, p = g // W.N, g % W.N
                    E = W.covB[b.unsqueeze(-1), p.unsqueeze(-1), p.unsqueeze(-2)]
                    got = di.covariance_matrix
                    # rows / columns of a block may come out swapped (the code pairs task_indices.unsqueeze(-2) with
                    # the rows): immaterial for a symmetric covariance, so either orientation of the tags is accepted
                    okc = tuple(got.shape) == tuple(E.shape) and (bool((got == E).all()) or bool((got == E.transpose(-1, -2)).all()))
                    if not okc or not bool((di.mean == W.mean).all()):
                        ctx.fail(f"data_independent:{lay}", f"n={n} t={t} {lay} batch={list(batch)}: block (i,a,b) of "
                                 "to_data_independent_dist is not covariance[(i,a),(i,b)]",
                                 {"n": n, "t": t, "inter": inter, "batch": list(batch), "what": "data_independent"})
                    if batch == ():
                        lines.append(f"D {1 if inter else 0} {n} {t}")
                        data = [int(p[i, 0]) - int(p[0, 0]) for i in range(n)]
                        task = [int(p[0, a]) for a in range(t)]
                        # real grids are not observable; spec grids: data_i + task_a = flat(i,a) with task_0 = flat(0,0)=0
                        want.append((f"data={','.join(map(str, data))};task={','.join(map(str, task))}", n, t, inter, got, W))
    if not want_driver:
        return
    lines.append("C")
    try:
        replies = C.run_driver("C11", lines)
    except Exception as e:
        ctx.broke("driver", "C11 driver", str(e))
        return
    di_axes = dict(part.split("=", 1) for part in replies[-1].split(";")).get("di", "1,0").split(",")
    for (w, n, t, inter, got, W), rep in zip(want, replies):
        if rep != w:
            ctx.broke("correspondence", "model-mismatch:data_independent",
                      f"n={n} t={t} inter={inter}: generated grids {rep}, flat positions of the blocks {w}")
            continue
        # the generated grids + the generated unsqueeze axes, executed on the tags: entry (i, x, y) of the result
        try:
            gd = dict(part.split("=", 1) for part in rep.split(";"))
            data = torch.tensor([int(v) for v in gd["data"].split(",")]).view(-1, 1, 1)
            task = torch.tensor([int(v) for v in gd["task"].split(",")])
            ax = lambda which: task.view(1, 1, -1) if which == "1" else task.view(1, -1, 1)   # 1: follows y (last), 0: follows x
            pred = W.covB[0][data + ax(di_axes[0]), data + ax(di_axes[1])]
            ctx.count("data_independent_generated_entries_checked")
            if tuple(pred.shape) != tuple(got.shape) or not bool((pred == got).all()):
                ctx.broke("correspondence", "model-mismatch:data_independent-axes",
                          f"n={n} t={t} inter={inter}: covariance[data_i + task_(row axis), data_i + task_(col axis)] with the "
                          f"generated grids / axes {di_axes} is not the block the implementation returned")
        except Exception as e:
            ctx.broke("correspondence", "model-mismatch:data_independent-axes", f"n={n} t={t}: {type(e).__name__}: {e}")
    # constructors: the translated (block operator, layout flag) against the objects the real constructors built
    obs = _state.get("ctor_observed", {})
    names = {"interleavedBlocks": "BlockInterleavedLinearOperator", "diagBlocks": "BlockDiagLinearOperator"}
    for part in replies[-1].split(";"):
        k, v = part.split("=", 1)
        if k in obs:
            op, fl = v.split("/")
            if (names.get(op), fl == "1") != obs[k]:
                ctx.broke("correspondence", f"model-mismatch:{k}", f"translated {v}, the real constructor built {obs[k]}")
    ctx.notes["constructors_observed"] = {k: list(v) for k, v in obs.items()}
    run_plan_cases(ctx, replies[-1])


def run_views(ctx, want_driver=True):
    """The view / transpose / reshape sites (`__init__`, `mean`, `variance`, `rsample`, `log_prob`) on tagged inputs:
    exact positions, compared with the specification (entry (i,a) <-> flat(i,a)) and with the generated chains.
    The argument `log_prob` hands to the flat density is captured by wrapping `MultivariateNormal.log_prob`."""
    import torch
    import warnings
    from linear_operator.operators import DiagLinearOperator
    from gpytorch.distributions import MultitaskMultivariateNormal, MultivariateNormal
    lines, obs = [], []
    for n in range(1, 5):
        for t in range(1, 5):
            for inter in (True, False):
                N = n * t
                lay = "interleaved" if inter else "noninterleaved"
                pos = torch.tensor([[i * t + a if inter else a * n + i for a in range(t)] for i in range(n)])
                for batch in ((), (2,)):
                    B = 2 if batch else 1
                    ids = torch.arange(N, dtype=torch.float64).reshape(n, t)                 # row-major id of entry (i, a)
                    v = (ids + 100.0 * torch.arange(B, dtype=torch.float64).reshape(*batch, 1, 1)) if batch else ids.clone()
                    dvar = 1.0 + torch.arange(N, dtype=torch.float64).expand(*batch, N)
                    d = MultitaskMultivariateNormal(v, DiagLinearOperator(dvar.contiguous()), interleaved=inter)
                    rp = {"n": n, "t": t, "inter": inter, "batch": list(batch), "what": "views"}
                    desc = f"views n={n} t={t} {lay} batch={list(batch)}"
                    ctx.case(desc)

                    def bad(what, info, lay=lay, desc=desc, rp=rp):
                        ctx.fail(f"view:{what}:{lay}", f"{desc}: {info}", dict(rp, site=what))
                    try:
                        d.loc, d.mean, d.variance
                        with warnings.catch_warnings():
                            warnings.simplefilter("ignore")
                            d.rsample(base_samples=torch.zeros(*batch, n, t, dtype=torch.float64))
                            d.log_prob(v)
                    except Exception as e:
                        bad("raises", f"{type(e).__name__}: {str(e)[:150]}")
                        continue
                    # constructor: loc[flat(i,a)] = mean[i,a]
                    loc = d.loc
                    if not bool((loc[..., pos] == v).all()):
                        bad("ctor", f"stored flat mean {loc.tolist()} does not hold mean[i,a] at flat(i,a)")
                    if not bool((d.mean == v).all()):
                        bad("mean", f".mean is {d.mean.tolist()}, constructed with {v.tolist()}")
                    var = d.variance
                    if tuple(var.shape) != tuple(v.shape) or not bool((var == 1.0 + pos.to(torch.float64)).all()):
                        bad("variance", f".variance is {var.tolist()}, the diagonal entry of (i,a) is 1 + flat(i,a)")
                    with warnings.catch_warnings():
                        warnings.simplefilter("ignore")
                        s0 = d.rsample(base_samples=torch.zeros(*batch, n, t, dtype=torch.float64))
                    if tuple(s0.shape) != tuple(v.shape) or not bool((s0 == v).all()):
                        bad("rsample", f"rsample with zero base samples is {s0.tolist()}, the mean is {v.tolist()}")
                    # log_prob: capture what reaches the flat density
                    w = v + 1000.0
                    captured = []
                    orig = MultivariateNormal.log_prob

                    def cap(self, value, _c=captured, _o=orig):
                        _c.append(value.detach().clone())
                        return _o(self, value)
                    MultivariateNormal.log_prob = cap
                    try:
                        with warnings.catch_warnings():
                            warnings.simplefilter("ignore")
                            d.log_prob(w)
                    finally:
                        MultivariateNormal.log_prob = orig
                    if len(captured) != 1 or tuple(captured[0].shape) != (*batch, N):
                        bad("log_prob-arg", f"log_prob handed {[tuple(c.shape) for c in captured]} to the flat density")
                        continue
                    # rsample: capture the base samples that reach MultivariateNormal.rsample
                    bcap = []
                    orig_rs = MultivariateNormal.rsample

                    def cap_rs(self, sample_shape=torch.Size(), base_samples=None, _c=bcap, _o=orig_rs):
                        if base_samples is not None:
                            _c.append(base_samples.detach().clone())
                        return _o(self, sample_shape=sample_shape, base_samples=base_samples)
                    MultivariateNormal.rsample = cap_rs
                    try:
                        with warnings.catch_warnings():
                            warnings.simplefilter("ignore")
                            d.rsample(base_samples=v.clone())
                    finally:
                        MultivariateNormal.rsample = orig_rs
                    base_flat = bcap[0] if (len(bcap) == 1 and tuple(bcap[0].shape) == (*batch, N)) else None
                    if base_flat is None:
                        bad("rsample-base-arg", f"rsample handed {[tuple(c.shape) for c in bcap]} to the flat sampler")
                    y = captured[0]
                    if not bool((y[..., pos] == w).all()):
                        bad("log_prob-arg", f"log_prob evaluates the flat density at {(y - 1000).tolist()} (ids i*t+a of the value "
                            f"entries); position flat(i,a) must hold value[i,a], i.e. {(_flatten(w, inter) - 1000).tolist()}")
                    if not batch:
                        lines.append(f"V {1 if inter else 0} {n} {t}")
                        fl = lambda x: ",".join(str(int(k)) for k in x.reshape(-1).tolist())
                        # mean/variance/rsample views observed on a distribution whose flat vector is 0..N-1
                        locid = torch.arange(N, dtype=torch.float64)
                        m2 = locid.reshape(n, t) if inter else locid.reshape(t, n).transpose(-1, -2)
                        d2 = MultitaskMultivariateNormal(m2.contiguous(), DiagLinearOperator(locid + 1.0), interleaved=inter)
                        ok2 = bool((d2.loc == locid).all())
                        with warnings.catch_warnings():
                            warnings.simplefilter("ignore")
                            r2 = d2.rsample(base_samples=torch.zeros(n, t, dtype=torch.float64))
                        obs.append({"basearg": fl(base_flat) if base_flat is not None else None,
                                    "logprob": fl(y - 1000.0), "ctor": fl(loc), "mean": fl(d2.mean) if ok2 else None,
                                    "variance": fl(d2.variance - 1.0) if ok2 else None, "rsample": fl(r2) if ok2 else None,
                                    "desc": desc})
    if not want_driver:
        return
    try:
        replies = C.run_driver("C11", lines)
    except Exception as e:
        ctx.broke("driver", "C11 driver", str(e))
        return
    for o, rep in zip(obs, replies):
        got = dict(part.split("=", 1) for part in rep.split(";"))
        for k in ("logprob", "ctor", "mean", "variance", "rsample", "basearg"):
            if o[k] is not None and got.get(k) != o[k]:
                ctx.broke("correspondence", f"model-mismatch:view:{k}", f"{o['desc']}: generated chain gives {got.get(k)}, "
                          f"the implementation {o[k]}")
    ctx.count("view_lines", len(lines))


# ------------------------------------------------------------------------------------------ entry points

def correspondence(ctx, want_driver=True, deep=False):
    import torch
    torch.set_num_threads(2)
    run_reported(ctx)
    run_views(ctx, want_driver)
    run_numeric(ctx)
    run_data_independent_tags(ctx, want_driver)
    run_cells(ctx, want_driver, deep)
    if ctx.broken and not deep and not _unknown_failures(ctx):
        # run.py starts `search` only when there are no failures at all; failures matching a known finding must not
        # keep the failing-input search from running
        ctx.notes["deep_search_after_break"] = True
        _deep_search(ctx)
    kinds = {}
    for f in ctx.failures:
        kinds[f["key"]] = kinds.get(f["key"], 0) + 1
    if kinds:
        ctx.notes["failures_by_key"] = kinds


def _unknown_failures(ctx):
    import fnmatch
    known = C.known_findings(ID)
    return [f for f in ctx.failures if not any(fnmatch.fnmatch(f["key"], k["match"]) for k in known)]


def _deep_search(ctx):
    """Failing-input search: every oracle here is the hand-written specification (torch on plain tensors, dense joint),
    none depends on the translator output or on the Lean build; run at the thorough bounds."""
    tier, ctx.tier = ctx.tier, "thorough"
    # budget: the quick tier must stay quick also when a proof / the tie broke (the exhaustive product is 570 k cells)
    budget = float(os.environ.get("VERIF_C11_DEEP_BUDGET", "40" if tier == "quick" else "420"))
    t0 = time.time()
    try:
        if tier != "quick":
            run_numeric(ctx)
        if not _unknown_failures(ctx):
            _state["deadline"] = t0 + budget
            run_cells(ctx, want_driver=False, deep=True)
    finally:
        _state.pop("deadline", None)
        ctx.tier = tier
        ctx.notes["deep_search_wall_s"] = round(time.time() - t0, 1)


def search(ctx, broken):
    """A proof / the tie broke and the quick correspondence found no failing input: the specification oracle in
    `check_cell` does not depend on the model, so search = the same oracle on the exhaustive product."""
    if _unknown_failures(ctx) or ctx.notes.get("deep_search_after_break"):
        return
    _deep_search(ctx)


def replay(ctx, payload):
    """Re-run one recorded case on the real class; True when it no longer fails."""
    import torch
    torch.set_num_threads(2)
    case = payload["case"]
    n0 = len(ctx.failures)
    if case.get("numeric") or case.get("ctor") or case.get("what") in ("rsample", "data_independent", "views"):
        run_views(ctx, want_driver=False)
        run_numeric(ctx)
        run_data_independent_tags(ctx, want_driver=False)
        key = payload.get("key")
        return not any(f["key"] == key for f in ctx.failures[n0:])
    if "idx" not in case:
        W = Tagged(case["n"], case["t"], case["inter"], case.get("batch", []))
        return bool((W.d.mean == W.mean).all())
    W = Tagged(case["n"], case["t"], case["inter"], case["batch"], case.get("psd", False))
    eff = tuple(case["eff"]) if case.get("eff") else None
    check_cell(ctx, W, case["idx"], case["bare"], eff, "replay", [], [], bcomp=case.get("bcomp"))
    return len(ctx.failures) == n0

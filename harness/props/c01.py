"""C01 — exact GP posterior = closed-form Gaussian conditional on every computational path.

Tie: translator G7 (harness/translate/g7_exact_algebra.py regenerates lean/GPVerif/Gen/ExactAlgebra.lean from the Python
AST of DefaultPredictionStrategy / ExactGP.__call__ on every run; Props/C01.lean proves the generated expressions equal
the closed form; the driver executes them) AND correspondence.  For every random model the harness evaluates the model's OWN prior densely (joint mean /
covariance on [train; test] from `model.forward`), builds the noise covariance from the likelihood's public
parameters, ships everything as exact rationals to `lean/drivers/C01.lean` (which runs
GPVerif/Model/ExactGP.lean at ℚ — the functions the theorems of GPVerif/Props/C01.lean are about) and compares
the exact mean / covariance / noisy covariance / caches with what the real `model(x*)`, `likelihood(model(x*))`
and `prediction_strategy.{mean_cache,covar_cache}` return under every prediction-relevant settings cell.

Assume/guarantee (DESIGN §2.3): for every path that goes through a linear_operator primitive the downstream
gpytorch algebra is recomputed exactly from the primitive's *observed* output (mean_cache, covar_cache, the CG
solve) — that must agree to rounding; the primitive's own residual is recorded, and an end-to-end mismatch that
is explained by the residual is an ASSUMPTION line (linear_operator), not a violation.
"""
import concurrent.futures
import os
import warnings

from lib import common as C
from props import _gpmodels as G
from props import _c01ext as X

ID = "C01"
PROP_MODULES = ["GPVerif.Props.C01"]
BUILD_TARGETS = ["GPVerif.Props.C01", "GPVerif.Gen.ExactAlgebra", "GPVerif.Gen.ExactCall", "GPVerif.Model.ExactGP",
                 "GPVerif.Model.ExactCall", "GPVerif.Model.Proto"]
RULE = ("random ExactGP models cycling through 15 kernel families x 3 means x 3 single-task likelihoods x 4 batch "
        "patterns (+ Kronecker multitask models, kernel rank 0..t, likelihood rank 0..t), random float64 "
        "hyperparameters/data (n<=12, n*<=6, n*!=n, d<=3), each evaluated under settings cells of the grid "
        "lazily_evaluate_kernels x max_eager_kernel_size{0,512} x {Cholesky,CG} x fast_pred_var x detach_test_caches x "
        "skip_posterior_variances (quick: 10 random cells per model, thorough: all 64); one case = (model, batch "
        "element, cell); distinct = distinct (model description, cell); non-trivial = n>=2 and the cross-covariance "
        "K*x is not symmetric/square (n*!=n) and noise differs from 0.  Wave 3: + every kernel family with active_dims "
        "(random column subsets in random order; at the leaf / on or copied by a ScaleKernel / on both operands of a sum "
        "or product / nested / with ARD), including the kernels that evaluate to a structured LinearOperator (Linear, RFF, "
        "GridInterpolation, Scale over them; the kernel-specific prediction strategies on lazy cells); + data batches of "
        "10 shapes with size-1 dimensions (test batch same / none / tail / ones); per model scenarios on a FRESH build: "
        "three predictions on one object (2nd, 3rd judged; state_dict unchanged), copy histories (deepcopy / pickle of a "
        "model that has predicted, then the source is retrained / edited / load_state_dict'ed or the copy is edited / "
        "retrained; BOTH judged by their own closed form), the models returned by get_fantasy_model and "
        "get_fantasy_model∘get_fantasy_model judged by the closed form of their own data / likelihood under the cell they "
        "were built in and under a second cell; + the call structure: all reachable flag combinations of "
        "ExactGP.__call__ x {1-d, 2-d argument}, 13 batch-shape pairs of the train/test concatenation, 7 (n, s, t) of "
        "the multitask reshape, the detach state of the caches on every plain cell")
TRUSTED = ["translator harness/translate/g7_exact_call.py (Python AST of ExactGP.__call__ / DefaultPredictionStrategy -> "
           "lean/GPVerif/Gen/ExactCall.lean: branch selection, train/test concatenation with batch broadcasting, multitask "
           "reshape, what detach_test_caches detaches); executed by the driver and compared with the real code on every run",
           "translator harness/translate/g7_exact_algebra.py (Python AST of DefaultPredictionStrategy / ExactGP.__call__ -> "
           "matrix-expression IR -> lean/GPVerif/Gen/ExactAlgebra.lean); its output is executed by the driver and "
           "compared with the real code on every case",
           "torch / linear_operator primitives (Cholesky, CG, Lanczos, Kronecker eigendecomposition): contracts are "
           "hypotheses of the theorems, monitored by residual",
           "harness/props/_gpmodels.py: dense evaluation of the model's own prior (model.forward on [train; test]) and "
           "the documented noise covariance built from the likelihood's public parameters",
           "float64 <-> exact comparison with the a-posteriori tolerance max(64 n kappa 2^-52, 1e-9) * scale + 1e-12"]
ASSUMPTIONS = ["solve / cholesky / root_inv_decomposition of linear_operator satisfy their contracts up to the recorded "
               "residuals (hypotheses hR, h of predCovarRoot_eq_conditional / predMean_of_solve_contract)",
               "float64 only; kappa(Kxx+S) <= 1e6 (worse-conditioned draws are discarded and counted)"]
EXHAUSTIVE = False

EPS = 2.0 ** -52
_CS = {"mt": {}, "det": None}      # generated call-structure facts of this run (filled by correspondence)


GEN = os.path.join(C.LEAN_DIR, "GPVerif", "Gen", "ExactAlgebra.lean")
GEN_CALL = os.path.join(C.LEAN_DIR, "GPVerif", "Gen", "ExactCall.lean")


def generate(ctx):
    """Translator G7: regenerate Gen/ExactAlgebra.lean from $VERIF_REPO's working tree (raises on constructs outside
    its vocabulary) and make sure the generated module itself builds, so that the driver can execute it even when
    the corollaries about it no longer do."""
    import sys
    sys.path.insert(0, os.path.join(C.VERIF, "harness"))
    from translate import g7_exact_algebra as g7
    r = g7.generate(C.REPO, GEN)
    ctx.notes["gen_changed"] = r["changed"]
    ctx.notes["gen_summary"] = r["summary"]
    ctx.notes["gen_call_facts"] = r["facts"]
    if r["casts"]:
        ctx.notes["gen_shape_mismatches"] = r["casts"]
    from translate import g7_exact_call as g7c
    r2 = g7c.generate(C.REPO, GEN_CALL)
    ctx.notes["gen_call_changed"] = r2["changed"]
    ctx.notes["gen_call_detach"] = r2["detach"]
    ok, log = C.lake_build(["GPVerif.Gen.ExactAlgebra", "GPVerif.Gen.ExactCall"])
    if not ok:
        raise RuntimeError("generated GPVerif/Gen/ExactAlgebra.lean / ExactCall.lean does not type-check:\n" + log[-1500:])


# ------------------------------------------------------------------ helpers

def _np(t):
    # always a private copy: dense pieces may be views of parameter storage (e.g. ConstantMean under no_grad)
    return t.detach().cpu().numpy().copy()


def _absmax(a):
    import numpy as np
    a = np.asarray(a, dtype=float)
    return float(np.max(np.abs(a))) if a.size else 0.0


def _norm_inf(a):
    import numpy as np
    a = np.asarray(a, dtype=float)
    return float(np.max(np.sum(np.abs(a), axis=-1))) if a.size else 0.0


def _lines_parallel(name, lines, workers=4):
    """Run the driver on de-duplicated request lines, split over a few processes."""
    uniq = list(dict.fromkeys(lines))
    if not uniq:
        return {}
    workers = max(1, min(workers, len(uniq) // 8 + 1))
    # balance by length
    order = sorted(range(len(uniq)), key=lambda i: -len(uniq[i]))
    chunks = [[] for _ in range(workers)]
    for r, i in enumerate(order):
        chunks[r % workers].append(uniq[i])
    out = {}
    with concurrent.futures.ThreadPoolExecutor(max_workers=workers) as ex:
        for chunk, res in zip(chunks, ex.map(lambda ch: C.run_driver(name, ch), chunks)):
            out.update(dict(zip(chunk, res)))
    return out


def _parse_reply(rep):
    """'ok m1 | m2 | …' -> list of numpy float arrays (or None when not ok)."""
    import numpy as np
    if not rep.startswith("ok "):
        return None
    mats = []
    for part in rep[3:].split(" | "):
        if part.strip() == "nogen":
            mats += [None, None]
            continue
        rows, _ = C.parse_mat(part.split())
        mats.append(np.array(C.fmat_to_float(rows), dtype=float))
    return mats


def _c12_calltime_noise_defect():
    """FixedNoise + learn_additional_noise with call-time `noise=`: the documented covariance is diag(ν)+σ₂²I.
    (Defect owned by C12; when present the corresponding C01 sub-observable is skipped and reported.)"""
    import torch
    import gpytorch
    lik = gpytorch.likelihoods.FixedNoiseGaussianLikelihood(noise=torch.tensor([0.1, 0.2], dtype=torch.float64),
                                                             learn_additional_noise=True).double()
    lik.second_noise = 0.3
    nu = torch.tensor([0.5, 0.7, 0.9], dtype=torch.float64)
    with warnings.catch_warnings():
        warnings.simplefilter("ignore")
        got = lik._shaped_noise_covar(torch.Size([3]), noise=nu).to_dense().detach()
    want = torch.diag(nu) + lik.second_noise_covar.noise.detach().reshape(-1)[0] * torch.eye(3, dtype=torch.float64)
    return bool((got - want).abs().max() > 1e-6)


# ------------------------------------------------------------------ case generation

def _plan(ctx, n_single, n_multi, n_ext=0, n_nd=0):
    """Deterministic plan of (kind, index) with cyclic coverage of the single-output families."""
    prng = ctx.rng("plan")
    ks, ms, ls, bs = list(G.KERNEL_KINDS), list(G.MEAN_KINDS), list(G.LIK_KINDS), list(G.BATCH_KINDS)
    for l in (ks, ms, ls, bs):
        prng.shuffle(l)
    plan = []
    for i in range(n_single):
        plan.append(("single", i, dict(kernel_kind=ks[i % len(ks)], mean_kind=ms[(i + i // 15) % len(ms)],
                                        lik_kind=ls[(i + i // 3) % len(ls)], batch_kind=bs[(i + i // 12) % len(bs)])))
    for i in range(n_multi):
        plan.append(("multi", i, {}))
    # wave 3: every kernel family with active_dims (all positions, nested, structured LinearOperator results); the
    # structured ones in every run, the others cycled; index offset 1000 keeps the rng labels apart
    ext = list(X.EXT_KERNEL_KINDS)
    prng.shuffle(ext)
    ext = list(X.EXT_ALWAYS) + [k for k in ext if k not in X.EXT_ALWAYS]
    for i in range(n_ext):
        plan.append(("single", 1000 + i, dict(kernel_kind=ext[i % len(ext)], mean_kind=ms[(i + i // 5) % len(ms)],
                                               lik_kind=ls[(i + i // 3) % len(ls)], batch_kind=bs[(i + i // 7) % len(bs)])))
    # data batches of any shape with size-1 dimensions (leading / interior / trailing), unbatched modules; offset 2000
    nd = list(X.ND_BATCH_SHAPES)
    prng.shuffle(nd)
    nd = [(2, 1, 1), (3, 1, 2)] + [k for k in nd if k not in ((2, 1, 1), (3, 1, 2))]
    for i in range(n_nd):
        plan.append(("single", 2000 + i, dict(kernel_kind=(ks + ["sum[ad]", "linear[ad]"])[(i * 5) % (len(ks) + 2)],
                                               mean_kind=ms[i % len(ms)], lik_kind=ls[(i + i // 3) % len(ls)],
                                               bshape=list(nd[i % len(nd)]))))
    return plan


def build_case(ctx, kind, idx, kw, thorough=False):
    """(model, lik, train_x, train_y, desc, test_x, test_noise) — a function of (VERIF_SEED, kind, idx) only."""
    import torch
    rng = ctx.rng(f"case:{kind}:{idx}")
    with warnings.catch_warnings():
        warnings.simplefilter("ignore")
        if kind == "single":
            n_max = 12 if not thorough else 16
            if X.is_ext(kw.get("kernel_kind")) or kw.get("bshape") is not None:
                model, lik, tx, ty, desc = X.build_exact_gp_ext(rng, n_max=n_max, **kw)
            else:
                model, lik, tx, ty, desc = G.build_exact_gp(rng, n_max=n_max, **kw)
            mode = ("random", "same-n", "random", "train-inputs", "random", "same-n", "random", "train-inputs-alias")[idx % 8]
            if desc["batch"] == "data-nd":
                mode = ("random-nd", "same-n-nd", "train-inputs")[idx % 3]
        else:
            model, lik, tx, ty, desc = G.build_multitask_gp(rng, n_max=5 if not thorough else 6)
            mode = ("random", "same-n", "random")[idx % 3]
        # n* != n (rectangular cross-covariance) / n* == n with x* != x / x* == the training inputs
        if mode in ("random-nd", "same-n-nd"):
            # data batch of any shape (size-1 dimensions included); the test inputs carry a batch shape that broadcasts
            tb = X.nd_test_batch(rng, tuple(desc["bshape"]))
            s_nd = desc["n"] if mode == "same-n-nd" else rng.choice([k for k in range(1, 5) if k != desc["n"]])
            test_x = G._rand_tensor(rng, (*tb, s_nd, desc["d"]), -1.5, 1.5)
            desc["test_batch"] = list(tb)
        elif mode == "random":
            test_x = G.random_test_x(rng, desc, s_max=6 if kind == "single" else 3)
        elif mode == "same-n":
            test_x = G.random_test_x(rng, desc, s=desc["n"])
        elif mode == "train-inputs-alias" and desc["batch"] != "broadcast":
            test_x = tx                 # the very same tensor object as the training inputs (x2 is x1)
        else:
            test_x = tx.clone() if desc["batch"] != "broadcast" else tx.expand(desc["b"], *tx.shape).clone()
        if kind == "single" and desc["batch"] == "broadcast" and mode == "random" and idx % 3 == 0:
            # three batch dimensions on the test side only (train inputs unbatched)
            test_x = G._rand_tensor(rng, (2, 1, 2, test_x.shape[-2], desc["d"]), -1.5, 1.5)
            mode = "random-3-batch-dims"
    desc["xstar"] = mode
    s = test_x.shape[-2]
    desc["s"] = s
    test_noise = None
    if desc["lik"].startswith("fixed"):
        bshape = test_x.shape[:-2] if desc["batch"] in ("data", "broadcast") else ()
        if desc["batch"] == "data-nd":
            import torch
            bshape = tuple(torch.broadcast_shapes(tuple(desc["bshape"]), tuple(test_x.shape[:-2])))
        test_noise = G._rand_tensor(rng, (*bshape, s), 0.05, 0.6)
        if idx % 5 == 4:
            test_noise = test_noise * 0.0      # legal: call-time noise exactly 0.0 (truthiness bugs hide here)
            desc["call_noise"] = "zeros"
    return model, lik, tx, ty, desc, test_x, test_noise


def dense_pieces(model, lik, tx, ty, desc, test_x, test_noise):
    """Per batch element: exact-input pieces (numpy float64) J, mj, S, y, St (+ shapes)."""
    import torch
    n, s, t = desc["n"], desc["s"], desc["tasks"]
    N, Sx = n * t, s * t
    mj, J, B = G.dense_prior(model, tx, test_x)
    Strain = G.spec_noise(lik, desc, n, train=True)
    Stest = G.spec_noise(lik, desc, s, call_noise=test_noise, train=False)
    # documented behaviour without `noise=`: FixedNoise adds its stored noise only when the number of points matches the
    # training set, otherwise nothing ("treated as a no-op"); the learned additional noise is added in every case
    Stest0 = G.spec_noise(lik, desc, s, call_noise=None, train=(s == n))
    if Stest0 is None:
        Stest0 = torch.zeros(Sx, Sx, dtype=torch.float64)
    yflat = ty.reshape(*ty.shape[:ty.dim() - (2 if t > 1 else 1)], N)
    try:
        dK = G.kernel_eval_delta(model, tx, test_x, J, N)
    except Exception:
        dK = torch.zeros(J.shape[:-2], dtype=torch.float64)
    B = torch.broadcast_shapes(B, Strain.shape[:-2], yflat.shape[:-1],
                               Stest.shape[:-2] if Stest is not None else (), Stest0.shape[:-2])
    nb = 1
    for k in B:
        nb *= k
    ex = lambda a, tail: a.expand(*B, *a.shape[-tail:]).reshape(nb, *a.shape[-tail:])
    out = {"B": tuple(B), "nb": nb, "N": N, "S": Sx,
           "J": _np(ex(J, 2)), "mj": _np(ex(mj, 1)), "Strain": _np(ex(Strain, 2)), "y": _np(ex(yflat, 1)),
           "Stest": _np(ex(Stest, 2)) if Stest is not None else None, "Stest0": _np(ex(Stest0, 2)),
           "dK": _np(dK.expand(*B).reshape(nb)) if B else _np(dK.reshape(1))}
    return out


def cfg_code(cell, P):
    """Branch configuration of the generated code for one settings cell (bit mask understood by drivers/C01.lean):
    1 fast, 2 skip, 4 detach, 8 eager (joint size <= max_eager_kernel_size), 16 test_test_covar.dim() == 2."""
    eager = (P["N"] + P["S"]) <= cell["eager"]
    return (1 if cell["fast"] else 0) + (2 if cell["skip"] else 0) + (4 if cell["detach"] else 0) + \
        (8 if eager else 0) + (16 if tuple(P["B"]) == () else 0)


def gen_codes(cells, P, limit):
    """Distinct configurations (up to `limit`) whose generated value needs no cached root: non-fast or skip."""
    codes = []
    for c in cells:
        k = cfg_code(c, P)
        if (not c["fast"] or c["skip"]) and k not in codes:
            codes.append(k)
    # prefer covering different leaves: sort by (skip, eager, dim2) signature diversity
    seen, out = set(), []
    for k in codes:
        sig = k & (2 | 8 | 16)
        if sig not in seen:
            seen.add(sig)
            out.append(k)
    for k in codes:
        if k not in out:
            out.append(k)
    return out[:limit]


def post_line(P, b, codes=()):
    import numpy as np
    N, Sx = P["N"], P["S"]
    St = P["Stest"][b] if P["Stest"] is not None else np.zeros((Sx, Sx))
    return " ".join(["post", str(N), str(Sx), C.mat_tokens(P["J"][b]), C.vec_tokens(P["mj"][b]),
                     C.mat_tokens(P["Strain"][b]), C.vec_tokens(P["y"][b]), C.mat_tokens(St),
                     str(len(codes))] + [str(k) for k in codes])


# ------------------------------------------------------------------ real side

def run_cell(model, lik, desc, test_x, test_noise, cell, P, skip_noisy=False, reset=True):
    """Run the real code under one settings cell; returns observed arrays flattened over the batch."""
    import torch
    if reset:
        G.reset_caches(model)
    N, Sx, nb = P["N"], P["S"], P["nb"]
    obs = {}
    want_solve = cell["cg"] and not cell["fast"] and not cell["skip"]
    log = []
    with warnings.catch_warnings(), G.enter_cell(cell):
        warnings.simplefilter("ignore")
        if want_solve:
            with G.observe_solves(log):
                p = model(test_x)
        else:
            p = model(test_x)
        mean = p.mean
        cov = p.covariance_matrix
        var = p.variance
        obs["out_batch"] = tuple(p.batch_shape)
        try:
            import gpytorch
            obs["min_var"] = float(gpytorch.settings.min_variance.value(var.dtype))
        except Exception:
            obs["min_var"] = None
        fl = lambda a, tail: _np(a.detach().reshape(*a.shape[:a.dim() - tail], -1) if tail == 0 else a.detach())
        B = P["B"]

        def bexp(a, tail):
            a = a.detach()
            return _np(a.expand(*B, *a.shape[a.dim() - tail:]).reshape(nb, *a.shape[a.dim() - tail:]))
        t = desc["tasks"]
        mean_f = mean.reshape(*mean.shape[:mean.dim() - (2 if t > 1 else 1)], Sx)
        var_f = var.reshape(*var.shape[:var.dim() - (2 if t > 1 else 1)], Sx)
        obs["mean"] = bexp(mean_f, 1)
        if t > 1:
            obs["mean2d"] = bexp(mean, 2)           # (point, task) table as returned
        obs["cov"] = bexp(cov, 2)
        obs["var"] = bexp(var_f, 1)
        if not skip_noisy:
            pl = lik(p, noise=test_noise) if test_noise is not None else lik(p)
            obs["ncov"] = bexp(pl.covariance_matrix, 2)
            nm = pl.mean
            obs["nmean"] = bexp(nm.reshape(*nm.shape[:nm.dim() - (2 if t > 1 else 1)], Sx), 1)
            # the other public entry points / argument forms: (name, covariance, expects call-time noise?)
            ent = []
            kwn = {"noise": test_noise} if test_noise is not None else {}

            def entry(name, fn, with_noise):
                try:
                    ent.append((name, bexp(fn().covariance_matrix, 2), with_noise))
                except Exception as e:      # one entry point raising must not hide the others
                    ent.append((name, f"{type(e).__name__}: {str(e)[:160]}", with_noise))
            entry("marginal(noise=)" if kwn else "marginal()", lambda: lik.marginal(p, **kwn), bool(kwn))
            entry("call(x*, noise=)" if kwn else "call(x*)", lambda: lik(p, test_x, **kwn), bool(kwn))
            # (FixedNoise without learned noise, no `noise=`, n* != n is the documented warning + no-op; combined with
            #  skip_posterior_variances the sum of two ZeroLinearOperators loses its shape and `.covariance_matrix`
            #  raises a TypeError inside linear_operator — a degenerate corner that is left out, see docs/C01.md)
            degenerate = cell["skip"] and desc["lik"] == "fixed" and Sx != N
            if kwn and not degenerate:
                entry("call()", lambda: lik(p), False)
                entry("call(x*)", lambda: lik(p, test_x), False)
                entry("marginal()", lambda: lik.marginal(p), False)
            obs["entries"] = ent
        ps = model.prediction_strategy
        # the caches of the kernel-specific strategies (RFF, KISS-GP) have another meaning (C09's subject)
        default_strategy = type(ps).__name__ == "DefaultPredictionStrategy"
        obs["strategy"] = type(ps).__name__
        mc = ps.mean_cache if default_strategy else None
        try:
            obs["mean_cache"] = None if mc is None else bexp(mc.reshape(*mc.shape[:-1], N) if mc.shape[-1] == N else mc, 1)
        except RuntimeError:
            obs["mean_cache"] = None
        if mc is not None:
            obs["mc_grad"] = bool(mc.requires_grad)
        if cell["fast"] and not cell["skip"] and default_strategy:
            cc = ps.covar_cache
            try:
                obs["covar_cache"] = bexp(cc, 2)
            except RuntimeError:
                obs["covar_cache"] = None
            obs["cc_grad"] = bool(cc.requires_grad)
        if want_solve:
            # the last finished solve with an (N x S) right-hand side is the one exact_predictive_covar consumed
            # (DefaultPredictionStrategy; the kernel-specific strategies compute the covariance differently)
            obs["cg_solve"] = None
            for rt, lt, res in (reversed(log) if default_strategy else ()):
                if lt is None and torch.is_tensor(rt) and rt.dim() >= 2 and tuple(rt.shape[-2:]) == (N, Sx):
                    try:
                        obs["cg_solve"] = bexp(res, 2)
                    except RuntimeError:
                        pass
                    break
    return obs


# ------------------------------------------------------------------ data / parameter updates on one model object

OPS = ("targets", "inputs+targets", "resize", "hypers", "load_state_dict", "load_state_dict_partial",
       "other-test-points", "switch-cell")


def apply_history(ctx, model, lik, tx, ty, desc, test_x, cell, op, kind, idx):
    """predict (under `cell`) -> update -> (the caller predicts again WITHOUT resetting anything).
    Returns the current (train_x, train_y, desc) after the update.
      targets         set_train_data(targets=new_y)                      (same inputs, same shape)
      inputs+targets  set_train_data(new_x, new_y)                       (same n)
      resize          set_train_data(new_x, new_y, strict=False), n' != n (FixedNoise: noise vector replaced too)
      hypers          train(); every raw parameter moved (as an optimizer step would); eval()
      load_state_dict          model.load_state_dict(state dict with every parameter moved) in eval mode, no train()
      load_state_dict_partial  model.load_state_dict({kernel parameters only}, strict=False) in eval mode
      other-test-points        the first prediction is made at DIFFERENT test inputs (other n*), data/parameters unchanged
      switch-cell              the first prediction is made under a DIFFERENT settings cell (same solver), nothing reset
    """
    import torch
    rng = ctx.rng(f"hist:{kind}:{idx}:{op}")
    G.reset_caches(model)
    first_x, first_cell = test_x, cell
    if op == "other-test-points":
        s0 = test_x.shape[-2] + (1 if rng.random() < 0.5 or test_x.shape[-2] == 1 else -1)
        if desc["batch"] == "model" and s0 == desc["b"]:
            s0 += 1
        first_x = G._rand_tensor(rng, (*test_x.shape[:-2], s0, test_x.shape[-1]), -1.5, 1.5)
    if op == "switch-cell":
        first_cell = dict(rng.choice([c for c in G.all_cells() if c["cg"] == cell["cg"] and c != cell]))
    with warnings.catch_warnings(), G.enter_cell(first_cell):
        warnings.simplefilter("ignore")
        p = model(first_x)
        p.mean, p.covariance_matrix, p.variance  # fill every cache the cell uses
        if first_cell["fast"] and not first_cell["skip"]:
            model.prediction_strategy.covar_cache
    desc = dict(desc)
    n, t = desc["n"], desc["tasks"]
    if op == "targets":
        ty = G._rand_tensor(rng, tuple(ty.shape), -1.5, 1.5)
        model.set_train_data(targets=ty)
    elif op == "inputs+targets":
        tx = G._rand_tensor(rng, tuple(tx.shape), -1.5, 1.5)
        ty = G._rand_tensor(rng, tuple(ty.shape), -1.5, 1.5)
        model.set_train_data(tx, ty)
    elif op == "resize":
        cands = [k for k in (n + 1, n - 1, n + 2) if k >= 1 and not (desc["batch"] == "model" and k == desc["b"])]
        n2 = rng.choice(cands[:2])
        xs, ys = list(tx.shape), list(ty.shape)
        xs[-2] = n2
        ys[-2 if t > 1 else -1] = n2
        tx = G._rand_tensor(rng, tuple(xs), -1.5, 1.5)
        ty = G._rand_tensor(rng, tuple(ys), -1.5, 1.5)
        if desc["lik"].startswith("fixed"):
            old = lik.noise_covar.noise
            lik.noise_covar.noise = G._rand_tensor(rng, (*old.shape[:-1], n2), 0.05, 0.6)
        model.set_train_data(tx, ty, strict=False)
        desc["n"] = n2
    elif op == "hypers":
        model.train()
        lik.train()
        with torch.no_grad():
            for prm in model.parameters():
                prm.add_(G._rand_tensor(rng, tuple(prm.shape), -0.3, 0.3))
        model.eval()
        lik.eval()
    elif op in ("load_state_dict", "load_state_dict_partial"):
        names = [k for k, _ in model.named_parameters()]
        if op == "load_state_dict_partial":
            names = [k for k in names if k.startswith("covar_module")]
        sd = model.state_dict()
        moved = {k: sd[k].detach().clone() + G._rand_tensor(rng, tuple(sd[k].shape), -0.3, 0.3) for k in names}
        if op == "load_state_dict":
            full = {k: v.detach().clone() for k, v in sd.items()}
            full.update(moved)
            model.load_state_dict(full)                       # eval mode, no .train() in between
        else:
            model.load_state_dict(moved, strict=False)
    elif op in ("other-test-points", "switch-cell"):
        pass
    else:
        raise ValueError(op)
    return tx, ty, desc


# ------------------------------------------------------------------ scenarios on a FRESH build of the case (wave 3)

def scenario_runs(ctx, kind, idx, kw, sc, thorough=False):
    """Run one scenario on a fresh build of case (kind, idx, kw) — a function of (VERIF_SEED, kind, idx, kw, sc) only,
    so `replay` re-creates it exactly.  Returns a list of dicts: judged predictions {label, desc, P, cell, obs} and state
    checks {label: 'state', changed: [...]}.
      repeat   three predictions on one object under sc.cell, nothing reset (2nd, 3rd call judged), state_dict unchanged
      copy     X.copy_history(sc.op): the copy and (where its invalidation points were respected) the source are judged
               by the closed form of THEIR OWN parameters, under sc.cell and then under sc.cell2 (nothing reset)
      fantasy  the model returned by get_fantasy_model, then by get_fantasy_model of that model, judged by the closed
               form of ITS OWN train data / prior / likelihood under sc.cell (the cell it was built in) and sc.cell2
    """
    model, lik, tx, ty, desc, test_x, test_noise = build_case(ctx, kind, idx, kw, thorough)
    skip_noisy = desc["lik"] == "fixed+learned" and _c12_calltime_noise_defect()
    typ, cell = sc["type"], sc["cell"]
    out = []

    def judge(label, obj, d, c, reset=False):
        otx, oty = obj.train_inputs[0], obj.train_targets
        P = dense_pieces(obj, obj.likelihood, otx, oty, d, test_x, test_noise)
        obs = run_cell(obj, obj.likelihood, d, test_x, test_noise, c, P, skip_noisy, reset=reset)
        out.append({"label": label, "desc": d, "P": P, "cell": c, "obs": obs})

    if typ == "repeat":
        dense_pieces(model, lik, tx, ty, desc, test_x, test_noise)      # lazily initialised buffers exist from here on
        snap = X.snapshot(model)
        judge("call-1", model, desc, cell, reset=True)
        for lab in X.REPEAT_LABELS:
            judge(lab, model, desc, cell)
        out.append({"label": "state", "changed": X.changed(model, snap), "cell": cell, "desc": desc})
    elif typ == "cells-state":
        dense_pieces(model, lik, tx, ty, desc, test_x, test_noise)
        snap = X.snapshot(model)
        P = dense_pieces(model, lik, tx, ty, desc, test_x, test_noise)
        for c in sc["cells"]:
            run_cell(model, lik, desc, test_x, test_noise, c, P, skip_noisy)
        out.append({"label": "state", "changed": X.changed(model, snap), "cell": cell, "desc": desc})
    elif typ == "copy":
        rng = ctx.rng(f"copy:{kind}:{idx}:{sc['op']}")
        for who, obj, judged in X.copy_history(rng, model, desc, test_x, cell, sc["op"]):
            if judged:
                judge(f"{sc['op']}|{who}", obj, desc, cell)
                if sc.get("cell2"):
                    judge(f"{sc['op']}|{who}@other-cell", obj, desc, sc["cell2"])
    elif typ == "fantasy":
        rng = ctx.rng(f"fantasy:{kind}:{idx}:{G.cell_name(cell)}")
        G.reset_caches(model)
        X._touch(model, test_x, cell)
        if type(model.prediction_strategy).__name__ != "DefaultPredictionStrategy":
            raise X.Rejected("fantasy: kernel-specific prediction strategy " + type(model.prediction_strategy).__name__)
        try:
            fm, d1 = X.fantasy_model(rng, model, desc, test_x, cell, 1)
        except Exception as e:
            raise X.Rejected(f"get_fantasy_model raised {type(e).__name__}: {str(e)[:120]}")
        judge("fantasy", fm, d1, cell)
        if sc.get("cell2"):
            judge("fantasy@other-cell", fm, d1, sc["cell2"])
        try:
            if type(fm.prediction_strategy).__name__ != "DefaultPredictionStrategy":
                # evaluated under a lazy cell the fantasy model of a KISS-GP / RFF kernel rebuilt its strategy as the
                # kernel-specific one; fantasies through those (WISKI) are C04's / C09's subject
                raise X.Rejected("kernel-specific strategy " + type(fm.prediction_strategy).__name__)
            fm2, d2 = X.fantasy_model(rng, fm, d1, test_x, cell, 2)
        except Exception as e:
            ctx.count("rejected_fantasy2:" + type(e).__name__)
            if len(ctx.notes.setdefault("rejected_scenarios", [])) < 12:
                ctx.notes["rejected_scenarios"].append(f"{kind}{idx} {desc['kernel']} lik={desc['lik']} batch={desc['batch']} "
                                                       f"fantasy>fantasy {G.cell_name(cell)}: {type(e).__name__}: {str(e)[:160]}")
            fm2 = None
        if fm2 is not None:
            judge("fantasy>fantasy", fm2, d2, cell)
        if sc.get("source"):
            judge("fantasy|source-afterwards", model, desc, cell)
    else:
        raise ValueError(typ)
    return out


# ------------------------------------------------------------------ call structure: Gen/ExactCall.lean vs the real ExactGP.__call__

MODE_BITS = {"training": 1, "hasInputs": 2, "hasTargets": 4, "debug": 8, "priorMode": 16, "inputsEqual": 32, "outputIsMVN": 64}
MODE_NAMES = ("raiseNoTrainInputs", "raiseMustTrainOnTrainInputs", "raiseNotMVN", "priorAtInputs", "priorAtArgs",
              "posterior", "posterior+GPInputWarning")


def observe_mode(flags, one_d):
    """Run the real ExactGP.__call__ under one flag combination; returns (observed outcome code, detail)."""
    import torch
    import gpytorch
    from gpytorch.utils.warnings import GPInputWarning
    n, s = 5, 3
    tx = torch.linspace(-1.0, 1.0, n, dtype=torch.float64)
    ty = torch.sin(2 * tx)
    xs = torch.linspace(-0.8, 0.9, s, dtype=torch.float64)
    if not one_d:
        tx, xs = tx.unsqueeze(-1), xs.unsqueeze(-1)
    model, lik = X.recording_gp(tx if flags["hasInputs"] else None, ty if flags["hasInputs"] else None,
                                nonmvn=not flags["outputIsMVN"])
    if flags["hasInputs"] and not flags["hasTargets"]:
        model.train_targets = None
    arg = (model.train_inputs[0] if not one_d else tx) if (flags["inputsEqual"] and flags["hasInputs"]) else xs
    model.train(flags["training"])
    lik.train(flags["training"])
    with warnings.catch_warnings(record=True) as rec, gpytorch.settings.debug(flags["debug"]), \
            gpytorch.settings.prior_mode(flags["priorMode"]):
        warnings.simplefilter("always")
        try:
            out = model(arg)
        except RuntimeError as e:
            msg = str(e)
            for code, key in enumerate(("train_inputs cannot be None in training mode", "You must train on the training inputs",
                                        "must return a MultivariateNormal")):
                if key in msg:
                    return code, msg[:80]
            return -1, "RuntimeError: " + msg[:120]
        except Exception as e:
            return -1, f"{type(e).__name__}: {str(e)[:120]}"
        warned = any(issubclass(w.category, GPInputWarning) for w in rec)
    seen = list(model.seen)
    if len(seen) == 1:
        # one call of the prior: on which tensor?  For a 1-d argument `inputs` is the unsqueezed tensor (code 3) and
        # `args` the argument itself (code 4); for a 2-d argument they are the same object (code 34 = either)
        got = seen[0]
        code = (4 if got.dim() == 1 else 3) if one_d else 34
        if flags["outputIsMVN"]:
            ref = model.forward(got)
            err = max(float((out.mean - ref.mean).detach().abs().max()),
                      float((out.covariance_matrix - ref.covariance_matrix).detach().abs().max()))
            if err > 1e-12 or got.shape[0] != arg.shape[0]:
                return -1, f"returned distribution differs from the prior at the call inputs by {err:.2e}"
        return code, f"prior on a tensor of shape {tuple(got.shape)}"
    if len(seen) == 2 and seen[0].shape[-2] == n and seen[1].shape[-2] == n + arg.shape[0]:
        return (6 if warned else 5), "posterior (prior on the train inputs, then on [train; test])"
    return -1, f"{len(seen)} prior calls on shapes {[tuple(t.shape) for t in seen]}"


def call_structure(ctx):
    """The regenerated call structure (Gen/ExactCall.lean, executed by the driver) against the real code:
    (a) branch selection of ExactGP.__call__ for every reachable flag combination (x 1-d / 2-d arguments);
    (b) the joint inputs `[train; test]` under batch broadcasting, read off the tensor the prior is called with;
    (c) the multitask index maps against torch's view / reshape on arange tensors;
    returns {"det": generated detach facts, "mt": {(n, s, t): table}} for the per-case comparisons."""
    import torch
    rng = ctx.rng("call-structure")
    lines, jobs = [], []
    # ---- (a)
    combos = []
    for k in range(128):
        fl = {name: bool(k & bit) for name, bit in MODE_BITS.items()}
        if not fl["hasInputs"] and fl["inputsEqual"]:
            continue                                    # nothing to be equal to
        if not fl["outputIsMVN"] and not fl["debug"] and not fl["training"]:
            continue                                    # a non-MVN prior is only diagnosed under settings.debug
        if not fl["hasInputs"] and fl["hasTargets"]:
            continue                                    # ExactGP stores both or none
        if not fl["outputIsMVN"] and not fl["training"] and not fl["priorMode"] and fl["hasInputs"] and fl["hasTargets"]:
            continue      # posterior branch with a non-MVN prior: building the strategy fails before the diagnostic
        combos.append((k, fl))
    lines.append("mode " + " ".join(str(k) for k, _ in combos))
    # ---- (b)
    shapes = [((), ()), ((3,), ()), ((), (2,)), ((2,), (2,)), ((2, 1), (3,)), ((1, 2), (2, 1)), ((2, 1, 1), ()),
              ((3, 1, 2), (1, 2)), ((1,), (4,)), ((2,), (3,)), ((2, 3), (2,)), ((1, 1, 2), (3, 1, 1)), ((2, 1, 2), (2, 2, 1))]
    cats = []
    for bt, bi in shapes:
        n, s = rng.randint(1, 3), rng.randint(1, 3)
        cats.append((n, s, bt, bi))
        lines.append(" ".join(["cat", str(n), str(s), str(len(bt))] + [str(v) for v in bt] + [str(len(bi))] + [str(v) for v in bi]))
    # ---- (c)
    mts = [(rng.randint(1, 4), rng.randint(1, 4), t) for t in (0, 1, 2, 3, 4)] + [(1, 1, 2), (3, 2, 2)]
    for n, s, t in mts:
        lines.append(f"mt {n} {s} {t}")
    lines.append("det")
    rep = dict(zip(lines, C.run_driver("C01", lines)))

    def nat(txt):
        return [int(v) for v in txt.split()]
    # (a)
    r = rep[lines[0]]
    if not r.startswith("ok "):
        ctx.broke("correspondence", "driver: mode request", r[:200])
    else:
        codes = nat(r[3:])
        for j, (k, fl) in enumerate(combos):
            gen, spec = codes[2 * j], codes[2 * j + 1]
            for one_d in (False, True):
                obs, detail = observe_mode(fl, one_d)
                ctx.case(f"call-mode|{k}|{'1d' if one_d else '2d'}", nontrivial=True)
                ctx.count("comparisons")
                ctx.count("call-structure:mode")
                want = gen
                if obs == 34 and want in (3, 4):
                    obs = want        # a 2-d argument cannot tell `inputs` from `args`
                if obs != want:
                    on = ", ".join(n_ for n_, v in fl.items() if v) or "-"
                    what = (f"ExactGP.__call__ with [{on}] ({'1-d' if one_d else '2-d'} argument): observed "
                            f"{MODE_NAMES[obs] if 0 <= obs < 7 else detail}, the regenerated callMode says {MODE_NAMES[gen]} "
                            f"(specification: {MODE_NAMES[spec]})")
                    if spec in (5, 6) or obs in (5, 6):
                        # eval mode + data must give the posterior (and nothing else may): the property's own claim
                        ctx.fail(f"call-mode:{MODE_NAMES[spec]}", what, {"callmode": True, "k": k, "one_d": one_d})
                    else:
                        ctx.broke("correspondence", "generated callMode (Gen/ExactCall.lean) vs implementation", what)
                elif (spec in (5, 6)) != (obs in (5, 6)):
                    # the code and its translation agree, but not with the documented behaviour, and the posterior
                    # branch is involved: eval mode + data (and nothing else) must give the posterior
                    on = ", ".join(n_ for n_, v in fl.items() if v) or "-"
                    ctx.fail(f"call-mode:{MODE_NAMES[spec]}",
                             f"ExactGP.__call__ with [{on}]: observed {MODE_NAMES[obs] if 0 <= obs < 7 else detail}, "
                             f"documented {MODE_NAMES[spec]}", {"callmode": True, "k": k, "one_d": one_d})
    # (b)
    for (n, s, bt, bi), line in zip(cats, lines[1:1 + len(cats)]):
        ctx.case(f"call-cat|{n}|{s}|{bt}|{bi}", nontrivial=True)
        ctx.count("comparisons")
        ctx.count("call-structure:cat")
        ntr = n
        for v in bt:
            ntr *= v
        tx = torch.arange(ntr, dtype=torch.float64).reshape(*bt, n, 1)
        nte = s
        for v in bi:
            nte *= v
        xs = (ntr + torch.arange(nte, dtype=torch.float64)).reshape(*bi, s, 1)
        model, lik = X.recording_gp(tx, torch.zeros(*bt, n, dtype=torch.float64))
        model.eval()
        lik.eval()
        try:
            with warnings.catch_warnings():
                warnings.simplefilter("ignore")
                model(xs)
            full = model.seen[-1]
            real = [int(v) for v in full.squeeze(-1).reshape(-1).tolist()]
            real_shape = list(full.shape[:-1])
        except RuntimeError as e:
            real, real_shape = None, str(e)[:100]
        r = rep[line]
        where = f"train batch {bt} n={n}, test batch {bi} s={s}"
        if r.startswith("ok "):
            def tens(txt):
                v = nat(txt)
                return v[1:1 + v[0]], v[2 + v[0]:]
            (gshape, gen), (shape, spec) = [tens(part) for part in r[3:].split(" | ")]
            if real is None:
                ctx.fail("call-concat:raises", f"ExactGP.__call__ raised ({real_shape}) on batch shapes that broadcast: {where}",
                         {"callcat": True, "n": n, "s": s, "bt": bt, "bi": bi})
            elif real != spec or real_shape != shape:
                ctx.fail("call-concat:joint-inputs",
                         f"the joint inputs handed to the prior are not [train; test] of the broadcast batch: shape "
                         f"{real_shape} rows {real[:12]}…, specification {shape} {spec[:12]}… ({where})",
                         {"callcat": True, "n": n, "s": s, "bt": bt, "bi": bi})
            elif real != gen or real_shape != gshape:
                ctx.broke("correspondence", "generated catInputs (Gen/ExactCall.lean) vs implementation",
                          f"{where}: real {real_shape} {real[:16]} generated {gshape} {gen[:16]}")
        elif r == "none none":
            if real is not None:
                ctx.broke("correspondence", "generated catInputs vs implementation",
                          f"{where}: the real code accepted shapes that do not broadcast: {real_shape}")
        else:
            ctx.broke("correspondence", "generated catInputs vs specification concatSpec", f"{where}: driver says {r[:60]}")
    # (c)
    out = {"mt": {}, "det": None}
    for (n, s, t), line in zip(mts, lines[1 + len(cats):]):
        ctx.case(f"call-mt|{n}|{s}|{t}", nontrivial=True)
        ctx.count("comparisons")
        ctx.count("call-structure:mt")
        r = rep[line]
        if not r.startswith("ok "):
            ctx.broke("correspondence", "driver: mt request", r[:200])
            continue
        head, tab, lab = [nat(part) for part in r[3:].split(" | ")]
        m = max(t, 1)
        joint = torch.arange((n + s) * m)
        want_tab = joint[n * m:].view(*([s, t] if t else [s])).reshape(-1).tolist()
        want_lab = torch.arange(n * m).view(*([n, t] if t else [n])).reshape(n * m).tolist()
        want_head = [n * m, 2 if t else 1] + ([s, t] if t else [s])
        if head != want_head or tab != want_tab or lab != want_lab:
            ctx.broke("correspondence", "generated multitask reshape (Gen/ExactCall.lean) vs torch view / reshape",
                      f"n={n} s={s} t={t}: generated {head} {tab[:8]} {lab[:8]}, torch {want_head} {want_tab[:8]} {want_lab[:8]}")
        out["mt"][(n, s, t)] = tab
    r = rep["det"]
    if r.startswith("ok "):
        bits = nat(r[3:])
        out["det"] = {"mean_on": bool(bits[0]), "mean_off": bool(bits[1]), "covar_on": bool(bits[6]), "covar_off": bool(bits[7])}
    else:
        ctx.broke("correspondence", "driver: det request", r[:200])
    return out


# ------------------------------------------------------------------ CG tolerance cells (eval_cg_tolerance must be in force)

TOL_VARIANTS = {"A": (1e-10, 1e-10), "B": (None, 1e-10), "C": (1e-10, None), "D": (0.01, 0.01)}
TOL_PAIRS = (("B", "A", "only eval_cg_tolerance tightened (cg_tolerance at its default) must act like both tightened"),
             ("C", "D", "only cg_tolerance tightened (eval_cg_tolerance at its default 0.01) must act like cg=eval=0.01"))


def tolerance_case(ctx, idx, only_cell=None):
    """Larger, slowly converging systems on which the CG tolerance matters.  gpytorch promises that every solve of
    an eval-mode prediction runs at `eval_cg_tolerance` (ExactGP.__call__ wraps exact_prediction in
    `cg_tolerance(eval_cg_tolerance.value())`).  So the outputs under (cg_tolerance=a, eval_cg_tolerance=b) must be
    those under (b, b) for every a — per quantity (mean solve, covariance solve)."""
    import numpy as np
    rng = ctx.rng(f"tolcase:{idx}")
    kk = ("matern0.5", "rbf", "matern1.5", "sum", "scale(rbf)", "rq")[idx % 6]
    with warnings.catch_warnings():
        warnings.simplefilter("ignore")
        model, lik, tx, ty, desc = G.build_exact_gp(rng, n=rng.randint(18, 36), d=2, kernel_kind=kk,
                                                    mean_kind=rng.choice(G.MEAN_KINDS), lik_kind="gaussian",
                                                    batch_kind=rng.choice(["none", "none", "broadcast"]), b=2)
        lik.noise = G._u(rng, 0.01, 0.03)
        test_x = G.random_test_x(rng, desc, s=rng.randint(2, 5))
    desc["s"] = test_x.shape[-2]
    cell = only_cell or {"lazy": rng.random() < 0.5, "eager": rng.choice([0, 512]), "cg": True,
                         "fast": False, "detach": rng.random() < 0.5, "skip": False,   # Lanczos roots are not CG solves
                         "max_cg_iterations": 200}
    P = dense_pieces(model, lik, tx, ty, desc, test_x, None)
    obs = {}
    for name, tols in TOL_VARIANTS.items():
        c = dict(cell, tols=tols)
        obs[name] = run_cell(model, lik, desc, test_x, None, c, P, skip_noisy=True)
    where = f"{desc['kernel']} n={desc['n']} s={desc['s']} batch={desc['batch']} cell={G.cell_name(cell)}"
    sens = max(_absmax(obs["A"]["mean"] - obs["D"]["mean"]), _absmax(obs["A"]["cov"] - obs["D"]["cov"]))
    ctx.count("tolerance-cells")
    if sens > 1e-6:
        ctx.count("tolerance-cells:tolerance-matters")
    for got, ref, what in TOL_PAIRS:
        ctx.case(f"tol|{idx}|{G.cell_name(cell)}|{got}", nontrivial=sens > 1e-6,
                 sample={"model": _slim(desc), "cell": G.cell_name(cell), "variant": TOL_VARIANTS[got],
                         "reference": TOL_VARIANTS[ref], "sensitivity(tight vs 0.01)": sens})
        for q, label in (("mean_cache", "mean solve (mean_cache)"), ("mean", "posterior mean"),
                         ("cov", "posterior covariance"), ("var", "posterior variance")):
            a, b_ = obs[got].get(q), obs[ref].get(q)
            if a is None or b_ is None:
                continue
            ctx.count("comparisons")
            err = _absmax(np.asarray(a) - np.asarray(b_))
            tol = 1e-9 * (_absmax(b_) + 1e-300) + 1e-13
            if err > tol:
                ctx.fail(f"cg-tolerance:{q}:eval_cg_tolerance-not-in-force",
                         f"{label} under (cg_tolerance, eval_cg_tolerance)={TOL_VARIANTS[got]} differs from "
                         f"{TOL_VARIANTS[ref]} by {err:.3e} (tol {tol:.1e}): {what} — the solve did not run at "
                         f"eval_cg_tolerance; on {where}",
                         {"tolcell": True, "idx": idx, "cell": cell, "variant": got, "reference": ref,
                          "observable": q, "err": err, "desc": _slim(desc)})


# ------------------------------------------------------------------ comparison

class Rec:
    """One (case, batch element): exact values + tolerance scales."""

    def __init__(self, P, b, mats):
        import numpy as np
        N = P["N"]
        self.alpha, self.mean, self.cov, self.ncov, self.Ainv = mats[:5]
        self.alpha, self.mean = self.alpha[:, 0], self.mean[:, 0]
        self.gen_raw = mats[5:]       # pairs (mean, covar) of the GENERATED exact_prediction, one per requested cfg
        J = P["J"][b]
        self.A = J[:N, :N] + P["Strain"][b]
        self.Kts, self.Ktt, self.mt = J[N:, :N], J[N:, N:], P["mj"][b][N:]
        self.r = P["y"][b] - P["mj"][b][:N]
        self.kappa = _norm_inf(self.A) * _norm_inf(self.Ainv)
        nk = 64 * N * EPS
        self.rel = max(nk * self.kappa, 1e-9)
        self.rel_round = max(4 * nk, 1e-11)
        self.sc_mean = _absmax(self.mt) + _absmax(np.abs(self.Kts) @ np.abs(self.alpha))
        self.sc_cov = _absmax(self.Ktt) + _absmax(np.abs(self.Kts) @ np.abs(self.Ainv) @ np.abs(self.Kts).T)
        self.sc_alpha = _absmax(self.alpha) + 1e-300
        self.St = P["Stest"][b] if P["Stest"] is not None else None
        # path-dependence of the model's own kernel evaluation (see _gpmodels.kernel_eval_delta), with margin
        self.dK = 4.0 * float(P["dK"][b])
        self.W = _norm_inf(np.abs(self.Kts) @ np.abs(self.Ainv))
        self.a1 = float(np.sum(np.abs(self.alpha)))
        self.tol_mean = self.rel * self.sc_mean + self.dK * (1 + self.W) * (1 + self.a1) + 1e-12
        self.tol_cov = self.rel * self.sc_cov + self.dK * (1 + self.W) ** 2 + 1e-12
        self.tol_alpha = self.rel * self.sc_alpha + self.dK * _norm_inf(self.Ainv) * self.a1 + 1e-12


def _path(cell):
    return ("cg" if cell["cg"] else "cholesky") + ":" + ("lazy" if cell["lazy"] else "nolazy") + \
           (":eager-split" if cell["eager"] else ":lazy-split")


def _state_check(ctx, kind, idx, kw, desc, changed, sc):
    ctx.count("comparisons")
    for name, how, val in changed[:3]:
        ctx.fail(f"state-changed-by-prediction:{name}:{how}",
                 f"predicting in eval mode changed the model's own state: state_dict entry `{name}` {how}"
                 f"{'' if val is None else ' (was ' + str(val) + ')'} on {desc['kernel']} lik={desc['lik']} "
                 f"batch={desc['batch']} scenario={sc['type']} — the next prediction is made by a different prior than "
                 f"the one the model was built with",
                 {"kind": kind, "idx": idx, "kw": kw, "cell": sc["cell"], "scenario": sc, "label": "state",
                  "desc": _slim(desc)})


def correspondence(ctx, extra=False):
    import numpy as np
    import torch
    torch.set_num_threads(2)
    thorough = ctx.tier == "thorough" or extra
    n_single, n_multi, ncell = (60, 12, 10) if not thorough else (220, 32, 64)
    n_ext, ncell_ext = (len(X.EXT_ALWAYS) + 7, 5) if not thorough else (len(X.EXT_ALWAYS) + len(X.EXT_KERNEL_KINDS), 32)
    workers = 4 if not thorough else 10
    n_nd = 6 if not thorough else 12
    if os.environ.get("VERIF_C01_CASES"):
        n_single, n_multi, n_ext, n_nd = ([int(v) for v in os.environ["VERIF_C01_CASES"].split(",")] + [0, 0])[:4]
    c12 = _c12_calltime_noise_defect()
    if c12:
        ctx.assumption("C12-owned defect present in this tree (FixedNoise + learn_additional_noise forwards the "
                       "call-time noise to the learned noise model): the noisy-covariance observable of C01 is "
                       "skipped for that likelihood kind with call-time noise; mean/covariance still compared")
    try:
        cstruct = call_structure(ctx)
    except Exception as e:
        import traceback
        ctx.broke("correspondence", "call structure (Gen/ExactCall.lean) could not be checked", traceback.format_exc()[-1500:])
        cstruct = {"mt": {}, "det": None}
    _CS.clear()
    _CS.update(cstruct)
    plan = _plan(ctx, n_single, n_multi, n_ext, n_nd)
    cell_cycle = G.all_cells()
    ctx.rng("scenario-cells").shuffle(cell_cycle)
    n_scen = 0
    cases, post_lines = [], []
    T = C.Timer()
    # ---- phase 1: build, evaluate densely, run the real code
    for kind, idx, kw in plan:
        try:
            model, lik, tx, ty, desc, test_x, test_noise = build_case(ctx, kind, idx, kw, thorough)
            P = dense_pieces(model, lik, tx, ty, desc, test_x, test_noise)
        except Exception as e:  # a model the real code refuses to build/evaluate: rejected, not a failure
            ctx.count("rejected_build:" + type(e).__name__)
            continue
        crng = ctx.rng(f"cells:{kind}:{idx}")
        ext = kind == "single" and idx >= 1000      # wave-3 zoo (active_dims / structured kernels, n-d data batches)
        cells = G.covering_cells(crng, ncell_ext) if ext else G.all_cells() if ncell >= 64 else G.covering_cells(crng, ncell)
        skip_noisy = c12 and desc["lik"] == "fixed+learned"
        runs = []
        snap = X.snapshot(model)
        for cell in cells:
            try:
                runs.append((cell, run_cell(model, lik, desc, test_x, test_noise, cell, P, skip_noisy)))
            except Exception as e:
                # the property quantifies over all settings cells: a crash on a legal cell is a failure
                ctx.fail(f"exception:{_path(cell)}:{type(e).__name__}",
                         f"model(x*) raised {type(e).__name__}: {str(e)[:200]} on {desc['kernel']} {G.cell_name(cell)}",
                         {"kind": kind, "idx": idx, "kw": kw, "cell": cell, "desc": _slim(desc)})
        codes = gen_codes([c for c, _ in runs], P, 4 if thorough else 2)
        lines = [post_line(P, b, codes) for b in range(P["nb"])]
        post_lines += lines
        cases.append({"kind": kind, "idx": idx, "kw": kw, "desc": desc, "P": P, "runs": runs, "lines": lines,
                      "codes": codes})
        ctx.count("models")
        # a prediction must leave the model's parameters and buffers (every kernel's active_dims is one) alone
        _state_check(ctx, kind, idx, kw, desc, X.changed(model, snap),
                     {"type": "cells-state", "cell": cells[0], "cells": [c for c, _ in runs]})
        # ---- wave 3 scenarios, each on a FRESH build of this case (so that a replay is exact): repeated predictions on
        #      one object; copy histories; the models returned by get_fantasy_model
        #      quick: repeat on every model, copy / fantasy on alternating models (one op / one cell each);
        #      thorough: on every model two copy ops (cycled; one also judged under a second cell) and one fantasy cell
        other = lambda c1: crng.choice([c for c in G.all_cells() if c["cg"] == c1["cg"] and c != c1])
        scen = [{"type": "repeat", "cell": crng.choice(G.all_cells())}]
        if thorough or n_scen % 2 == 0:
            nops = len(X.COPY_OPS)
            copy_ops = [X.COPY_OPS[(2 * n_scen + k) % nops] for k in range(2)] if thorough \
                else [X.COPY_OPS[(n_scen // 2) % nops]]
            for k, op in enumerate(copy_ops):
                c1 = cell_cycle[(3 * n_scen + k) % 64]
                scen.append({"type": "copy", "op": op, "cell": c1, "cell2": other(c1) if thorough and k == 0 else None})
        if thorough or n_scen % 2 == 1:
            c1 = cell_cycle[(5 * n_scen + 1) % 64]
            scen.append({"type": "fantasy", "cell": c1, "cell2": other(c1), "source": thorough})
        n_scen += 1
        for sc in scen:
            try:
                res = scenario_runs(ctx, kind, idx, kw, sc, thorough)
            except X.Rejected as e:
                ctx.count(f"rejected_scenario:{sc['type']}:" + str(e).split(":")[0][:60])
                if len(ctx.notes.setdefault("rejected_scenarios", [])) < 12:
                    ctx.notes["rejected_scenarios"].append(f"{kind}{idx} {desc['kernel']} lik={desc['lik']} batch={desc['batch']} "
                                                           f"{sc['type']}:{sc.get('op', '')} {G.cell_name(sc['cell'])}: {e}")
                continue
            except Exception as e:
                name = sc["type"] + (":" + sc["op"] if "op" in sc else "")
                ctx.fail(f"exception:scenario:{name}:{type(e).__name__}",
                         f"scenario {name} raised {type(e).__name__}: {str(e)[:200]} on {desc['kernel']} lik={desc['lik']} "
                         f"batch={desc['batch']} {G.cell_name(sc['cell'])}",
                         {"kind": kind, "idx": idx, "kw": kw, "cell": sc["cell"], "scenario": sc, "label": "exception",
                          "desc": _slim(desc)})
                continue
            for r in res:
                if r["label"] == "state":
                    _state_check(ctx, kind, idx, kw, r["desc"], r["changed"], sc)
                    continue
                codes3 = gen_codes([r["cell"]], r["P"], 1)
                lines3 = [post_line(r["P"], b, codes3) for b in range(r["P"]["nb"])]
                post_lines += lines3
                cases.append({"kind": kind, "idx": idx, "kw": kw, "desc": r["desc"], "P": r["P"],
                              "runs": [(r["cell"], r["obs"])], "lines": lines3, "codes": codes3,
                              "history": [{"op": r["label"], "cell": r["cell"]}], "scenario": sc, "label": r["label"]})
                ctx.count("scenario-cells:" + sc["type"] + ":" + r["label"].split("|")[-1])
        # ---- two-step cells on the same object: predict -> update data / parameters -> predict; the second
        #      prediction must be the conditional of the CURRENT data and parameters
        ops = list(OPS) if thorough else [OPS[(idx + (0 if kind == "single" else 1)) % len(OPS)]]
        done = []
        for op in ops:
            for cell in G.covering_cells(crng, 1):
                done.append({"op": op, "cell": cell})
                try:
                    tx, ty, desc = apply_history(ctx, model, lik, tx, ty, desc, test_x, cell, op, kind, f"{idx}:{len(done)}")
                    P2 = dense_pieces(model, lik, tx, ty, desc, test_x, test_noise)
                    obs2 = run_cell(model, lik, desc, test_x, test_noise, cell, P2, skip_noisy, reset=False)
                except Exception as e:
                    ctx.fail(f"exception:history:{op}:{type(e).__name__}",
                             f"predict -> {op} -> predict raised {type(e).__name__}: {str(e)[:200]} on {desc['kernel']} "
                             f"lik={desc['lik']} batch={desc['batch']} {G.cell_name(cell)}",
                             {"kind": kind, "idx": idx, "kw": kw, "cell": cell, "history": list(done), "desc": _slim(desc)})
                    break
                codes2 = gen_codes([cell], P2, 1)
                lines2 = [post_line(P2, b, codes2) for b in range(P2["nb"])]
                post_lines += lines2
                cases.append({"kind": kind, "idx": idx, "kw": kw, "desc": desc, "P": P2, "runs": [(cell, obs2)],
                              "lines": lines2, "history": list(done), "codes": codes2})
                ctx.count("history-cells:" + op)
    # ---- CG tolerance cells
    for i in range(4 if not thorough else 24):
        try:
            tolerance_case(ctx, i)
        except Exception as e:
            ctx.fail(f"exception:tolerance-cell:{type(e).__name__}", f"tolerance cell {i} raised {type(e).__name__}: {str(e)[:200]}",
                     {"tolcell": True, "idx": i})
    ctx.notes["phase1_s"] = round(T(), 1)
    # ---- phase 2: exact values from the Lean model
    replies = _lines_parallel("C01", post_lines, workers)
    ctx.notes["phase2_s"] = round(T(), 1)
    # ---- phase 3: observed-cache requests (assume/guarantee) and comparison
    need = sorted({(cs["desc"]["n"], cs["desc"]["s"], cs["desc"]["tasks"]) for cs in cases if cs["desc"]["tasks"] > 1}
                  - set(_CS["mt"]))
    if need:
        mt_lines = [f"mt {n_} {s_} {t_}" for n_, s_, t_ in need]
        for key, r in zip(need, C.run_driver("C01", mt_lines)):
            if r.startswith("ok "):
                _CS["mt"][key] = [int(v) for v in r[3:].split(" | ")[1].split()]
    pending = []   # (line, callback)
    dist = {"n": {}, "kernel": {}, "lik": {}, "batch": {}, "mean": {}, "cell_axes": {}}
    for cs in cases:
        desc, P = cs["desc"], cs["P"]
        for b in range(P["nb"]):
            mats = _parse_reply(replies[cs["lines"][b]])
            if mats is None:
                ctx.count("discarded_singular")
                continue
            R = Rec(P, b, mats)
            ctx.notes["max_kernel_eval_delta"] = max(ctx.notes.get("max_kernel_eval_delta", 0.0), float(P["dK"][b]))
            if not (R.kappa <= 1e6):
                ctx.count("discarded_cond>1e6")
                continue
            for cell, obs in cs["runs"]:
                _compare(ctx, cs, b, R, cell, obs, pending)
        for k, v in (("n", desc["n"] * desc["tasks"]), ("kernel", desc["kernel_kind"]), ("lik", desc["lik"]),
                     ("batch", desc["batch"]), ("mean", desc["mean"])):
            dist[k][str(v)] = dist[k].get(str(v), 0) + 1
        for cell, _ in cs["runs"]:
            for ax in G.CELL_AXES:
                key = f"{ax}={cell[ax]}"
                dist["cell_axes"][key] = dist["cell_axes"].get(key, 0) + 1
    rep2 = _lines_parallel("C01", [l for l, _ in pending], workers)
    for line, cb in pending:
        cb(_parse_reply(rep2[line]))
    ctx.notes["phase3_s"] = round(T(), 1)
    ctx.notes["distribution"] = dist
    ctx.notes["driver_requests"] = len(set(post_lines)) + len(set(l for l, _ in pending))


def _slim(desc):
    return {k: v for k, v in desc.items() if k != "kernel_spec"}


def _compare(ctx, cs, b, R, cell, obs, pending):
    import numpy as np
    desc, P = cs["desc"], cs["P"]
    N, Sx = P["N"], P["S"]
    path = _path(cell)
    cname = G.cell_name(cell)
    nontrivial = N >= 2
    hist = cs.get("history")
    hname = "" if not hist else "|after:" + ">".join(h["op"] for h in hist)
    ctx.case(f"{desc['kernel']}|{desc['mean']}|{desc['lik']}|{desc['batch']}|n={N}|s={Sx}|{cs['kind']}{cs['idx']}|{cname}{hname}",
             nontrivial=nontrivial,
             sample={"model": _slim(desc), "cell": cname, "batch_element": b, "kappa": R.kappa,
                     "posterior_mean[0]": float(R.mean[0]), "posterior_var[0]": float(R.cov[0, 0])})
    iterative = cell["cg"]
    where = (f"{desc['kernel']} mean={desc['mean']} lik={desc['lik']} batch={desc['batch']} n={N} s={Sx} "
             f"x*={desc.get('xstar')} cell={cname}" + (f" history=predict>{hist[-1]['op']}>predict" if hist else ""))

    def replay(extra):
        d = {"kind": cs["kind"], "idx": cs["idx"], "kw": cs["kw"], "cell": cell, "batch_element": b, "desc": _slim(desc)}
        if hist:
            d["history"] = hist
        if cs.get("scenario"):
            d["scenario"], d["label"] = cs["scenario"], cs["label"]
        d.update(extra)
        line = cs["lines"][b]
        if len(line) < 30000:
            d["post_request"] = line
        return d

    def check(key, what, got, exp, tol, primitive=None, tie=False):
        """|got - exp| <= tol, else a failure — unless `primitive` names an iterative linear_operator primitive whose
        *observed* output is checked separately (the `|given-…` comparison): then the deviation is attributed to
        the primitive's residual and recorded as an assumption failure of linear_operator."""
        err = _absmax(np.asarray(got, dtype=float) - np.asarray(exp, dtype=float))
        ctx.count("comparisons")
        if err <= tol:
            return True
        if primitive is not None:
            ctx.count("assumption:" + primitive[0])
            if len(ctx.assumption_lines) < 10:
                ctx.assumption(f"linear_operator {primitive[0]}: residual {primitive[1]:.2e} — end-to-end deviation "
                               f"{err:.2e} of {key} on {where} attributed to the primitive (downstream algebra "
                               f"checked exactly from its observed output)")
            return True
        if tie:
            # the implementation disagrees with what the translator says the code is: the model <-> implementation
            # tie is broken (the property itself is judged by the comparisons with the specification)
            ctx.broke("correspondence", "generated algebra (Gen/ExactAlgebra.lean) vs implementation: " + key,
                      f"{what}: |impl - generated| = {err:.3e} > tol {tol:.2e} on {where}")
            return False
        ctx.fail(key + (f":after-{hist[-1]['op']}" if hist else ""),
                 f"{what}: |impl - exact| = {err:.3e} > tol {tol:.2e} on {where}",
                 replay({"observable": key, "err": err, "tol": tol, "got": np.asarray(got).tolist(),
                         "expected": np.asarray(exp).tolist()}))
        return False

    if int(np.prod(obs["out_batch"] or (1,))) != P["nb"]:
        ctx.fail(f"batch-shape:{path}", f"model(x*) batch shape {obs['out_batch']} != broadcast shape {P['B']} on {where}",
                 replay({}))
        return
    # ---- mean (primitive: the solve behind mean_cache, observable through the cache)
    mc = obs.get("mean_cache")
    prim_mean = None
    if mc is not None:
        rho = _absmax(R.A @ mc[b] - R.r)
        ctx.notes.setdefault("max_residual", {})
        k = "mean_cache:" + ("cg" if iterative else "cholesky")
        ctx.notes["max_residual"][k] = max(ctx.notes["max_residual"].get(k, 0.0), rho / (_absmax(R.r) + 1e-300))
        if iterative:
            prim_mean = ("CG solve (mean_cache)", rho)
        check(f"mean_cache:{path}", "prediction_strategy.mean_cache vs (Kxx+S)^-1 (y-mx)", mc[b], R.alpha,
              R.tol_alpha, prim_mean)
        # gpytorch's algebra given the observed cache: exact predMean(mt, Kts, mean_cache)
        line = " ".join(["given", str(N), str(Sx), C.vec_tokens(R.mt), C.mat_tokens(R.Kts), C.vec_tokens(mc[b])])
        sc = _absmax(R.mt) + _absmax(np.abs(R.Kts) @ np.abs(mc[b]))
        got, mcb = obs["mean"][b], mc[b]
        pending.append((line, lambda m, got=got, sc=sc, mcb=mcb: check(
            f"posterior-mean|given-cache:{path}", "model(x*).mean vs exact predMean(mt, K*x, observed mean_cache)",
            got, m[0][:, 0], R.rel_round * sc + R.dK * (1 + float(np.sum(np.abs(mcb)))) + 1e-13)))
    elif iterative:
        ctx.count("unobserved:mean_cache")
        prim_mean = ("CG solve (mean_cache, unobserved)", float("nan"))
    check(f"posterior-mean:{path}", "model(x*).mean", obs["mean"][b], R.mean, R.tol_mean, prim_mean)
    # ---- generated call structure (Gen/ExactCall.lean): the multitask reshape and what detach_test_caches detaches
    tab = _CS["mt"].get((desc["n"], desc["s"], desc["tasks"])) if desc["tasks"] > 1 else None
    if tab is not None and obs.get("mean2d") is not None:
        t_ = desc["tasks"]
        via = np.array([[R.mean[tab[p_ * t_ + q_] - N] for q_ in range(t_)] for p_ in range(desc["s"])])
        check(f"gen:multitask-reshape:{path}", "model(x*).mean[(point, task)] vs the exact posterior mean read through the "
              "GENERATED reshape (viewPredMean ∘ testMean)", obs["mean2d"][b], via, R.tol_mean, prim_mean, tie=True)
    if _CS.get("det") and not hist and not cs.get("scenario"):
        for flag, name in (("mc_grad", "mean"), ("cc_grad", "covar")):
            if obs.get(flag) is not None:
                ctx.count("comparisons")
                detached = _CS["det"][name + ("_on" if cell["detach"] else "_off")]
                if detached == obs[flag]:
                    ctx.broke("correspondence", f"generated {name}CacheDetached (Gen/ExactCall.lean) vs implementation",
                              f"detach_test_caches={cell['detach']}: generated says detached={detached}, the real cache has "
                              f"requires_grad={obs[flag]} on {where}")
    # ---- the GENERATED exact_prediction under this cell's branch configuration (translator tie)
    code = cfg_code(cell, P)
    gen = None
    codes = cs.get("codes") or []
    if code in codes and len(R.gen_raw) >= 2 * (codes.index(code) + 1):
        gen = (R.gen_raw[2 * codes.index(code)], R.gen_raw[2 * codes.index(code) + 1])
        ctx.count("generated-vs-impl")
        if gen[0] is None:
            ctx.broke("correspondence", "generated algebra returned no value", f"cfg {code} on {where}")
            gen = None
    if gen is not None:
        check(f"gen:posterior-mean:{path}", "model(x*).mean vs GENERATED exact_prediction", obs["mean"][b], gen[0][:, 0],
              R.tol_mean, prim_mean, tie=True)
    # ---- covariance
    prim_cov = None
    if cell["skip"]:
        strat = obs.get("strategy", "DefaultPredictionStrategy")
        if strat != "DefaultPredictionStrategy" and _absmax(obs["cov"][b]) > 0 and \
                _absmax(obs["cov"][b] - R.cov) <= max(R.tol_cov, 1e-4 * R.sc_cov):
            # a kernel-specific strategy that does not look at the setting and returns the (correct) posterior
            # covariance instead of the documented ZeroLinearOperator: its own stable key (the signature is exact:
            # any other non-zero value is reported under the generic key below)
            ctx.count("comparisons")
            ctx.fail(f"skip-not-honoured:{strat}",
                     f"skip_posterior_variances(True): {strat} returns the posterior covariance (max |.| = "
                     f"{_absmax(obs['cov'][b]):.3e}, equal to the closed form) instead of the documented "
                     f"ZeroLinearOperator on {where}", replay({"observable": "posterior-covar:skip"}))
        else:
            check("posterior-covar:skip", "skip_posterior_variances: covariance must be the zero operator",
                  obs["cov"][b], np.zeros((Sx, Sx)), 0.0)
        if gen is not None:
            check("gen:posterior-covar:skip", "covariance vs GENERATED exact_prediction (skip)", obs["cov"][b], gen[1], 0.0,
                  tie=True)
    else:
        tol_cov = R.tol_cov
        kind = "fast" if cell["fast"] else "exact"
        if cell["fast"]:
            Rc = obs["covar_cache"][b] if obs.get("covar_cache") is not None else None
            if Rc is not None:
                gram_err = _absmax(Rc @ Rc.T - R.Ainv)
                k = "covar_cache:" + ("lanczos" if iterative else "cholesky")
                ctx.notes.setdefault("max_residual", {})
                ctx.notes["max_residual"][k] = max(ctx.notes["max_residual"].get(k, 0.0), gram_err / _absmax(R.Ainv))
                if iterative:
                    prim_cov = ("Lanczos root_inv_decomposition (covar_cache)", gram_err)
                check(f"covar_cache:{path}", "covar_cache covar_cache^T vs (Kxx+S)^-1", Rc @ Rc.T, R.Ainv,
                      R.rel * _absmax(R.Ainv) + R.dK * _norm_inf(R.Ainv) ** 2 + 1e-12, prim_cov)
                rcode = 1 + (4 if cell["detach"] else 0) + (code & 8)   # fast branch of the generated code; eager as in the cell
                line = " ".join(["root", str(N), str(Sx), str(Rc.shape[1]), C.mat_tokens(P["J"][b]), C.mat_tokens(Rc),
                                 str(rcode)])
                aq = np.abs(R.Kts) @ np.abs(Rc)
                sc = _absmax(R.Ktt) + _absmax(aq @ aq.T)
                got = obs["cov"][b]

                def on_root(m, got=got, sc=sc, aq=aq, Rc=Rc):
                    tol = R.rel_round * sc + R.dK * (1 + 2 * _norm_inf(aq @ np.abs(Rc).T)) + 1e-13
                    if m is None:
                        ctx.broke("correspondence", "generated algebra returned no value (fast branch)", where)
                        return
                    ctx.count("generated-vs-impl")
                    check(f"gen:posterior-covar|given-cache:fast:{path}",
                          "covariance vs GENERATED exact_predictive_covar(fast branch) at the observed covar_cache",
                          got, m[0], tol, tie=True)
                    check(f"posterior-covar|given-cache:fast:{path}",
                          "covariance vs exact predCovarRoot(K**, K*x, observed covar_cache)", got, m[2], tol)
                pending.append((line, on_root))
            elif iterative:
                ctx.count("unobserved:covar_cache")
                prim_cov = ("Lanczos root (unobserved)", float("nan"))
        elif iterative:
            X = obs.get("cg_solve")
            if X is not None:
                Xb = X[b]
                res = _absmax(R.A @ Xb - R.Kts.T)
                prim_cov = ("CG solve (covariance right-hand side)", res)
                line = " ".join(["solve", str(N), str(Sx), C.mat_tokens(R.Ktt), C.mat_tokens(R.Kts), C.mat_tokens(Xb)])
                sc = _absmax(R.Ktt) + _absmax(np.abs(R.Kts) @ np.abs(Xb))
                got = obs["cov"][b]
                pending.append((line, lambda m, got=got, sc=sc, Xb=Xb: check(
                    f"posterior-covar|given-solve:exact:{path}",
                    "covariance vs exact predCovarOfSolve(K**, K*x, observed solve)", got, m[0],
                    R.rel_round * sc + R.dK * (1 + float(np.max(np.sum(np.abs(Xb), axis=0)))) + 1e-13)))
            else:
                ctx.count("unobserved:cg_solve")
                prim_cov = ("CG solve (unobserved)", float("nan"))
        check(f"posterior-covar:{kind}:{path}", "model(x*).covariance_matrix", obs["cov"][b], R.cov, tol_cov, prim_cov)
        if gen is not None and not cell["fast"]:
            check(f"gen:posterior-covar:{kind}:{path}", "covariance vs GENERATED exact_prediction", obs["cov"][b], gen[1],
                  tol_cov, prim_cov, tie=True)
        check(f"posterior-variance:{kind}:{path}", "model(x*).variance", obs["var"][b], np.diag(R.cov), tol_cov, prim_cov)
        # (MultivariateNormal.variance is documented to clamp at settings.min_variance: a diagonal entry below it — only
        #  seen when an iterative primitive returned an inaccurate root — is reported as the floor)
        dg = np.diag(obs["cov"][b])
        mv = obs.get("min_var")
        check(f"posterior-variance-vs-diag:{kind}:{path}", "model(x*).variance vs diag(model(x*).covariance_matrix)",
              obs["var"][b], dg if mv is None else np.where(dg < mv, mv, dg),
              64 * EPS * R.sc_cov + R.dK * (1 + R.W) ** 2 + 1e-13)
        check(f"posterior-covar-symmetry:{kind}:{path}", "covariance symmetric", obs["cov"][b], obs["cov"][b].T,
              tol_cov, prim_cov)
    # ---- likelihood: adds exactly the observation noise, once, and leaves the mean alone
    if "ncov" in obs and R.St is not None:
        lk = desc["lik"].split("[")[0]
        added = obs["ncov"][b] - obs["cov"][b]
        check(f"marginal-noise:{lk}", "likelihood(model(x*)).covariance - model(x*).covariance vs the noise S*",
              added, R.St, 64 * EPS * (_absmax(obs["cov"][b]) + _absmax(R.St)) + 1e-13)
        check(f"marginal-mean:{lk}", "likelihood(model(x*)).mean vs model(x*).mean", obs["nmean"][b], obs["mean"][b], 0.0)
        for ename, ecov, with_noise in obs.get("entries", []):
            if isinstance(ecov, str):
                if b == 0:
                    ctx.fail(f"exception:marginal-noise:{lk}:{ename}", f"likelihood.{ename} on model(x*) raised {ecov} on {where}",
                             replay({"observable": f"likelihood.{ename}"}))
                continue
            exp_S = R.St if with_noise or desc["lik"].split("[")[0] not in ("fixed", "fixed+learned") else P["Stest0"][b]
            check(f"marginal-noise:{lk}:{ename}",
                  f"likelihood.{ename}: covariance added to model(x*) vs the documented noise "
                  f"({'call-time noise' if with_noise else 'no call-time noise'}, n*{'==' if Sx == N else '!='}n)",
                  ecov[b] - obs["cov"][b], exp_S, 64 * EPS * (_absmax(obs["cov"][b]) + _absmax(exp_S)) + 1e-13)
        if not cell["skip"]:
            check(f"noisy-covar:{kind}:{path}", "likelihood(model(x*)).covariance_matrix vs K** + S* - K*x A^-1 Kx*",
                  obs["ncov"][b], R.ncov, R.tol_cov + R.rel * _absmax(R.St), prim_cov)


# ------------------------------------------------------------------ search / replay

def search(ctx, broken):
    """A proof or the tie broke: run the larger generator against the implementation with the spec oracle."""
    if not ctx.failures:
        correspondence(ctx, extra=True)


def _replay_scenario(ctx, case, thorough):
    kind, idx, kw, sc, label = case["kind"], case["idx"], case.get("kw", {}), case["scenario"], case["label"]
    try:
        res = scenario_runs(ctx, kind, idx, kw, sc, thorough)
    except Exception as e:
        print("replay: scenario raised", type(e).__name__, str(e)[:300])
        return label != "exception" and isinstance(e, X.Rejected)
    pending, sent = [], []
    for r in res:
        if r["label"] != label:
            continue
        if label == "state":
            _state_check(ctx, kind, idx, kw, r["desc"], r["changed"], sc)
            continue
        P = r["P"]
        codes = gen_codes([r["cell"]], P, 1)
        lines = [post_line(P, b, codes) for b in range(P["nb"])]
        replies = _lines_parallel("C01", lines)
        cs = {"kind": kind, "idx": idx, "kw": kw, "desc": r["desc"], "P": P, "lines": lines, "codes": codes,
              "history": [{"op": label, "cell": r["cell"]}], "scenario": sc, "label": label}
        for b in range(P["nb"]):
            mats = _parse_reply(replies[lines[b]])
            if mats is not None:
                _compare(ctx, cs, b, Rec(P, b, mats), r["cell"], r["obs"], pending)
    rep2 = _lines_parallel("C01", [l for l, _ in pending])
    for line, cb in pending:
        cb(_parse_reply(rep2[line]))
    for f in ctx.failures[:5]:
        print("replay:", f["key"], f["what"][:300])
    return not ctx.failures


def replay(ctx, payload):
    """Re-run one recorded case; True when it no longer fails."""
    import torch
    torch.set_num_threads(2)
    case = payload.get("case", payload)
    os.environ["VERIF_SEED"] = str(payload.get("seed", C.seed()))
    if case.get("callmode") or case.get("callcat"):
        call_structure(ctx)
        for f in ctx.failures[:5]:
            print("replay:", f["key"], f["what"][:300])
        return not ctx.failures
    if case.get("tolcell"):
        tolerance_case(ctx, case["idx"], case.get("cell"))
        for f in ctx.failures[:5]:
            print("replay:", f["key"], f["what"][:300])
        return not ctx.failures
    kind, idx, kw, cell = case["kind"], case["idx"], case.get("kw", {}), case["cell"]
    if case.get("scenario"):
        return _replay_scenario(ctx, case, payload.get("tier") == "thorough")
    model, lik, tx, ty, desc, test_x, test_noise = build_case(ctx, kind, idx, kw, payload.get("tier") == "thorough")
    c12 = _c12_calltime_noise_defect()
    skip_noisy = c12 and desc["lik"] == "fixed+learned"
    hist = case.get("history") or []
    try:
        for k, h in enumerate(hist):
            tx, ty, desc = apply_history(ctx, model, lik, tx, ty, desc, test_x, h["cell"], h["op"], kind, f"{idx}:{k + 1}")
        P = dense_pieces(model, lik, tx, ty, desc, test_x, test_noise)
        obs = run_cell(model, lik, desc, test_x, test_noise, cell, P, skip_noisy, reset=not hist)
    except Exception as e:
        print("replay: real code raised", type(e).__name__, e)
        return False
    codes = gen_codes([cell], P, 1)
    lines = [post_line(P, b, codes) for b in range(P["nb"])]
    replies = _lines_parallel("C01", lines)
    cs = {"kind": kind, "idx": idx, "kw": kw, "desc": desc, "P": P, "lines": lines, "history": hist or None,
          "codes": codes}
    pending = []
    for b in range(P["nb"]):
        mats = _parse_reply(replies[lines[b]])
        if mats is None:
            continue
        _compare(ctx, cs, b, Rec(P, b, mats), cell, obs, pending)
    rep2 = _lines_parallel("C01", [l for l, _ in pending])
    for line, cb in pending:
        cb(_parse_reply(rep2[line]))
    for f in ctx.failures[:5]:
        print("replay:", f["key"], f["what"][:300])
    return not ctx.failures

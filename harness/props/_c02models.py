"""Random exact-GP models for C02 (self-contained; float64; every random choice from the `rng` passed in).

build(cfg) -> World  with the real gpytorch model in *training* mode plus everything the specification side
needs without going through the MLL code: the list of registered priors as (getter, kind, hyper) so that the
log prior densities can be recomputed from closed forms, and `noise_dense(world)` = the documented noise
covariance built from the likelihood's public parameters.

cfg (JSON-able) fully determines the model: the generator `random_cfg(rng, ...)` draws it, `build(cfg)`
re-creates the same model from it (all tensors are drawn from torch generators seeded by cfg['seed']).
"""
import math
import warnings

KERNELS = ["rbf", "matern0.5", "matern1.5", "matern2.5", "rq", "periodic", "linear", "poly2",
           "scale(rbf)", "scale(matern2.5)", "ard-rbf", "ard-matern1.5", "sum", "product", "scale(sum)"]
MEANS = ["zero", "constant", "linear"]
LIKS = ["gaussian", "fixed", "fixed+learned"]
BATCH = ["none", "model", "data"]
PRIOR_KINDS = ["normal", "gamma", "lognormal", "smoothedbox"]
PRIOR_SITES = ["lengthscale", "outputscale", "noise", "constant"]
# extra sites (only used by the shared-prior cells): a second parameter of the *same* module
EXTRA_SITES = ["alpha", "period_length", "task_noises"]
# cfg["priors"] entries: [site, kind, a, b] or [site, kind, a, b, gid]; all registrations carrying the same `gid`
# (within a model and — through the `shared` dict of build() — across the members of a model list) receive ONE Prior
# *instance*; every registration still contributes its own log density to the objective.


def random_cfg(rng, family=None, n_max=10):
    family = family or rng.choice(["single"] * 5 + ["multitask"] * 2 + ["sgpr"])
    cfg = {"family": family, "seed": rng.getrandbits(30)}
    if family == "multitask":
        t = rng.randint(2, 3)
        cfg.update(n=rng.randint(1, 4), d=rng.randint(1, 2), t=t, kernel=rng.choice(["rbf", "matern1.5", "scale(rbf)"]),
                   krank=rng.randint(0, t), lrank=rng.randint(0, t), batch="none", b=0,
                   mean="constant", lik="multitask")
        if rng.random() < 0.4:
            cfg.update(batch="data", b=rng.randint(2, 3))
        elif rng.random() < 0.5:
            # task-major (non-interleaved) function distribution: covariance B (x) K_x, `interleaved=False`
            cfg.update(il=False, ilform=rng.choice(["dense", "kron"]))
    else:
        cfg.update(n=rng.randint(1, n_max), d=rng.randint(1, 3), kernel=rng.choice(KERNELS), mean=rng.choice(MEANS),
                   lik=rng.choice(LIKS), batch=rng.choice(BATCH), b=rng.randint(2, 3), t=1)
        if cfg["batch"] == "none":
            cfg["b"] = 0
        if family == "sgpr":
            # `nest`: how the InducingPointKernel (which registers the added-loss term) is reachable from the model —
            # directly, under a gpytorch module (ScaleKernel), or only through a torch container (the ModuleList of an
            # Additive / Product kernel, possibly one level deeper)
            cfg.update(lik="gaussian", m=rng.randint(1, 4), kernel=rng.choice(["rbf", "scale(rbf)", "matern2.5"]),
                       n=rng.randint(2, n_max), nest=rng.choice(["plain", "scale", "sum", "product", "scale(sum)", "sum"]))
    # priors: each site independently, with probability 1/2 (at least one in 3 of 4 cases)
    pri = []
    for site in PRIOR_SITES:
        if rng.random() < 0.5:
            kind = rng.choice(PRIOR_KINDS if site != "constant" else ["normal", "smoothedbox"])
            pri.append([site, kind, round(rng.uniform(0.3, 1.5), 3), round(rng.uniform(0.4, 2.0), 3)])
    if rng.random() < 0.25:
        pri = []
    if family == "multitask" and cfg["lrank"] == 0 and rng.random() < 0.5:
        # the built-in `noise_prior` of a rank-0 multitask likelihood sits on `task_noises` (shape [t])
        pri.append(["task_noises", rng.choice(["gamma", "lognormal", "normal"]), round(rng.uniform(0.3, 1.5), 3),
                    round(rng.uniform(0.4, 2.0), 3)])
    cfg["priors"] = pri
    return cfg


def _pos(torch, gen, shape, lo, hi):
    return lo + (hi - lo) * torch.rand(tuple(shape), generator=gen, dtype=torch.float64)


def _kernel(torch, K, gen, kind, d, pb):
    bs = torch.Size(pb)

    def base(name, ard=False):
        kw = {"batch_shape": bs}
        if ard:
            kw["ard_num_dims"] = d
        if name == "rbf":
            k = K.RBFKernel(**kw)
        elif name.startswith("matern"):
            k = K.MaternKernel(nu=float(name[6:]), **kw)
        elif name == "rq":
            k = K.RQKernel(**kw)
            k.alpha = _pos(torch, gen, (*pb, 1), 0.5, 3.0)
        elif name == "periodic":
            k = K.PeriodicKernel(**kw)
            k.period_length = _pos(torch, gen, (*pb, 1, 1), 1.0, 3.0)
        elif name == "linear":
            k = K.LinearKernel(**kw)
            k.variance = _pos(torch, gen, (*pb, 1, 1), 0.3, 1.5)
        elif name == "poly2":
            k = K.PolynomialKernel(power=2, **kw)
            k.offset = _pos(torch, gen, (*pb, 1), 0.3, 1.5)
        else:
            raise ValueError(name)
        if getattr(k, "has_lengthscale", False):
            k.lengthscale = _pos(torch, gen, (*pb, 1, d if ard else 1), 0.6, 2.0)
        return k

    def scale(inner):
        s = K.ScaleKernel(inner, batch_shape=bs)
        s.outputscale = _pos(torch, gen, tuple(pb), 0.5, 2.0)
        return s
    names = ["rbf", "matern0.5", "matern1.5", "matern2.5", "rq", "periodic", "linear", "poly2"]
    if kind in names:
        return base(kind)
    if kind.startswith("scale(") and kind[6:-1] in names:
        return scale(base(kind[6:-1]))
    if kind.startswith("ard-"):
        return base(kind[4:], ard=True)
    pick = lambda: names[int(torch.randint(0, len(names), (1,), generator=gen))]  # noqa: E731
    if kind == "sum":
        return base(pick()) + scale(base(pick()))
    if kind == "product":
        return base(names[int(torch.randint(0, 6, (1,), generator=gen))]) * base(pick())
    if kind == "scale(sum)":
        return scale(base(pick()) + base(pick()))
    raise ValueError(kind)


def _mean(torch, M, gen, kind, d, pb):
    bs = torch.Size(pb)
    if kind == "zero":
        return M.ZeroMean(batch_shape=bs)
    if kind == "constant":
        m = M.ConstantMean(batch_shape=bs)
        m.initialize(constant=_pos(torch, gen, tuple(pb), -1.0, 1.0))
        return m
    m = M.LinearMean(d, batch_shape=bs)
    m.initialize(weights=_pos(torch, gen, (*pb, d, 1), -1.0, 1.0), bias=_pos(torch, gen, (*pb, 1), -1.0, 1.0))
    return m


class World:
    pass


def _make_prior(P, kind, a, b):
    if kind == "normal":
        return P.NormalPrior(a, b)
    if kind == "gamma":
        return P.GammaPrior(1.0 + a, b)
    if kind == "lognormal":
        return P.LogNormalPrior(a - 0.8, b)
    if kind == "smoothedbox":
        return P.SmoothedBoxPrior(a, a + b, sigma=0.3)
    raise ValueError(kind)


def prior_logpdf(torch, kind, a, b, x):
    """Closed-form log densities (elementwise, differentiable) — written from the documented densities, not
    through gpytorch.priors."""
    if kind == "normal":
        return -((x - a) ** 2) / (2 * b * b) - math.log(b) - 0.5 * math.log(2 * math.pi)
    if kind == "gamma":
        al, be = 1.0 + a, b
        return al * math.log(be) + (al - 1) * torch.log(x) - be * x - math.lgamma(al)
    if kind == "lognormal":
        mu, s = a - 0.8, b
        lx = torch.log(x)
        return -((lx - mu) ** 2) / (2 * s * s) - math.log(s) - 0.5 * math.log(2 * math.pi) - lx
    if kind == "smoothedbox":
        lo, hi, sig = a, a + b, 0.3
        c, r = (lo + hi) / 2, (hi - lo) / 2
        X = ((x - c).abs() - r).clamp(min=0)
        return (-(X ** 2) / (2 * sig * sig) - math.log(sig) - 0.5 * math.log(2 * math.pi)
                - math.log(1 + (hi - lo) / (math.sqrt(2 * math.pi) * sig)))
    raise ValueError(kind)


def build(cfg, shared=None):
    shared = {} if shared is None else shared
    import torch
    import gpytorch
    K, M, L, P = gpytorch.kernels, gpytorch.means, gpytorch.likelihoods, gpytorch.priors
    gen = torch.Generator().manual_seed(cfg["seed"])
    torch.manual_seed(cfg["seed"])
    w = World()
    w.cfg = cfg
    n, d, fam = cfg["n"], cfg["d"], cfg["family"]
    b = cfg["b"]
    bs = tuple(cfg.get("bshape") or ([b] if b else []))      # batch shape (several batch dimensions: cfg["bshape"])
    pb = bs if cfg["batch"] == "model" else ()
    xb = bs if cfg["batch"] == "data" else ()
    yb = bs if cfg["batch"] in ("model", "data") else ()
    w.batch = yb
    w.il = cfg.get("il", True)
    with warnings.catch_warnings():
        warnings.simplefilter("ignore")
        train_x = _pos(torch, gen, (*xb, n, d), -1.5, 1.5)
        if fam == "multitask":
            t = cfg["t"]
            base = _kernel(torch, K, gen, cfg["kernel"], d, ())
            covar = K.MultitaskKernel(base, num_tasks=t, rank=cfg["krank"])
            with torch.no_grad():
                covar.task_covar_module.covar_factor.copy_(_pos(torch, gen, (t, cfg["krank"]), -1.0, 1.0))
            covar.task_covar_module.var = _pos(torch, gen, (t,), 0.3, 1.2)
            mean = M.MultitaskMean(M.ConstantMean(), num_tasks=t)
            for bm in mean.base_means:
                bm.initialize(constant=float(_pos(torch, gen, (1,), -1.0, 1.0)))
            lik = L.MultitaskGaussianLikelihood(num_tasks=t, rank=cfg["lrank"])
            lik.noise = _pos(torch, gen, (1,), 0.05, 0.4)
            if cfg["lrank"] == 0:
                lik.task_noises = _pos(torch, gen, (t,), 0.05, 0.4)
            else:
                with torch.no_grad():
                    lik.task_noise_covar_factor.copy_(_pos(torch, gen, (t, cfg["lrank"]), -0.6, 0.6))
            train_y = _pos(torch, gen, (*yb, n, t), -1.5, 1.5)

            il, ilform = w.il, cfg.get("ilform", "dense")

            class GP(gpytorch.models.ExactGP):
                def __init__(s):
                    super().__init__(train_x, train_y, lik)
                    s.mean_module, s.covar_module = mean, covar

                def forward(s, x):
                    if il:
                        return gpytorch.distributions.MultitaskMultivariateNormal(s.mean_module(x), s.covar_module(x))
                    # task-major layout: flat index = task * n + point, covariance B (x) K_x
                    from linear_operator.operators import KroneckerProductLinearOperator
                    from linear_operator import to_linear_operator
                    Kx = s.covar_module.data_covar_module(x).to_dense()
                    B = s.covar_module.task_covar_module.covar_matrix.to_dense()
                    if ilform == "kron":
                        cov = KroneckerProductLinearOperator(to_linear_operator(B), to_linear_operator(Kx))
                    else:
                        cov = torch.kron(B, Kx)
                    return gpytorch.distributions.MultitaskMultivariateNormal(s.mean_module(x), cov, interleaved=False)
        else:
            covar = _kernel(torch, K, gen, cfg["kernel"], d, pb)
            mean = _mean(torch, M, gen, cfg["mean"], d, pb)
            if cfg["lik"] == "gaussian":
                lik = L.GaussianLikelihood(batch_shape=torch.Size(pb))
                lik.noise = _pos(torch, gen, (*pb, 1), 0.05, 0.5)
            else:
                fixed = _pos(torch, gen, (*(yb if cfg["batch"] == "data" else ()), n), 0.05, 0.6)
                learned = cfg["lik"] == "fixed+learned"
                lik = L.FixedNoiseGaussianLikelihood(noise=fixed, learn_additional_noise=learned,
                                                     batch_shape=torch.Size(pb))
                if learned:
                    lik.second_noise = _pos(torch, gen, (*pb, 1), 0.05, 0.4)
            if fam == "sgpr":
                Z = _pos(torch, gen, (cfg["m"], d), -1.5, 1.5)
                covar = K.InducingPointKernel(covar, inducing_points=Z, likelihood=lik)
                nest = cfg.get("nest", "plain")

                def other():
                    k2 = K.LinearKernel(batch_shape=torch.Size(pb))
                    k2.variance = _pos(torch, gen, (*pb, 1, 1), 0.3, 1.0)
                    return k2
                if nest == "scale":
                    covar = K.ScaleKernel(covar, batch_shape=torch.Size(pb))
                    covar.outputscale = _pos(torch, gen, tuple(pb), 0.5, 2.0)
                elif nest == "sum":
                    covar = covar + other()                       # AdditiveKernel: kernels live in a torch ModuleList
                elif nest == "product":
                    k2 = K.RBFKernel(batch_shape=torch.Size(pb))
                    k2.lengthscale = _pos(torch, gen, (*pb, 1, 1), 1.0, 2.5)
                    covar = covar * k2                            # ProductKernel: ModuleList
                elif nest == "scale(sum)":
                    covar = K.ScaleKernel(covar + other(), batch_shape=torch.Size(pb))
                    covar.outputscale = _pos(torch, gen, tuple(pb), 0.5, 2.0)
            train_y = _pos(torch, gen, (*yb, n), -1.5, 1.5)

            class GP(gpytorch.models.ExactGP):
                def __init__(s):
                    super().__init__(train_x, train_y, lik)
                    s.mean_module, s.covar_module = mean, covar

                def forward(s, x):
                    return gpytorch.distributions.MultivariateNormal(s.mean_module(x), s.covar_module(x))
        model = GP().double()
        lik.double()
        # ---- priors (registered after construction through the public API)
        w.priors = []   # one entry per *registration*: (site, kind, a, b, getter, owner-description)
        w.prior_objs = []
        w.prior_regs = []   # (id(module), local prior name) of every registration
        for entry in cfg["priors"]:
            site, kind, a, bb = entry[:4]
            gid = entry[4] if len(entry) > 4 else None
            targets = []
            for name, mod in model.named_modules():
                if site == "lengthscale" and getattr(mod, "has_lengthscale", False) and isinstance(mod, K.Kernel):
                    targets.append((name, mod, "lengthscale"))
                elif site == "outputscale" and isinstance(mod, K.ScaleKernel):
                    targets.append((name, mod, "outputscale"))
                elif site == "noise" and type(mod).__name__ == "HomoskedasticNoise":
                    targets.append((name, mod, "noise"))
                elif site == "noise" and isinstance(mod, L.MultitaskGaussianLikelihood):
                    targets.append((name, mod, "noise"))
                elif site == "task_noises" and isinstance(mod, L.MultitaskGaussianLikelihood) and mod.rank == 0:
                    targets.append((name, mod, "task_noises"))
                elif site == "constant" and isinstance(mod, M.ConstantMean):
                    targets.append((name, mod, "constant"))
                elif site == "alpha" and isinstance(mod, K.RQKernel):
                    targets.append((name, mod, "alpha"))
                elif site == "period_length" and isinstance(mod, K.PeriodicKernel):
                    targets.append((name, mod, "period_length"))
            for name, mod, attr in targets:
                pname = f"{attr}_verif_prior"
                if pname in mod._priors:
                    continue
                if gid is not None:
                    key = (gid, kind, a, bb)
                    if key not in shared:
                        shared[key] = _make_prior(P, kind, a, bb)
                        if not cfg.get("nocast"):   # (a dtype move re-ties a transformed prior's base distribution;
                            shared[key] = shared[key].double()   #  `nocast` keeps the prior exactly as constructed)
                    prior_obj = shared[key]
                else:
                    prior_obj = _make_prior(P, kind, a, bb)
                    if not cfg.get("nocast"):
                        prior_obj = prior_obj.double()
                mod.register_prior(pname, prior_obj, attr)
                w.prior_objs.append(prior_obj)
                w.prior_regs.append((id(mod), pname))
                w.priors.append((site, kind, a, bb, (lambda m=mod, at=attr: getattr(m, at)), f"{name}.{attr}"))
        model.train()
        lik.train()
    w.model, w.lik, w.train_x, w.train_y = model, lik, train_x, train_y
    w.N = n * cfg.get("t", 1)
    return w


def noise_dense(w, call_noise=None):
    """The documented noise covariance [*batch, N, N] from the likelihood's public parameters (with autograd
    graph); independent of `marginal` / `_shaped_noise_covar`.  `call_noise`: a call-time `noise=` tensor (FixedNoise
    likelihoods: replaces the stored noise, the learned noise is still added)."""
    import torch
    import gpytorch.likelihoods as L
    lik, n = w.lik, w.cfg["n"]
    eye = torch.eye(n, dtype=torch.float64)
    if isinstance(lik, L.MultitaskGaussianLikelihood):
        t = lik.num_tasks
        if lik.rank == 0:
            D = torch.diag_embed(lik.task_noises)
        else:
            F = lik.task_noise_covar_factor
            D = F @ F.transpose(-1, -2)
        D = D + lik.noise.reshape(()) * torch.eye(t, dtype=torch.float64)
        if getattr(w, "il", True):
            return torch.kron(eye, D)     # interleaved: index = point·t + task
        return torch.kron(D, eye)         # task-major: index = task·n + point
    if isinstance(lik, L.FixedNoiseGaussianLikelihood):
        S = torch.diag_embed(lik.noise_covar.noise if call_noise is None else call_noise)
        if lik.second_noise_covar is not None:
            S = S + lik.second_noise_covar.noise.unsqueeze(-1) * eye
        return S
    if call_noise is not None:            # GaussianLikelihood: a call-time noise tensor is used directly
        return torch.diag_embed(call_noise)
    return lik.noise.unsqueeze(-1) * eye


def registered_added_loss_terms(model):
    """Every registered added-loss term, found by walking torch's module tree (`model.modules()`) and reading each
    module's own registry — independent of gpytorch's `named_added_loss_terms` recursion."""
    seen, out = set(), []
    for mod in model.modules():
        reg = getattr(mod, "_added_loss_terms", None)
        if reg:
            for term in reg.values():
                if term is not None and id(term) not in seen:
                    seen.add(id(term))
                    out.append(term)
    return out

"""C06, round-3 extensions (private helper of props/c06.py).

 H  HISTORY on one kernel object: a lazily evaluated K is evaluated / sliced / transposed / its diagonal taken INSIDE each
    relevant global setting (debug on/off, lazily_evaluate_kernels on/off, trace_mode on/off); afterwards the kernel's
    attributes (every `active_dims` buffer, every `batch_shape`, the state dict, the training flag) must be unchanged and
    every later use of the SAME object (lazy, eager, K(x2,x1), diag=True, under debug(False) again) must equal what a
    freshly built kernel with the same parameters gives.
 I  WRAPPERS WITHOUT A BATCH SHAPE OF THEIR OWN around batched inner kernels whose parameters differ across the batch
    (Multitask / AdditiveStructure / ProductStructure / Scale / Scale(Scale) / Additive / Product / Scale(Additive) /
    Multitask(Scale) / LCM): `K[idx]` for every batch index form (all ints, slices, index tensors, mixed with row / column
    forms) and `kernel[idx](x1, x2)`, lazily_evaluate_kernels on and off.
 J  `last_dim_is_batch=True` under every lazy operation: `.mT`, `.transpose(-1, -2)`, `[idx]` (rows / columns / the
    dimension axis / batch), `.diagonal()`, `diag=True`, `.repeat`, compositions (`K.mT[idx]`, `K[idx].mT`, `K.mT.mT`),
    against the dense evaluation; the dense `last_dim_is_batch` tensor itself against the per-column oracle.
"""
import itertools
import warnings


def _M():
    from props import c06 as M
    return M


# ------------------------------------------------------------------ H: history / settings

def _snapshot(kernel):
    import torch
    snap = {"active_dims": [], "batch_shape": [], "training": [], "state": {}}
    for nm, m in kernel.named_modules():
        if hasattr(m, "active_dims"):
            ad = m.active_dims
            snap["active_dims"].append((nm, None if ad is None else [int(v) for v in ad.reshape(-1).tolist()]))
        if hasattr(m, "batch_shape"):
            try:
                snap["batch_shape"].append((nm, tuple(m.batch_shape)))
            except Exception as e:           # noqa: BLE001
                snap["batch_shape"].append((nm, f"raises {type(e).__name__}"))
        snap["training"].append((nm, bool(m.training)))
    for k, v in kernel.state_dict().items():
        snap["state"][k] = v.detach().clone() if torch.is_tensor(v) else v
    return snap


def _snap_diff(a, b):
    import torch
    out = []
    for key in ("active_dims", "batch_shape", "training"):
        if a[key] != b[key]:
            ch = [f"{n0 or '<kernel>'}: {v0} -> {v1}" for (n0, v0), (_, v1) in zip(a[key], b[key]) if v0 != v1]
            out.append((key, "; ".join(ch)[:200]))
    if set(a["state"]) != set(b["state"]):
        out.append(("state_dict", f"keys changed: {sorted(set(a['state']) ^ set(b['state']))}"))
    else:
        for k in a["state"]:
            va, vb = a["state"][k], b["state"][k]
            if torch.is_tensor(va) and (va.shape != vb.shape or not torch.equal(va, vb)):
                out.append(("state_dict", f"{k} changed"))
                break
    return out


SETTINGS = ["debug=False", "debug=True", "lazily_evaluate_kernels=False", "lazily_evaluate_kernels=True", "trace_mode=True",
            "debug=False+lazily_evaluate_kernels=False"]


def _setting_ctx(name):
    import contextlib
    import gpytorch
    st = contextlib.ExitStack()
    for part in name.split("+"):
        k, v = part.split("=")
        st.enter_context(getattr(gpytorch.settings, k)(v == "True"))
    return st


def part_H(ctx, seedval, only=None):
    import torch
    import gpytorch
    M = _M()
    names = list(M.kernel_factories()) + list(WRAPPERS)
    n1, n2 = 4, 3
    for name in names:
        for kb in ((), (2,)):
            if name in WRAPPERS and not kb:
                continue
            t = M.MULTI_T.get(name, 1)
            if t > 1 and kb:
                continue                                  # batched MultitaskKernel with its own batch shape: C06 part B note
            for sname in SETTINGS:
                if only is not None and (name, list(kb), sname) != tuple(only):
                    continue
                g = M._gen(seedval, f"H:{name}:{kb}")
                x1, x2 = M._randn(g, n1, M.D_IN), M._randn(g, n2, M.D_IN)
                mk = (lambda: make_wrapper(name, kb, seedval)) if name in WRAPPERS else (lambda: M.make_kernel(name, kb, seedval))
                kernel, fresh = mk(), mk()
                base = {"part": "history", "kernel": name, "kernel_batch": list(kb), "setting": sname}
                tag = f"H|{name}|{kb}|{sname}"
                try:
                    with torch.no_grad(), warnings.catch_warnings():
                        warnings.simplefilter("ignore")
                        with gpytorch.settings.lazily_evaluate_kernels(False):
                            ref = M._dense(fresh(x1, x2)).detach()
                            ref11 = M._dense(fresh(x1, x1)).detach()
                except Exception:
                    ctx.count("H_cells_rejected")
                    continue
                snap0 = _snapshot(kernel)

                def cmp(what, fn, want, phase):
                    ctx.case(f"{tag}|{phase}|{what}")
                    try:
                        with torch.no_grad(), warnings.catch_warnings():
                            warnings.simplefilter("ignore")
                            got = M._dense(fn()).detach()
                    except Exception as e:
                        ctx.fail(f"history:{phase}:raises", f"{name} kernel batch {kb}, setting {sname}: {what} ({phase} the "
                                 f"evaluation under the setting) raises {type(e).__name__}: {str(e)[:140]}",
                                 dict(base, what=what, phase=phase))
                        return
                    if got.shape != want.shape and got.numel() == want.numel():
                        try:
                            got = got.expand(want.shape)
                        except RuntimeError:
                            pass
                    if not M._close(got, want):
                        ctx.fail(f"history:{phase}-results", f"{name} kernel batch {kb}, setting {sname}: {what} on the same kernel "
                                 f"object {phase} an evaluation under the setting differs from a freshly built kernel with the same "
                                 f"parameters: {M._maxerr(got, want)}", dict(base, what=what, phase=phase))
                rs, cs = slice(1, None), slice(None, 2 * t)
                # ---- step 1: inside the setting
                with _setting_ctx(sname):
                    cmp("kernel(x1,x2).to_dense()", lambda: kernel(x1, x2), ref, "during")
                    cmp("kernel(x1,x2)[..., 1:, :k].to_dense()", lambda: kernel(x1, x2)[..., rs, cs], ref[..., rs, cs], "during")
                    cmp("kernel(x1,x2).mT", lambda: kernel(x1, x2).mT, ref.mT, "during")
                    cmp("kernel(x1).diagonal()", lambda: kernel(x1).diagonal(dim1=-1, dim2=-2), ref11.diagonal(dim1=-1, dim2=-2), "during")
                    cmp("kernel(x1, diag=True)", lambda: kernel(x1, diag=True), ref11.diagonal(dim1=-1, dim2=-2), "during")
                # ---- step 2: the attributes of the object
                ctx.case(f"{tag}|attributes")
                for key, what in _snap_diff(snap0, _snapshot(kernel)):
                    ctx.fail(f"history:attributes:{key}", f"{name} kernel batch {kb}: evaluating kernel(x1,x2) under {sname} changed "
                             f"the kernel object: {key}: {what}", dict(base, what=key, phase="attributes"))
                # ---- step 3: the same object, used again
                cmp("kernel(x1,x2).to_dense()", lambda: kernel(x1, x2), ref, "after")
                cmp("kernel(x2,x1).to_dense()", lambda: kernel(x2, x1), ref.mT, "after")
                cmp("kernel(x1, diag=True)", lambda: kernel(x1, diag=True), ref11.diagonal(dim1=-1, dim2=-2), "after")
                cmp("kernel(x1).diagonal()", lambda: kernel(x1).diagonal(dim1=-1, dim2=-2), ref11.diagonal(dim1=-1, dim2=-2), "after")
                with gpytorch.settings.lazily_evaluate_kernels(False):
                    cmp("eager kernel(x1,x2)", lambda: kernel(x1, x2), ref, "after")
                with gpytorch.settings.debug(False):
                    cmp("kernel(x1,x2).to_dense() under debug(False)", lambda: kernel(x1, x2), ref, "after")
                for key, what in _snap_diff(snap0, _snapshot(kernel)):
                    ctx.fail(f"history:attributes:{key}", f"{name} kernel batch {kb}: after the later uses following {sname} the kernel "
                             f"object has changed: {key}: {what}", dict(base, what=key, phase="attributes-late"))


# ------------------------------------------------------------------ I: wrappers without a batch shape of their own

WRAPPERS = ("w_multitask", "w_addstruct", "w_prodstruct", "w_scale", "w_scale_scale", "w_sum", "w_prod", "w_scale_sum",
            "w_multitask_scale", "w_lcm")
WRAP_T = {"w_multitask": 2, "w_multitask_scale": 2, "w_lcm": 2}


def make_wrapper(name, kb, seedval):
    """the wrapper gets NO batch_shape; only the inner kernels are batched (parameters differ across the batch)"""
    import torch
    from gpytorch import kernels as K
    M = _M()
    B = torch.Size(kb)
    inner = K.RBFKernel(batch_shape=B)
    if name == "w_multitask":
        k = K.MultitaskKernel(inner, num_tasks=2, rank=1)
    elif name == "w_addstruct":
        k = K.AdditiveStructureKernel(inner, num_dims=M.D_IN)
    elif name == "w_prodstruct":
        k = K.ProductStructureKernel(inner, num_dims=M.D_IN)
    elif name == "w_scale":
        k = K.ScaleKernel(inner)
    elif name == "w_scale_scale":
        k = K.ScaleKernel(K.ScaleKernel(inner))
    elif name == "w_sum":
        k = K.AdditiveKernel(inner, K.MaternKernel(nu=1.5, batch_shape=B))
    elif name == "w_prod":
        k = K.ProductKernel(inner, K.LinearKernel(batch_shape=B))
    elif name == "w_scale_sum":
        k = K.ScaleKernel(K.AdditiveKernel(inner, K.MaternKernel(nu=1.5, batch_shape=B)))
    elif name == "w_multitask_scale":
        k = K.MultitaskKernel(K.ScaleKernel(inner), num_tasks=2, rank=1)
    elif name == "w_lcm":
        k = K.LCMKernel([inner, K.MaternKernel(nu=2.5, batch_shape=B)], num_tasks=2, rank=1)
    else:
        raise ValueError(name)
    g = M._gen(seedval, f"wparams:{name}:{kb}")
    with torch.no_grad():
        for p in k.parameters():
            p.copy_(0.6 * torch.randn(p.shape, generator=g, dtype=torch.float64))
    k.double()
    k.eval()
    return k


def _batch_dim_forms(n):
    forms = [("I", i) for i in range(-n, n)]
    forms += [("S", None, None, None), ("S", 1, None, None), ("S", None, 1, None), ("S", None, None, 2), ("S", -1, None, None)]
    forms += [("T", tuple(range(n - 1, -1, -1))), ("T", (n - 1, n - 1, 0)), ("T", (0,))]
    return forms


def part_I(ctx, seedval, only=None):
    import torch
    import gpytorch
    M = _M()
    rng = ctx.rng("I")
    for name in WRAPPERS:
        t = WRAP_T.get(name, 1)
        for kb in ((2,), (2, 3)):
            for bx in ((), kb, (1,) * len(kb)):
                if ctx.quick and only is None and bx and bx != kb and (WRAPPERS.index(name) + len(kb)) % 2:
                    continue
                if only is not None and (name, list(kb), list(bx)) != tuple(only):
                    continue
                n1, n2 = 4, 3
                kernel = make_wrapper(name, kb, seedval)
                g = M._gen(seedval, f"I:{name}:{kb}:{bx}")
                x1, x2 = M._randn(g, *bx, n1, M.D_IN), M._randn(g, *bx, n2, M.D_IN)
                base = {"part": "wrapper-batch", "kernel": name, "kernel_batch": list(kb), "x_batch": list(bx)}
                tag = f"I|{name}|{kb}|{bx}"
                try:
                    with torch.no_grad(), gpytorch.settings.lazily_evaluate_kernels(False), warnings.catch_warnings():
                        warnings.simplefilter("ignore")
                        D = M._dense(kernel(x1, x2)).detach()
                except Exception as e:
                    ctx.case(f"{tag}|kernel-call")
                    ctx.fail("wrapper-batch:kernel-call:raises", f"{name} (no batch_shape of its own) around kernels with batch {kb}, "
                             f"inputs batch {bx}: kernel(x1, x2) raises {type(e).__name__}: {str(e)[:140]}", dict(base, what="call"))
                    continue
                if tuple(D.shape[:-2]) != tuple(kb):
                    ctx.case(f"{tag}|shape")
                    ctx.fail("wrapper-batch:shape", f"{name} around kernels with batch {kb}: kernel(x1, x2) has shape {tuple(D.shape)}",
                             dict(base, what="shape"))
                    continue
                # batch index forms: every form of each batch dimension against a covering set on the others
                per_dim = [_batch_dim_forms(b) for b in kb]
                cover = [("S", None, None, None), ("I", 1), ("T", (1, 0))]
                idxs = []
                for d_ in range(len(kb)):
                    for f in per_dim[d_]:
                        for others in itertools.product(*[cover if e != d_ else [None] for e in range(len(kb))]):
                            it = tuple(f if o is None else o for o in others)
                            if sum(1 for i in it if i[0] == "T") > 1:
                                continue
                            idxs.append(it)
                idxs = list(dict.fromkeys(idxs))
                if len(kb) > 1 and ctx.quick:
                    idxs = idxs[:len(per_dim[0])] + rng.sample(idxs[len(per_dim[0]):], min(10, len(idxs) - len(per_dim[0])))
                rowcol = [(), (("S", 1, None, None), ("S", None, 2 * t, None))]
                if t == 1 and not ctx.quick:
                    rowcol += [(("I", 0), ("S", None, None, None)), (("S", None, None, 2), ("T", (2, 0)))]
                for lazy in (True, False):
                    for bi in (idxs if lazy or not ctx.quick else idxs[::2]):
                        for rc in (rowcol if lazy else rowcol[:1 if ctx.quick else 2]):
                            if rc and any(i[0] == "T" for i in bi) and any(i[0] == "T" for i in rc):
                                continue
                            idx = tuple(bi) + tuple(rc)
                            pidx = tuple(M.py_item(i) for i in idx)
                            try:
                                want = D[pidx]
                            except Exception:
                                continue
                            if 0 in want.shape:
                                continue
                            ctx.case(f"{tag}|lazy={int(lazy)}|K{M.enc_idx(idx)}", nontrivial=want.numel() < D.numel())
                            rep = dict(base, what="getitem", lazy=lazy, index_text=M.show_idx(idx))
                            try:
                                with torch.no_grad(), gpytorch.settings.lazily_evaluate_kernels(lazy), warnings.catch_warnings():
                                    warnings.simplefilter("ignore")
                                    got = M._dense(kernel(x1, x2)[pidx]).detach()
                            except Exception as e:
                                ctx.fail("wrapper-batch:getitem:raises", f"{name} (no batch_shape of its own) around kernels with batch {kb}, "
                                         f"inputs batch {bx}, lazy={lazy}: kernel(x1,x2){M.show_idx(idx)} raises {type(e).__name__}: "
                                         f"{str(e)[:120]} although the dense tensor accepts the index", rep)
                                continue
                            if not M._close(got, want):
                                ctx.fail("wrapper-batch:getitem", f"{name} (no batch_shape of its own) around kernels with batch {kb} whose "
                                         f"parameters differ across the batch, inputs batch {bx}, lazy={lazy}: kernel(x1,x2){M.show_idx(idx)}"
                                         f".to_dense() vs kernel(x1,x2).to_dense(){M.show_idx(idx)}: {M._maxerr(got, want)}", rep)
                # kernel[idx](x1[idx], x2[idx])
                x1e = x1.expand(*kb, n1, M.D_IN)
                x2e = x2.expand(*kb, n2, M.D_IN)
                for bi in idxs:
                    pidx = tuple(M.py_item(i) for i in bi)
                    ctx.case(f"{tag}|kernel{M.enc_idx(bi)}")
                    rep = dict(base, what="kernel-getitem", index_text=M.show_idx(bi))
                    try:
                        with torch.no_grad(), gpytorch.settings.lazily_evaluate_kernels(False), warnings.catch_warnings():
                            warnings.simplefilter("ignore")
                            want = D[pidx]
                            got = M._dense(kernel[pidx](x1e[pidx], x2e[pidx])).detach()
                    except Exception as e:
                        ctx.fail("wrapper-batch:kernel-getitem:raises", f"{name} around kernels with batch {kb}: kernel{M.show_idx(bi)}(x1"
                                 f"{M.show_idx(bi)}, x2{M.show_idx(bi)}) raises {type(e).__name__}: {str(e)[:120]}", rep)
                        continue
                    if not M._close(got, want):
                        ctx.fail("wrapper-batch:kernel-getitem", f"{name} (no batch_shape of its own) around kernels with batch {kb}: "
                                 f"kernel{M.show_idx(bi)}(x1{M.show_idx(bi)}, x2{M.show_idx(bi)}) differs from slice {M.show_idx(bi)} of the "
                                 f"batched result: {M._maxerr(got, want)}", rep)


# ------------------------------------------------------------------ J: last_dim_is_batch=True under every lazy operation

def ldb_factories():
    import torch
    from gpytorch import kernels as K
    M = _M()
    D = M.D_IN

    def B(b):
        return torch.Size(b)
    return {
        "rbf": lambda b: K.RBFKernel(batch_shape=B(b)),
        "rbf_ard": lambda b: K.RBFKernel(ard_num_dims=D, batch_shape=B(b)),
        "matern15": lambda b: K.MaternKernel(nu=1.5, batch_shape=B(b)),
        "matern25_ard": lambda b: K.MaternKernel(nu=2.5, ard_num_dims=D, batch_shape=B(b)),
        "rq": lambda b: K.RQKernel(batch_shape=B(b)),
        "rq_ard": lambda b: K.RQKernel(ard_num_dims=D, batch_shape=B(b)),
        "periodic": lambda b: K.PeriodicKernel(batch_shape=B(b)),
        "cosine": lambda b: K.CosineKernel(batch_shape=B(b)),
        "linear": lambda b: K.LinearKernel(batch_shape=B(b)),
        "pp2": lambda b: K.PiecewisePolynomialKernel(q=2, batch_shape=B(b)),
        "scale_rbf": lambda b: K.ScaleKernel(K.RBFKernel(batch_shape=B(b)), batch_shape=B(b)),
        "scale_matern_ard": lambda b: K.ScaleKernel(K.MaternKernel(nu=1.5, ard_num_dims=D, batch_shape=B(b)), batch_shape=B(b)),
        "sum": lambda b: K.RBFKernel(batch_shape=B(b)) + K.MaternKernel(nu=0.5, batch_shape=B(b)),
        "prod": lambda b: K.RBFKernel(batch_shape=B(b)) * K.MaternKernel(nu=0.5, batch_shape=B(b)),
    }


LDB_NON_ARD = ("rbf", "matern15", "rq", "periodic", "cosine", "scale_rbf", "sum", "prod")


def part_J(ctx, seedval, only=None):
    import torch
    import gpytorch
    M = _M()
    D = M.D_IN
    n1, n2 = 4, 3
    for name, fac in ldb_factories().items():
        for kb, bx in (((), ()), ((), (2,)), ((2,), ()), ((2,), (2,)), ((), (2, 2))):
            if only is not None and (name, list(kb), list(bx)) != tuple(only):
                continue
            kernel = fac(kb)
            gp = M._gen(seedval, f"J:params:{name}:{kb}")
            with torch.no_grad():
                for p in kernel.parameters():
                    p.copy_(0.6 * torch.randn(p.shape, generator=gp, dtype=torch.float64))
            kernel.double()
            kernel.eval()
            g = M._gen(seedval, f"J:{name}:{kb}:{bx}")
            x1, x2 = M._randn(g, *bx, n1, D), M._randn(g, *bx, n2, D)
            base = {"part": "ldb", "kernel": name, "kernel_batch": list(kb), "x_batch": list(bx)}
            tag = f"J|{name}|{kb}|{bx}"
            bs = tuple(torch.broadcast_shapes(torch.Size(kb), torch.Size(bx)))

            def K_(a=x1, b=x2, **kw):
                return kernel(a, b, last_dim_is_batch=True, **kw)
            try:
                with torch.no_grad(), gpytorch.settings.lazily_evaluate_kernels(False), warnings.catch_warnings():
                    warnings.simplefilter("ignore")
                    Dn = M._dense(K_()).detach()
                    D11 = M._dense(K_(x1, x1)).detach()
            except Exception as e:
                ctx.count("J_cells_rejected_by_kernel")
                ctx.notes.setdefault("J_cells_rejected", {})[f"{name}:{kb}:{bx}"] = f"{type(e).__name__}: {str(e)[:100]}"
                continue
            if tuple(Dn.shape) != bs + (D, n1, n2):
                ctx.case(f"{tag}|shape")
                ctx.fail("ldb:shape", f"{name} kernel batch {kb}, inputs batch {bx}: kernel(x1, x2, last_dim_is_batch=True) has shape "
                         f"{tuple(Dn.shape)} instead of {bs + (D, n1, n2)}", dict(base, what="shape"))
                continue
            # the dense tensor itself: one 1-d kernel per input column (kernels without per-dimension parameters)
            if name in LDB_NON_ARD:
                ctx.case(f"{tag}|per-column-oracle")
                try:
                    with torch.no_grad(), gpytorch.settings.lazily_evaluate_kernels(False), warnings.catch_warnings():
                        warnings.simplefilter("ignore")
                        ref = torch.stack([M._dense(kernel(x1[..., j:j + 1], x2[..., j:j + 1])).detach() for j in range(D)], dim=-3)
                    if not M._close(Dn, ref.expand_as(Dn)):
                        ctx.fail("ldb:per-column", f"{name} kernel batch {kb}, inputs batch {bx}: kernel(x1, x2, last_dim_is_batch=True) "
                                 f"differs from the stack of the 1-d kernels of the input columns: {M._maxerr(Dn, ref.expand_as(Dn))}",
                                 dict(base, what="per-column"))
                except Exception as e:
                    ctx.count("J_oracle_rejected")
            nb = len(bs)
            E = Ellipsis
            t20 = torch.tensor([2, 0])
            ops = [
                ("to_dense", lambda K: K, lambda T: T),
                (".mT", lambda K: K.mT, lambda T: T.mT),
                (".transpose(-1,-2)", lambda K: K.transpose(-1, -2), lambda T: T.transpose(-1, -2)),
                (".mT.mT", lambda K: K.mT.mT, lambda T: T),
                ("[..., 1:, :2]", lambda K: K[E, 1:, :2], lambda T: T[E, 1:, :2]),
                ("[..., ::2, 1]", lambda K: K[E, ::2, 1], lambda T: T[E, ::2, 1]),
                ("[..., [2,0], :]", lambda K: K[E, t20, :], lambda T: T[E, t20, :]),
                (".mT[..., 1:, :2]", lambda K: K.mT[E, 1:, :2], lambda T: T.mT[E, 1:, :2]),
                ("[..., :2, 1:].mT", lambda K: K[E, :2, 1:].mT, lambda T: T[E, :2, 1:].mT),
                ("[..., 1:, :, :] (dimension axis, slice)", lambda K: K[E, 1:, :, :], lambda T: T[E, 1:, :, :]),
                ("[..., 1, :, :] (dimension axis, int)", lambda K: K[E, 1, :, :], lambda T: T[E, 1, :, :]),
                ("[..., -1, 1:, :] (dimension axis, int)", lambda K: K[E, -1, 1:, :], lambda T: T[E, -1, 1:, :]),
                ("[..., [2,0], :, :] (dimension axis, index tensor)", lambda K: K[E, t20, :, :], lambda T: T[E, t20, :, :]),
                ("[..., ::2, 1:, :2] (dimension axis, step)", lambda K: K[E, ::2, 1:, :2], lambda T: T[E, ::2, 1:, :2]),
                (".diagonal() of K(x1,x1)", None, None),
                ("diag=True", None, None),
            ]
            if nb:
                ops += [
                    ("[0] (batch int)", lambda K: K[0], lambda T: T[0]),
                    ("[-1] (batch int)", lambda K: K[-1], lambda T: T[-1]),
                    ("[1:] (batch slice)", lambda K: K[1:], lambda T: T[1:]),
                    ("[[1,0]] (batch index tensor)", lambda K: K[torch.tensor([1, 0])], lambda T: T[torch.tensor([1, 0])]),
                    ("[1, ..., 1:, :2]", lambda K: K[1, E, 1:, :2], lambda T: T[1, E, 1:, :2]),
                    ("[1].mT", lambda K: K[1].mT, lambda T: T[1].mT),
                    ("[1, 2] (batch int, dimension int)" if nb == 1 else "[1, 0] (batch ints)", lambda K: K[1, 0], lambda T: T[1, 0]),
                ]
            reps = [[1] * (nb + 1) + [2, 1], [1] * (nb + 1) + [1, 3]]
            for lazy in (True, False):
                for what, fk, ft in ops:
                    key_what = what.split(" (")[0]
                    cls = ("dimension-axis" if "dimension axis" in what or "dimension int" in what else
                           "batch-index" if "batch" in what or what.startswith("[1") else
                           "transpose" if "mT" in what or "transpose" in what else
                           "diag" if "diag" in what else "rows-cols" if what.startswith("[") else "dense")
                    ctx.case(f"{tag}|lazy={int(lazy)}|{what}")
                    rep = dict(base, what=what, lazy=lazy)
                    try:
                        with torch.no_grad(), gpytorch.settings.lazily_evaluate_kernels(lazy), warnings.catch_warnings():
                            warnings.simplefilter("ignore")
                            if what.startswith(".diagonal()"):
                                got = M._dense(K_(x1, x1).diagonal(dim1=-1, dim2=-2)).detach()
                                want = D11.diagonal(dim1=-1, dim2=-2)
                            elif what == "diag=True":
                                got = M._dense(K_(x1, x1, diag=True)).detach()
                                want = D11.diagonal(dim1=-1, dim2=-2)
                            else:
                                want = ft(Dn)
                                got = M._dense(fk(K_())).detach()
                    except Exception as e:
                        ctx.fail(f"ldb:{cls}:raises", f"{name} kernel batch {kb}, inputs batch {bx}, lazy={lazy}: "
                                 f"kernel(x1,x2,last_dim_is_batch=True){key_what} raises {type(e).__name__}: {str(e)[:120]} although the "
                                 f"dense tensor of shape {tuple(Dn.shape)} supports it", rep)
                        continue
                    if not M._close(got, want):
                        ctx.fail(f"ldb:{cls}", f"{name} kernel batch {kb}, inputs batch {bx}, lazy={lazy}: "
                                 f"kernel(x1,x2,last_dim_is_batch=True){key_what} differs from the same operation on the dense "
                                 f"(..., d, n, m) tensor: {M._maxerr(got, want)}", rep)
                # K(x1,x2).mT == K(x2,x1)
                ctx.case(f"{tag}|lazy={int(lazy)}|swap")
                try:
                    with torch.no_grad(), gpytorch.settings.lazily_evaluate_kernels(lazy), warnings.catch_warnings():
                        warnings.simplefilter("ignore")
                        sw = M._dense(K_(x2, x1)).detach()
                    if not M._close(sw, Dn.mT):
                        ctx.fail("ldb:swap", f"{name} kernel batch {kb}, inputs batch {bx}, lazy={lazy}: kernel(x2,x1,last_dim_is_batch=True) "
                                 f"differs from kernel(x1,x2,last_dim_is_batch=True) transposed: {M._maxerr(sw, Dn.mT)}",
                                 dict(base, what="swap", lazy=lazy))
                except Exception as e:
                    ctx.fail("ldb:swap:raises", f"{name} kernel batch {kb}, inputs batch {bx}, lazy={lazy}: kernel(x2,x1,"
                             f"last_dim_is_batch=True) raises {type(e).__name__}: {str(e)[:120]}", dict(base, what="swap", lazy=lazy))
                # repeat: linear_operator's own conventions decide which arguments are accepted (counted when rejected)
                for r_ in reps:
                    ctx.case(f"{tag}|lazy={int(lazy)}|repeat{r_}")
                    try:
                        with torch.no_grad(), gpytorch.settings.lazily_evaluate_kernels(lazy), warnings.catch_warnings():
                            warnings.simplefilter("ignore")
                            got = M._dense(K_().repeat(*r_)).detach()
                    except Exception as e:
                        ctx.count("J_repeat_rejected")
                        ctx.notes.setdefault("J_rejections", {})[f"repeat:lazy={lazy}:{type(e).__name__}"] = str(e)[:80]
                        continue
                    want = Dn.repeat(*r_)
                    if not M._close(got, want):
                        ctx.fail("ldb:repeat", f"{name} kernel batch {kb}, inputs batch {bx}, lazy={lazy}: "
                                 f"kernel(x1,x2,last_dim_is_batch=True).repeat{tuple(r_)} differs from the repeated dense tensor: "
                                 f"{M._maxerr(got, want)}", dict(base, what=f"repeat{r_}", lazy=lazy))

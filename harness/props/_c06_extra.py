"""C06, round-3 extensions (private helper of props/c06.py).

 H  HISTORY on one kernel object: a lazily evaluated K is evaluated / sliced / transposed / its diagonal taken INSIDE each
    relevant global setting (debug on/off, lazily_evaluate_kernels on/off, trace_mode on/off); afterwards the kernel's
    attributes (every `active_dims` buffer, every `batch_shape`, the state dict, the training flag) must be unchanged and
    every later use of the SAME object (lazy, eager, K(x2,x1), diag=True, under debug(False) again) must equal what a
    freshly built kernel with the same parameters gives.
 I  WRAPPERS WITHOUT A BATCH SHAPE OF THEIR OWN around batched inner kernels whose parameters differ across the batch
    (Multitask / AdditiveStructure / ProductStructure / Scale / Scale(Scale) / Additive / Product / Scale(Additive) /
    Multitask(Scale) / LCM): `K[idx]` for every batch index form (all ints, slices, index tensors, mixed with row / column
    forms) and `kernel[idx](x1, x2)`, lazily_evaluate_kernels on and off.
 J  `last_dim_is_batch=True` under every lazy operation: `.mT`, `.transpose(-1, -2)`, `[idx]` (rows / columns / the
    dimension axis / batch), `.diagonal()`, `diag=True`, `.repeat`, compositions (`K.mT[idx]`, `K[idx].mT`, `K.mT.mT`),
    against the dense evaluation; the dense `last_dim_is_batch` tensor itself against the per-column oracle.
"""
import itertools
import warnings


def _M():
    from props import c06 as M
    return M


# ------------------------------------------------------------------ H: history / settings

def _snapshot(kernel):
    import torch
    snap = {"active_dims": [], "batch_shape": [], "training": [], "state": {}}
    for nm, m in kernel.named_modules():
        if hasattr(m, "active_dims"):
            ad = m.active_dims
            snap["active_dims"].append((nm, None if ad is None else [int(v) for v in ad.reshape(-1).tolist()]))
        if hasattr(m, "batch_shape"):
            try:
                snap["batch_shape"].append((nm, tuple(m.batch_shape)))
            except Exception as e:           # noqa: BLE001
                snap["batch_shape"].append((nm, f"raises {type(e).__name__}"))
        snap["training"].append((nm, bool(m.training)))
    for k, v in kernel.state_dict().items():
        snap["state"][k] = v.detach().clone() if torch.is_tensor(v) else v
    return snap


def _snap_diff(a, b):
    import torch
    out = []
    for key in ("active_dims", "batch_shape", "training"):
        if a[key] != b[key]:
            ch = [f"{n0 or '<kernel>'}: {v0} -> {v1}" for (n0, v0), (_, v1) in zip(a[key], b[key]) if v0 != v1]
            out.append((key, "; ".join(ch)[:200]))
    if set(a["state"]) != set(b["state"]):
        out.append(("state_dict", f"keys changed: {sorted(set(a['state']) ^ set(b['state']))}"))
    else:
        for k in a["state"]:
            va, vb = a["state"][k], b["state"][k]
            if torch.is_tensor(va) and (va.shape != vb.shape or not torch.equal(va, vb)):
                out.append(("state_dict", f"{k} changed"))
                break
    return out


SETTINGS = ["debug=False", "debug=True", "lazily_evaluate_kernels=False", "lazily_evaluate_kernels=True", "trace_mode=True",
            "debug=False+lazily_evaluate_kernels=False"]


def _setting_ctx(name):
    import contextlib
    import gpytorch
    st = contextlib.ExitStack()
    for part in name.split("+"):
        k, v = part.split("=")
        st.enter_context(getattr(gpytorch.settings, k)(v == "True"))
    return st


def part_H(ctx, seedval, only=None):
    import torch
    import gpytorch
    M = _M()
    names = list(M.kernel_factories()) + list(WRAPPERS)
    n1, n2 = 4, 3
    for name in names:
        for kb in ((), (2,)):
            if name in WRAPPERS and not kb:
                continue
            t = M.MULTI_T.get(name, 1)
            if t > 1 and kb:
                continue                                  # batched MultitaskKernel with its own batch shape: C06 part B note
            for sname in SETTINGS:
                if only is not None and (name, list(kb), sname) != tuple(only):
                    continue
                g = M._gen(seedval, f"H:{name}:{kb}")
                x1, x2 = M._randn(g, n1, M.D_IN), M._randn(g, n2, M.D_IN)
                mk = (lambda: make_wrapper(name, kb, seedval)) if name in WRAPPERS else (lambda: M.make_kernel(name, kb, seedval))
                kernel, fresh = mk(), mk()
                base = {"part": "history", "kernel": name, "kernel_batch": list(kb), "setting": sname}
                tag = f"H|{name}|{kb}|{sname}"
                try:
                    with torch.no_grad(), warnings.catch_warnings():
                        warnings.simplefilter("ignore")
                        with gpytorch.settings.lazily_evaluate_kernels(False):
                            ref = M._dense(fresh(x1, x2)).detach()
                            ref11 = M._dense(fresh(x1, x1)).detach()
                except Exception:
                    ctx.count("H_cells_rejected")
                    continue
                snap0 = _snapshot(kernel)

                def cmp(what, fn, want, phase):
                    ctx.case(f"{tag}|{phase}|{what}")
                    try:
                        with torch.no_grad(), warnings.catch_warnings():
                            warnings.simplefilter("ignore")
                            got = M._dense(fn()).detach()
                    except Exception as e:
                        ctx.fail(f"history:{phase}:raises", f"{name} kernel batch {kb}, setting {sname}: {what} ({phase} the "
                                 f"evaluation under the setting) raises {type(e).__name__}: {str(e)[:140]}",
                                 dict(base, what=what, phase=phase))
                        return
                    if got.shape != want.shape and got.numel() == want.numel():
                        try:
                            got = got.expand(want.shape)
                        except RuntimeError:
                            pass
                    if not M._close(got, want):
                        ctx.fail(f"history:{phase}-results", f"{name} kernel batch {kb}, setting {sname}: {what} on the same kernel "
                                 f"object {phase} an evaluation under the setting differs from a freshly built kernel with the same "
                                 f"parameters: {M._maxerr(got, want)}", dict(base, what=what, phase=phase))
                rs, cs = slice(1, None), slice(None, 2 * t)
                # ---- step 1: inside the setting
                with _setting_ctx(sname):
                    cmp("kernel(x1,x2).to_dense()", lambda: kernel(x1, x2), ref, "during")
                    cmp("kernel(x1,x2)[..., 1:, :k].to_dense()", lambda: kernel(x1, x2)[..., rs, cs], ref[..., rs, cs], "during")
                    cmp("kernel(x1,x2).mT", lambda: kernel(x1, x2).mT, ref.mT, "during")
                    cmp("kernel(x1).diagonal()", lambda: kernel(x1).diagonal(dim1=-1, dim2=-2), ref11.diagonal(dim1=-1, dim2=-2), "during")
                    cmp("kernel(x1, diag=True)", lambda: kernel(x1, diag=True), ref11.diagonal(dim1=-1, dim2=-2), "during")
                # ---- step 2: the attributes of the object
                ctx.case(f"{tag}|attributes")
                for key, what in _snap_diff(snap0, _snapshot(kernel)):
                    ctx.fail(f"history:attributes:{key}", f"{name} kernel batch {kb}: evaluating kernel(x1,x2) under {sname} changed "
                             f"the kernel object: {key}: {what}", dict(base, what=key, phase="attributes"))
                # ---- step 3: the same object, used again
                cmp("kernel(x1,x2).to_dense()", lambda: kernel(x1, x2), ref, "after")
                cmp("kernel(x2,x1).to_dense()", lambda: kernel(x2, x1), ref.mT, "after")
                cmp("kernel(x1, diag=True)", lambda: kernel(x1, diag=True), ref11.diagonal(dim1=-1, dim2=-2), "after")
                cmp("kernel(x1).diagonal()", lambda: kernel(x1).diagonal(dim1=-1, dim2=-2), ref11.diagonal(dim1=-1, dim2=-2), "after")
                with gpytorch.settings.lazily_evaluate_kernels(False):
                    cmp("eager kernel(x1,x2)", lambda: kernel(x1, x2), ref, "after")
                with gpytorch.settings.debug(False):
                    cmp("kernel(x1,x2).to_dense() under debug(False)", lambda: kernel(x1, x2), ref, "after")
                for key, what in _snap_diff(snap0, _snapshot(kernel)):
                    ctx.fail(f"history:attributes:{key}", f"{name} kernel batch {kb}: after the later uses following {sname} the kernel "
                             f"object has changed: {key}: {what}", dict(base, what=key, phase="attributes-late"))


# ------------------------------------------------------------------ I: wrappers without a batch shape of their own

WRAPPERS = ("w_multitask", "w_addstruct", "w_prodstruct", "w_scale", "w_scale_scale", "w_sum", "w_prod", "w_scale_sum",
            "w_multitask_scale", "w_lcm")
WRAP_T = {"w_multitask": 2, "w_multitask_scale": 2, "w_lcm": 2}


def make_wrapper(name, kb, seedval):
    """the wrapper gets NO batch_shape; only the inner kernels are batched (parameters differ across the batch)"""
    import torch
    from gpytorch import kernels as K
    M = _M()
    B = torch.Size(kb)
    inner = K.RBFKernel(batch_shape=B)
    if name == "w_multitask":
        k = K.MultitaskKernel(inner, num_tasks=2, rank=1)
    elif name == "w_addstruct":
        k = K.AdditiveStructureKernel(inner, num_dims=M.D_IN)
    elif name == "w_prodstruct":
        k = K.ProductStructureKernel(inner, num_dims=M.D_IN)
    elif name == "w_scale":
        k = K.ScaleKernel(inner)
    elif name == "w_scale_scale":
        k = K.ScaleKernel(K.ScaleKernel(inner))
    elif name == "w_sum":
        k = K.AdditiveKernel(inner, K.MaternKernel(nu=1.5, batch_shape=B))
    elif name == "w_prod":
        k = K.ProductKernel(inner, K.LinearKernel(batch_shape=B))
    elif name == "w_scale_sum":
        k = K.ScaleKernel(K.AdditiveKernel(inner, K.MaternKernel(nu=1.5, batch_shape=B)))
    elif name == "w_multitask_scale":
        k = K.MultitaskKernel(K.ScaleKernel(inner), num_tasks=2, rank=1)
    elif name == "w_lcm":
        k = K.LCMKernel([inner, K.MaternKernel(nu=2.5, batch_shape=B)], num_tasks=2, rank=1)
    else:
        raise ValueError(name)
    g = M._gen(seedval, f"wparams:{name}:{kb}")
    with torch.no_grad():
        for p in k.parameters():
            p.copy_(0.6 * torch.randn(p.shape, generator=g, dtype=torch.float64))
    k.double()
    k.eval()
    return k


def _batch_dim_forms(n):
    forms = [("I", i) for i in range(-n, n)]
    forms += [("S", None, None, None), ("S", 1, None, None), ("S", None, 1, None), ("S", None, None, 2), ("S", -1, None, None)]
    forms += [("T", tuple(range(n - 1, -1, -1))), ("T", (n - 1, n - 1, 0)), ("T", (0,))]
    return forms


def part_I(ctx, seedval, only=None):
    import torch
    import gpytorch
    M = _M()
    rng = ctx.rng("I")
    for name in WRAPPERS:
        t = WRAP_T.get(name, 1)
        for kb in ((2,), (2, 3)):
            for bx in ((), kb, (1,) * len(kb)):
                if ctx.quick and only is None and bx and bx != kb and (WRAPPERS.index(name) + len(kb)) % 2:
                    continue
                if ctx.quick and only is None and len(kb) > 1 and (WRAPPERS.index(name) + seedval) % 3:
                    continue
                if only is not None and (name, list(kb), list(bx)) != tuple(only):
                    continue
                n1, n2 = 4, 3
                kernel = make_wrapper(name, kb, seedval)
                g = M._gen(seedval, f"I:{name}:{kb}:{bx}")
                x1, x2 = M._randn(g, *bx, n1, M.D_IN), M._randn(g, *bx, n2, M.D_IN)
                base = {"part": "wrapper-batch", "kernel": name, "kernel_batch": list(kb), "x_batch": list(bx)}
                tag = f"I|{name}|{kb}|{bx}"
                try:
                    with torch.no_grad(), gpytorch.settings.lazily_evaluate_kernels(False), warnings.catch_warnings():
                        warnings.simplefilter("ignore")
                        D = M._dense(kernel(x1, x2)).detach()
                except Exception as e:
                    ctx.case(f"{tag}|kernel-call")
                    ctx.fail("wrapper-batch:kernel-call:raises", f"{name} (no batch_shape of its own) around kernels with batch {kb}, "
                             f"inputs batch {bx}: kernel(x1, x2) raises {type(e).__name__}: {str(e)[:140]}", dict(base, what="call"))
                    continue
                if tuple(D.shape[:-2]) != tuple(kb):
                    ctx.case(f"{tag}|shape")
                    ctx.fail("wrapper-batch:shape", f"{name} around kernels with batch {kb}: kernel(x1, x2) has shape {tuple(D.shape)}",
                             dict(base, what="shape"))
                    continue
                # batch index forms: every form of each batch dimension against a covering set on the others
                per_dim = [_batch_dim_forms(b) for b in kb]
                cover = [("S", None, None, None), ("I", 1), ("T", (1, 0))]
                idxs = []
                for d_ in range(len(kb)):
                    for f in per_dim[d_]:
                        for others in itertools.product(*[cover if e != d_ else [None] for e in range(len(kb))]):
                            it = tuple(f if o is None else o for o in others)
                            if sum(1 for i in it if i[0] == "T") > 1:
                                continue
                            idxs.append(it)
                idxs = list(dict.fromkeys(idxs))
                if len(kb) > 1:
                    k_ = 10 if ctx.quick else 30
                    idxs = idxs[:len(per_dim[0])] + rng.sample(idxs[len(per_dim[0]):], min(k_, len(idxs) - len(per_dim[0])))
                rowcol = [(), (("S", 1, None, None), ("S", None, 2 * t, None))]
                if t == 1 and not ctx.quick:
                    rowcol += [(("S", None, None, 2), ("T", (2, 0)))]
                for lazy in (True, False):
                    for bi in (idxs if lazy or not ctx.quick else idxs[::2]):
                        for rc in (rowcol if lazy else rowcol[:1]):
                            if rc and any(i[0] == "T" for i in bi) and any(i[0] == "T" for i in rc):
                                continue
                            idx = tuple(bi) + tuple(rc)
                            pidx = tuple(M.py_item(i) for i in idx)
                            try:
                                want = D[pidx]
                            except Exception:
                                continue
                            if 0 in want.shape:
                                continue
                            ctx.case(f"{tag}|lazy={int(lazy)}|K{M.enc_idx(idx)}", nontrivial=want.numel() < D.numel())
                            rep = dict(base, what="getitem", lazy=lazy, index_text=M.show_idx(idx))
                            try:
                                with torch.no_grad(), gpytorch.settings.lazily_evaluate_kernels(lazy), warnings.catch_warnings():
                                    warnings.simplefilter("ignore")
                                    got = M._dense(kernel(x1, x2)[pidx]).detach()
                            except Exception as e:
                                ctx.fail("wrapper-batch:getitem:raises", f"{name} (no batch_shape of its own) around kernels with batch {kb}, "
                                         f"inputs batch {bx}, lazy={lazy}: kernel(x1,x2){M.show_idx(idx)} raises {type(e).__name__}: "
                                         f"{str(e)[:120]} although the dense tensor accepts the index", rep)
                                continue
                            if not M._close(got, want):
                                ctx.fail("wrapper-batch:getitem", f"{name} (no batch_shape of its own) around kernels with batch {kb} whose "
                                         f"parameters differ across the batch, inputs batch {bx}, lazy={lazy}: kernel(x1,x2){M.show_idx(idx)}"
                                         f".to_dense() vs kernel(x1,x2).to_dense(){M.show_idx(idx)}: {M._maxerr(got, want)}", rep)
                # kernel[idx](x1[idx], x2[idx])
                x1e = x1.expand(*kb, n1, M.D_IN)
                x2e = x2.expand(*kb, n2, M.D_IN)
                for bi in idxs:
                    pidx = tuple(M.py_item(i) for i in bi)
                    ctx.case(f"{tag}|kernel{M.enc_idx(bi)}")
                    rep = dict(base, what="kernel-getitem", index_text=M.show_idx(bi))
                    try:
                        with torch.no_grad(), gpytorch.settings.lazily_evaluate_kernels(False), warnings.catch_warnings():
                            warnings.simplefilter("ignore")
                            want = D[pidx]
                            got = M._dense(kernel[pidx](x1e[pidx], x2e[pidx])).detach()
                    except Exception as e:
                        ctx.fail("wrapper-batch:kernel-getitem:raises", f"{name} around kernels with batch {kb}: kernel{M.show_idx(bi)}(x1"
                                 f"{M.show_idx(bi)}, x2{M.show_idx(bi)}) raises {type(e).__name__}: {str(e)[:120]}", rep)
                        continue
                    if not M._close(got, want):
                        ctx.fail("wrapper-batch:kernel-getitem", f"{name} (no batch_shape of its own) around kernels with batch {kb}: "
                                 f"kernel{M.show_idx(bi)}(x1{M.show_idx(bi)}, x2{M.show_idx(bi)}) differs from slice {M.show_idx(bi)} of the "
                                 f"batched result: {M._maxerr(got, want)}", rep)


# ------------------------------------------------------------------ J: last_dim_is_batch=True under every lazy operation

def ldb_factories():
    import torch
    from gpytorch import kernels as K
    M = _M()
    D = M.D_IN

    def B(b):
        return torch.Size(b)
    return {
        "rbf": lambda b: K.RBFKernel(batch_shape=B(b)),
        "rbf_ard": lambda b: K.RBFKernel(ard_num_dims=D, batch_shape=B(b)),
        "matern15": lambda b: K.MaternKernel(nu=1.5, batch_shape=B(b)),
        "matern25_ard": lambda b: K.MaternKernel(nu=2.5, ard_num_dims=D, batch_shape=B(b)),
        "rq": lambda b: K.RQKernel(batch_shape=B(b)),
        "rq_ard": lambda b: K.RQKernel(ard_num_dims=D, batch_shape=B(b)),
        "periodic": lambda b: K.PeriodicKernel(batch_shape=B(b)),
        "cosine": lambda b: K.CosineKernel(batch_shape=B(b)),
        "linear": lambda b: K.LinearKernel(batch_shape=B(b)),
        "pp2": lambda b: K.PiecewisePolynomialKernel(q=2, batch_shape=B(b)),
        "scale_rbf": lambda b: K.ScaleKernel(K.RBFKernel(batch_shape=B(b)), batch_shape=B(b)),
        "scale_matern_ard": lambda b: K.ScaleKernel(K.MaternKernel(nu=1.5, ard_num_dims=D, batch_shape=B(b)), batch_shape=B(b)),
        "sum": lambda b: K.RBFKernel(batch_shape=B(b)) + K.MaternKernel(nu=0.5, batch_shape=B(b)),
        "prod": lambda b: K.RBFKernel(batch_shape=B(b)) * K.MaternKernel(nu=0.5, batch_shape=B(b)),
    }


LDB_NON_ARD = ("rbf", "matern15", "rq", "periodic", "cosine", "scale_rbf", "sum", "prod")


def part_J(ctx, seedval, only=None):
    import torch
    import gpytorch
    M = _M()
    D = M.D_IN
    n1, n2 = 4, 3
    for name, fac in ldb_factories().items():
        for kb, bx in (((), ()), ((), (2,)), ((2,), ()), ((2,), (2,)), ((), (2, 2))):
            if only is not None and (name, list(kb), list(bx)) != tuple(only):
                continue
            kernel = fac(kb)
            gp = M._gen(seedval, f"J:params:{name}:{kb}")
            with torch.no_grad():
                for p in kernel.parameters():
                    p.copy_(0.6 * torch.randn(p.shape, generator=gp, dtype=torch.float64))
            kernel.double()
            kernel.eval()
            g = M._gen(seedval, f"J:{name}:{kb}:{bx}")
            x1, x2 = M._randn(g, *bx, n1, D), M._randn(g, *bx, n2, D)
            base = {"part": "ldb", "kernel": name, "kernel_batch": list(kb), "x_batch": list(bx)}
            tag = f"J|{name}|{kb}|{bx}"
            bs = tuple(torch.broadcast_shapes(torch.Size(kb), torch.Size(bx)))

            def K_(a=x1, b=x2, **kw):
                return kernel(a, b, last_dim_is_batch=True, **kw)
            try:
                with torch.no_grad(), gpytorch.settings.lazily_evaluate_kernels(False), warnings.catch_warnings():
                    warnings.simplefilter("ignore")
                    Dn = M._dense(K_()).detach()
                    D11 = M._dense(K_(x1, x1)).detach()
            except Exception as e:
                ctx.count("J_cells_rejected_by_kernel")
                ctx.notes.setdefault("J_cells_rejected", {})[f"{name}:{kb}:{bx}"] = f"{type(e).__name__}: {str(e)[:100]}"
                continue
            if tuple(Dn.shape) != bs + (D, n1, n2):
                ctx.case(f"{tag}|shape")
                ctx.fail("ldb:shape", f"{name} kernel batch {kb}, inputs batch {bx}: kernel(x1, x2, last_dim_is_batch=True) has shape "
                         f"{tuple(Dn.shape)} instead of {bs + (D, n1, n2)}", dict(base, what="shape"))
                continue
            # the dense tensor itself: one 1-d kernel per input column (kernels without per-dimension parameters)
            if name in LDB_NON_ARD:
                ctx.case(f"{tag}|per-column-oracle")
                try:
                    with torch.no_grad(), gpytorch.settings.lazily_evaluate_kernels(False), warnings.catch_warnings():
                        warnings.simplefilter("ignore")
                        ref = torch.stack([M._dense(kernel(x1[..., j:j + 1], x2[..., j:j + 1])).detach() for j in range(D)], dim=-3)
                    if not M._close(Dn, ref.expand_as(Dn)):
                        ctx.fail("ldb:per-column", f"{name} kernel batch {kb}, inputs batch {bx}: kernel(x1, x2, last_dim_is_batch=True) "
                                 f"differs from the stack of the 1-d kernels of the input columns: {M._maxerr(Dn, ref.expand_as(Dn))}",
                                 dict(base, what="per-column"))
                except Exception as e:
                    ctx.count("J_oracle_rejected")
            nb = len(bs)
            E = Ellipsis
            t20 = torch.tensor([2, 0])
            ops = [
                ("to_dense", lambda K: K, lambda T: T),
                (".mT", lambda K: K.mT, lambda T: T.mT),
                (".transpose(-1,-2)", lambda K: K.transpose(-1, -2), lambda T: T.transpose(-1, -2)),
                (".mT.mT", lambda K: K.mT.mT, lambda T: T),
                ("[..., 1:, :2]", lambda K: K[E, 1:, :2], lambda T: T[E, 1:, :2]),
                ("[..., ::2, 1]", lambda K: K[E, ::2, 1], lambda T: T[E, ::2, 1]),
                ("[..., [2,0], :]", lambda K: K[E, t20, :], lambda T: T[E, t20, :]),
                (".mT[..., 1:, :2]", lambda K: K.mT[E, 1:, :2], lambda T: T.mT[E, 1:, :2]),
                ("[..., :2, 1:].mT", lambda K: K[E, :2, 1:].mT, lambda T: T[E, :2, 1:].mT),
                ("[..., 1:, :, :] (dimension axis, slice)", lambda K: K[E, 1:, :, :], lambda T: T[E, 1:, :, :]),
                ("[..., 1, :, :] (dimension axis, int)", lambda K: K[E, 1, :, :], lambda T: T[E, 1, :, :]),
                ("[..., -1, 1:, :] (dimension axis, int)", lambda K: K[E, -1, 1:, :], lambda T: T[E, -1, 1:, :]),
                ("[..., [2,0], :, :] (dimension axis, index tensor)", lambda K: K[E, t20, :, :], lambda T: T[E, t20, :, :]),
                ("[..., ::2, 1:, :2] (dimension axis, step)", lambda K: K[E, ::2, 1:, :2], lambda T: T[E, ::2, 1:, :2]),
                (".diagonal() of K(x1,x1)", None, None),
                ("diag=True", None, None),
            ]
            if nb:
                ops += [
                    ("[0] (batch int)", lambda K: K[0], lambda T: T[0]),
                    ("[-1] (batch int)", lambda K: K[-1], lambda T: T[-1]),
                    ("[1:] (batch slice)", lambda K: K[1:], lambda T: T[1:]),
                    ("[[1,0]] (batch index tensor)", lambda K: K[torch.tensor([1, 0])], lambda T: T[torch.tensor([1, 0])]),
                    ("[1, ..., 1:, :2]", lambda K: K[1, E, 1:, :2], lambda T: T[1, E, 1:, :2]),
                    ("[1].mT", lambda K: K[1].mT, lambda T: T[1].mT),
                    ("[1, 2] (batch int, dimension int)" if nb == 1 else "[1, 0] (batch ints)", lambda K: K[1, 0], lambda T: T[1, 0]),
                ]
            reps = [[1] * (nb + 1) + [2, 1], [1] * (nb + 1) + [1, 3]]
            for lazy in (True, False):
                for what, fk, ft in ops:
                    key_what = what.split(" (")[0]
                    cls = ("dimension-axis" if "dimension axis" in what or "dimension int" in what else
                           "batch-index" if "batch" in what or what.startswith("[1") else
                           "transpose" if "mT" in what or "transpose" in what else
                           "diag" if "diag" in what else "rows-cols" if what.startswith("[") else "dense")
                    ctx.case(f"{tag}|lazy={int(lazy)}|{what}")
                    rep = dict(base, what=what, lazy=lazy)
                    try:
                        with torch.no_grad(), gpytorch.settings.lazily_evaluate_kernels(lazy), warnings.catch_warnings():
                            warnings.simplefilter("ignore")
                            if what.startswith(".diagonal()"):
                                got = M._dense(K_(x1, x1).diagonal(dim1=-1, dim2=-2)).detach()
                                want = D11.diagonal(dim1=-1, dim2=-2)
                            elif what == "diag=True":
                                got = M._dense(K_(x1, x1, diag=True)).detach()
                                want = D11.diagonal(dim1=-1, dim2=-2)
                            else:
                                want = ft(Dn)
                                got = M._dense(fk(K_())).detach()
                    except Exception as e:
                        ctx.fail(f"ldb:{cls}:raises", f"{name} kernel batch {kb}, inputs batch {bx}, lazy={lazy}: "
                                 f"kernel(x1,x2,last_dim_is_batch=True){key_what} raises {type(e).__name__}: {str(e)[:120]} although the "
                                 f"dense tensor of shape {tuple(Dn.shape)} supports it", rep)
                        continue
                    if not M._close(got, want):
                        ctx.fail(f"ldb:{cls}", f"{name} kernel batch {kb}, inputs batch {bx}, lazy={lazy}: "
                                 f"kernel(x1,x2,last_dim_is_batch=True){key_what} differs from the same operation on the dense "
                                 f"(..., d, n, m) tensor: {M._maxerr(got, want)}", rep)
                # K(x1,x2).mT == K(x2,x1)
                ctx.case(f"{tag}|lazy={int(lazy)}|swap")
                try:
                    with torch.no_grad(), gpytorch.settings.lazily_evaluate_kernels(lazy), warnings.catch_warnings():
                        warnings.simplefilter("ignore")
                        sw = M._dense(K_(x2, x1)).detach()
                    if not M._close(sw, Dn.mT):
                        ctx.fail("ldb:swap", f"{name} kernel batch {kb}, inputs batch {bx}, lazy={lazy}: kernel(x2,x1,last_dim_is_batch=True) "
                                 f"differs from kernel(x1,x2,last_dim_is_batch=True) transposed: {M._maxerr(sw, Dn.mT)}",
                                 dict(base, what="swap", lazy=lazy))
                except Exception as e:
                    ctx.fail("ldb:swap:raises", f"{name} kernel batch {kb}, inputs batch {bx}, lazy={lazy}: kernel(x2,x1,"
                             f"last_dim_is_batch=True) raises {type(e).__name__}: {str(e)[:120]}", dict(base, what="swap", lazy=lazy))
                # repeat: linear_operator's own conventions decide which arguments are accepted (counted when rejected)
                for r_ in reps:
                    ctx.case(f"{tag}|lazy={int(lazy)}|repeat{r_}")
                    try:
                        with torch.no_grad(), gpytorch.settings.lazily_evaluate_kernels(lazy), warnings.catch_warnings():
                            warnings.simplefilter("ignore")
                            got = M._dense(K_().repeat(*r_)).detach()
                    except Exception as e:
                        ctx.count("J_repeat_rejected")
                        ctx.notes.setdefault("J_rejections", {})[f"repeat:lazy={lazy}:{type(e).__name__}"] = str(e)[:80]
                        continue
                    want = Dn.repeat(*r_)
                    if not M._close(got, want):
                        ctx.fail("ldb:repeat", f"{name} kernel batch {kb}, inputs batch {bx}, lazy={lazy}: "
                                 f"kernel(x1,x2,last_dim_is_batch=True).repeat{tuple(r_)} differs from the repeated dense tensor: "
                                 f"{M._maxerr(got, want)}", dict(base, what=f"repeat{r_}", lazy=lazy))


# ------------------------------------------------------------------ K: the REGENERATED kernels (Gen/KernelCall.lean) vs the real code

def _bits(s):
    import struct
    if s in ("-", ""):
        return []
    return [struct.unpack("<d", struct.pack("<Q", int(t)))[0] for t in s.split(",")]


def gen_kernels():
    """name -> (constructor(batch_shape), family(same) , theta(kernel, flat batch index, d))   — one real kernel per
    regenerated family; parameters are read from the real module (after the constraint transform)"""
    import torch
    from gpytorch import kernels as K
    M = _M()
    D = M.D_IN

    def B(b):
        return torch.Size(b)

    def vec(t, j, d):          # per-dimension parameter of batch element j, broadcast to d entries
        v = t.detach().reshape(-1, t.shape[-1])[j].tolist()
        return v * d if len(v) == 1 else v

    def sc(t, j):
        return [t.detach().reshape(-1)[j].item()]

    G = {}
    G["rbf_fast"] = (lambda b: K.RBFKernel(batch_shape=B(b)), lambda same: "rbfFast",
                     lambda k, j, d: (vec(k.lengthscale, j, d), [], sc(k.lengthscale, j), 0))
    G["rbf_ard"] = (lambda b: K.RBFKernel(ard_num_dims=D, batch_shape=B(b)), lambda same: "rbfGeneric",
                    lambda k, j, d: (vec(k.lengthscale, j, d), [], [0.0], 0))
    for nu, tag in ((0.5, "12"), (1.5, "32"), (2.5, "52")):
        G[f"matern{tag}_fast"] = (lambda b, nu=nu: K.MaternKernel(nu=nu, batch_shape=B(b)), lambda same, tag=tag: f"matern{tag}Fast",
                                  lambda k, j, d: ([], [], sc(k.lengthscale, j), 0))
        G[f"matern{tag}_ard"] = (lambda b, nu=nu: K.MaternKernel(nu=nu, ard_num_dims=D, batch_shape=B(b)),
                                 lambda same, tag=tag: f"matern{tag}Generic", lambda k, j, d: (vec(k.lengthscale, j, d), [], [0.0], 0))
    G["rq"] = (lambda b: K.RQKernel(batch_shape=B(b)), lambda same: "rq",
               lambda k, j, d: (vec(k.lengthscale, j, d), [], sc(k.alpha, j), 0))
    G["rq_ard"] = (lambda b: K.RQKernel(ard_num_dims=D, batch_shape=B(b)), lambda same: "rq",
                   lambda k, j, d: (vec(k.lengthscale, j, d), [], sc(k.alpha, j), 0))
    G["periodic"] = (lambda b: K.PeriodicKernel(batch_shape=B(b)), lambda same: "periodic",
                     lambda k, j, d: (vec(k.lengthscale, j, d), vec(k.period_length, j, d), [0.0], 0))
    G["periodic_ard"] = (lambda b: K.PeriodicKernel(ard_num_dims=D, batch_shape=B(b)), lambda same: "periodic",
                         lambda k, j, d: (vec(k.lengthscale, j, d), vec(k.period_length, j, d), [0.0], 0))
    G["cosine"] = (lambda b: K.CosineKernel(batch_shape=B(b)), lambda same: "cosine",
                   lambda k, j, d: ([], [], sc(k.period_length, j), 0))
    G["linear"] = (lambda b: K.LinearKernel(batch_shape=B(b)), lambda same: "linearSame" if same else "linear",
                   lambda k, j, d: (vec(k.variance, j, d), [], [0.0], 0))
    G["linear_ard"] = (lambda b: K.LinearKernel(ard_num_dims=D, batch_shape=B(b)), lambda same: "linearSame" if same else "linear",
                       lambda k, j, d: (vec(k.variance, j, d), [], [0.0], 0))
    for pw in (2, 3):
        G[f"poly{pw}"] = (lambda b, pw=pw: K.PolynomialKernel(power=pw, batch_shape=B(b)), lambda same: "polynomial",
                          lambda k, j, d, pw=pw: ([], [], sc(k.offset, j), pw))
    for q in range(4):
        G[f"pp{q}"] = (lambda b, q=q: K.PiecewisePolynomialKernel(q=q, batch_shape=B(b)), lambda same, q=q: f"pp{q}",
                       lambda k, j, d: (vec(k.lengthscale, j, d), [], [0.0], 0))
    G["constant"] = (lambda b: K.ConstantKernel(batch_shape=B(b)), lambda same: "constant",
                     lambda k, j, d: ([], [], sc(k.constant, j), 0))
    return G


GEN_DIAG = {"rbf_fast": "rbf", "rbf_ard": "rbf", "rq": "rq", "rq_ard": "rq", "periodic": "periodic", "periodic_ard": "periodic",
            "poly2": "polynomial", "poly3": "polynomial", "constant": "constant"}
K_PATTERNS = [((), (), ()), ((2,), (2,), (2,)), ((2,), (), ()), ((), (2,), (2,)), ((), (1,), (2,)), ((2, 3), (3,), (2, 1))]


def _theta_tokens(C, th):
    ls, ps, s, k = th
    return f"{len(ls)} " + " ".join(C.rat_str(v) for v in ls) + f" {len(ps)} " + " ".join(C.rat_str(v) for v in ps) + \
        f" {C.rat_str(s[0])} {k}"


def _k_indexes(bs, n1, n2, rng, quick):
    """index expressions (c06 item encoding): rows / columns of every kind, batch ints / slices / index tensors"""
    S = ("S", None, None, None)
    rc = [(S, S), (("S", 1, None, None), ("S", None, 2, None)), (("S", None, None, 2), ("I", 1)), (("I", 0), S),
          (("T", (n1 - 1, 0)), ("S", 1, None, None)), (("S", None, 2, None), ("T", (0, n2 - 1, 0))), (("I", -n1), ("I", 0))]
    out = []
    if not bs:
        return [tuple(x) for x in rc]
    bforms = [[S, ("I", 0), ("I", -1), ("S", 1, None, None), ("T", tuple(range(b - 1, -1, -1)))] for b in bs]
    import itertools as it
    allb = [tuple(x) for x in it.product(*bforms) if sum(1 for i in x if i[0] == "T") <= 1]
    if quick and len(allb) > 4:
        allb = allb[:1] + rng.sample(allb[1:], 3)
    elif len(allb) > 9:
        allb = allb[:1] + rng.sample(allb[1:], 8)
    for bi in allb:
        for r_ in ([rc[1], rc[rng.randrange(2, len(rc))]] if quick else rc):
            if any(i[0] == "T" for i in bi) and any(i[0] == "T" for i in r_):
                continue
            out.append(bi + tuple(r_))
    return out


def part_K(ctx, seedval, lines, recs):
    """Every regenerated family: the generated matrix-level forward (Lean `Float`, the definitions `gen_kernel_pairwise`
    is about) vs the real kernel — on the full inputs, on sub-selected rows / batch elements (lazy `_getitem` path and the
    kernel called directly on the selected rows), with different and with aliased inputs."""
    import torch
    import gpytorch
    from lib import common as C
    M = _M()
    D = M.D_IN
    rng = ctx.rng("K")
    G = gen_kernels()
    n1, n2 = 4, 3
    for name, (fac, famf, thf) in G.items():
        for pi, (kb, b1, b2) in enumerate(K_PATTERNS):
            if ctx.quick and pi >= 2 and (pi + list(G).index(name)) % 4:
                continue
            kernel = fac(kb)
            gp = M._gen(seedval, f"K:params:{name}:{kb}")
            with torch.no_grad():
                for p in kernel.parameters():
                    p.copy_(0.6 * torch.randn(p.shape, generator=gp, dtype=torch.float64))
            kernel.double()
            kernel.eval()
            g = M._gen(seedval, f"K:{name}:{kb}:{b1}:{b2}")
            xa, xb = M._randn(g, *b1, n1, D), M._randn(g, *b2, n2, D)
            nkb = 1
            for v in kb:
                nkb *= v
            par = " ".join(_theta_tokens(C, thf(kernel, j, D)) for j in range(nkb))
            for alias in (False, True):
                if alias and tuple(b1) != tuple(b2):
                    continue
                x1 = xa
                x2 = xa if alias else xb
                m1, m2 = x1.shape[-2], x2.shape[-2]
                same = bool(torch.equal(x1, x2))
                fam = famf(same)
                try:
                    with torch.no_grad(), warnings.catch_warnings(), gpytorch.settings.lazily_evaluate_kernels(False):
                        warnings.simplefilter("ignore")
                        Dn = M._dense(kernel(x1, x2)).detach()
                except Exception as e:
                    ctx.count("K_cells_rejected_by_kernel")
                    ctx.notes.setdefault("K_cells_rejected", {})[f"{name}:{kb}:{b1}:{b2}"] = f"{type(e).__name__}: {str(e)[:80]}"
                    continue
                bs = tuple(Dn.shape[:-2])
                hd = f"{M._sh(kb)} ; {M._sh(b1)} ; {M._sh(b2)} ; {m1} {m2} {D}"
                d1 = " ".join(C.rat_str(v) for v in x1.reshape(-1).tolist())
                d2 = " ".join(C.rat_str(v) for v in x2.reshape(-1).tolist())
                for idx in _k_indexes(bs, m1, m2, rng, ctx.quick):
                    pidx = tuple(M.py_item(i) for i in idx)
                    try:
                        want = Dn[pidx]
                    except Exception:
                        continue
                    if 0 in want.shape or M.rowcol_minus_one(idx, Dn.dim()):
                        continue
                    obs = {}
                    with torch.no_grad(), warnings.catch_warnings():
                        warnings.simplefilter("ignore")
                        try:
                            with gpytorch.settings.lazily_evaluate_kernels(True):
                                obs["lazy"] = M._dense(kernel(x1, x2)[pidx]).detach()
                        except Exception as e:
                            obs["lazy"] = None
                            ctx.count("K_lazy_rejected")
                    lines.append(f"gk {fam} | {hd} | {par} | {d1} | {d2} | {M.enc_idx(idx)}")
                    recs.append(("Kgk", dict(name=name, fam=fam, kb=kb, b1=b1, b2=b2, alias=alias, idx=idx, want=want, full=Dn,
                                             lazy=obs["lazy"], same=same), None))
                # swapped / row-repeated / stacked inputs (x2 != x1 only)
                if not alias:
                    r_, c_ = 2, 3
                    obs = {}
                    with torch.no_grad(), warnings.catch_warnings(), gpytorch.settings.lazily_evaluate_kernels(True):
                        warnings.simplefilter("ignore")
                        try:
                            obs["swap"] = M._dense(kernel(x2, x1)).detach()
                            obs["mT"] = M._dense(kernel(x1, x2).mT).detach()
                            obs["rep"] = M._dense(kernel(x1, x2).repeat(*([1] * len(bs)), r_, c_)).detach()
                            if tuple(b1) == tuple(b2):
                                xs = torch.cat([x1, x2], dim=-2)
                                obs["stack"] = M._dense(kernel(xs, xs)).detach()
                        except Exception as e:
                            ctx.count("K_aux_rejected")
                            obs = None
                    if obs is not None:
                        lines.append(f"gkx {fam} | {hd} | {par} | {d1} | {d2} | {r_} {c_}")
                        recs.append(("Kgkx", dict(name=name, fam=fam, kb=kb, b1=b1, b2=b2, obs=obs, full=Dn, reps=(r_, c_)), None))
                # diag=True
                if name in GEN_DIAG and m1 == m2:
                    try:
                        with torch.no_grad(), warnings.catch_warnings(), gpytorch.settings.lazily_evaluate_kernels(False):
                            warnings.simplefilter("ignore")
                            dv = M._dense(kernel(x1, x2, diag=True)).detach()
                        lines.append(f"gkd {GEN_DIAG[name]} | {hd} | {par} | {d1} | {d2}")
                        recs.append(("Kgkd", dict(name=name, kb=kb, b1=b1, b2=b2, alias=alias, diag=dv, full=Dn, same=same,
                                                  fast=(name == "rbf_fast")), None))
                    except Exception as e:
                        ctx.count("K_diag_rejected")
                elif name in GEN_DIAG and not alias and tuple(b1) == tuple(b2):
                    # square problem for the diag comparison
                    x2s = M._randn(g, *b2, m1, D)
                    try:
                        with torch.no_grad(), warnings.catch_warnings(), gpytorch.settings.lazily_evaluate_kernels(False):
                            warnings.simplefilter("ignore")
                            Ds = M._dense(kernel(x1, x2s)).detach()
                            dv = M._dense(kernel(x1, x2s, diag=True)).detach()
                        d2s = " ".join(C.rat_str(v) for v in x2s.reshape(-1).tolist())
                        lines.append(f"gkd {GEN_DIAG[name]} | {M._sh(kb)} ; {M._sh(b1)} ; {M._sh(b2)} ; {m1} {m1} {D} | {par} | {d1} | {d2s}")
                        recs.append(("Kgkd", dict(name=name, kb=kb, b1=b1, b2=b2, alias=False, diag=dv, full=Ds, same=False,
                                                  fast=(name == "rbf_fast")), None))
                    except Exception as e:
                        ctx.count("K_diag_rejected")
    part_K_call(ctx, seedval, lines, recs)


def _arange_like(kind, base):
    import torch
    if kind[0] == "v":
        return torch.arange(kind[1], dtype=torch.float64) + base
    _, b, n, d = kind
    num = n * d
    for v in b:
        num *= v
    return (torch.arange(num, dtype=torch.float64) + base).reshape(*b, n, d)


def _kind_txt(kind):
    M = _M()
    if kind is None:
        return "N"
    if kind[0] == "v":
        return f"v {kind[1]}"
    return f"m {M._sh(kind[1])} {kind[2]} {kind[3]}"


def part_K_call(ctx, seedval, lines, recs):
    """`Kernel.__call__`: the regenerated input preparation run on arange tensors vs the tensors the real `__call__` hands
    to `forward` (exact); the regenerated `res.diagonal()` decision vs the shape the real call returns; the regenerated
    branch conditions of RBF / Matérn `forward` vs whether the fast autograd Function is entered."""
    import torch
    import gpytorch
    from gpytorch import kernels as K
    M = _M()
    # ---- input preparation
    x1kinds = [("m", (), 3, 3), ("m", (2,), 3, 3), ("v", 3), ("m", (), 2, 1)]
    x2kinds = [None, ("m", (), 2, 3), ("m", (2,), 4, 3), ("v", 4), ("m", (), 2, 2), ("m", (), 3, 1)]
    for ad in (None, [0, 2], [2, 0], [1], [0]):
        for ard, debug in ((None, False), (None, True), (2, True), (1, True), (3, True), (2, False)):
            for k1 in x1kinds:
                for k2 in x2kinds:
                    if ad is not None and any(k is not None and ((k[0] == "v" and k[1] <= max(ad)) or (k[0] == "m" and k[3] <= max(ad)))
                                              for k in (k1, k2)):
                        continue                      # index_select out of range: torch's own IndexError
                    kw = {}
                    if ad is not None:
                        kw["active_dims"] = ad
                    if ard is not None:
                        kw["ard_num_dims"] = ard
                    kern = K.RBFKernel(**kw).double()
                    seen = {}

                    def spy(a, b, **params):
                        seen["x1"], seen["x2"], seen["same_obj"] = a, b, a is b
                        return torch.zeros(*torch.broadcast_shapes(a.shape[:-2], b.shape[:-2]), a.shape[-2], b.shape[-2], dtype=a.dtype)
                    kern.forward = spy
                    a = _arange_like(k1, 0)
                    b = None if k2 is None else _arange_like(k2, 100000)
                    try:
                        with gpytorch.settings.debug(debug), gpytorch.settings.lazily_evaluate_kernels(False), warnings.catch_warnings():
                            warnings.simplefilter("ignore")
                            kern(a, b)
                        outcome = "ok"
                    except RuntimeError as e:
                        outcome = "raised" if ("same number of dimensions" in str(e) or "Expected the input to have" in str(e)) \
                            else f"crashed:{type(e).__name__}: {str(e)[:80]}"
                    except Exception as e:
                        outcome = f"crashed:{type(e).__name__}: {str(e)[:80]}"
                    lines.append(f"cprep {'N' if ad is None else ','.join(map(str, ad))} ; {int(debug)} ; {'N' if ard is None else ard} ; "
                                 f"{_kind_txt(k1)} ; {_kind_txt(k2)}")
                    recs.append(("Kprep", dict(outcome=outcome, seen=dict(seen), ad=ad, ard=ard, debug=debug, k1=k1, k2=k2), None))
    # ---- diag post-processing: what forward returns -> what __call__ returns
    class FullAlways(K.RBFKernel):
        """a kernel that ignores `diag`: forward always returns the full matrix"""
        def forward(self, x1, x2, diag=False, **params):
            return super().forward(x1, x2, diag=False, **params)
    n = 3
    pats = list(M.PATTERNS_QUICK)
    for cls_name, cls in (("rbf", K.RBFKernel), ("full-always", FullAlways), ("linear", K.LinearKernel)):
        for (kb, b1, b2) in pats:
            for ldb in (False, True):
                kern = cls(batch_shape=torch.Size(kb)).double()
                g = M._gen(seedval, f"Kdiag:{kb}:{b1}:{b2}")
                x1, x2 = M._randn(g, *b1, n, M.D_IN), M._randn(g, *b2, n, M.D_IN)
                try:
                    with torch.no_grad(), gpytorch.settings.lazily_evaluate_kernels(False), warnings.catch_warnings():
                        warnings.simplefilter("ignore")
                        res = kern.forward(x1, x2, diag=True, last_dim_is_batch=ldb)
                        res = res if torch.is_tensor(res) else res.to_dense()
                        out = kern(x1, x2, diag=True, last_dim_is_batch=ldb)
                        out = out if torch.is_tensor(out) else out.to_dense()
                except Exception as e:
                    ctx.count("K_cdiag_rejected")
                    continue
                l2 = list(res.shape[-2:]) if res.dim() >= 2 else [0, 0]
                lines.append(f"cdiag {M._sh(b1)} ; {M._sh(b2)} ; {M._sh(kb)} ; {n} {n} {int(ldb)} {res.dim()} {l2[0]} {l2[1]}")
                recs.append(("Kcdiag", dict(cls=cls_name, kb=kb, b1=b1, b2=b2, ldb=ldb, res_shape=tuple(res.shape),
                                            out_shape=tuple(out.shape)), None))
    # ---- branch conditions
    import gpytorch.kernels.rbf_kernel as RB
    import gpytorch.kernels.matern_kernel as MA
    for which, mod, attr, mk in (("rbf", RB, "RBFCovariance", lambda ard: K.RBFKernel(ard_num_dims=ard)),
                                 ("matern", MA, "MaternCovariance", lambda ard: K.MaternKernel(nu=1.5, ard_num_dims=ard))):
        orig = getattr(mod, attr)
        for g1, g2, ard, diag, ldb, tr in itertools.product((0, 1), (0, 1), (None, 1, 3), (0, 1), (0, 1), (0, 1)):
            hit = {"fast": False}

            class Spy:
                @staticmethod
                def apply(*a, **k):
                    hit["fast"] = True
                    return orig.apply(*a, **k)
            setattr(mod, attr, Spy)
            try:
                kern = mk(ard).double()
                x1 = torch.randn(3, 3, dtype=torch.float64, requires_grad=bool(g1))
                x2 = torch.randn(3, 3, dtype=torch.float64, requires_grad=bool(g2))
                with gpytorch.settings.trace_mode(bool(tr)), warnings.catch_warnings():
                    warnings.simplefilter("ignore")
                    kern.forward(x1, x2, diag=bool(diag), last_dim_is_batch=bool(ldb))
                ok = True
            except Exception as e:
                ok = False
            finally:
                setattr(mod, attr, orig)
            if not ok:
                ctx.count("K_branch_rejected")
                continue
            lines.append(f"gbranch {which} {g1} {g2} {'N' if ard is None else ard} {diag} {ldb} {tr}")
            recs.append(("Kbranch", dict(which=which, generic=not hit["fast"], cfg=(g1, g2, ard, diag, ldb, tr)), None))


def compare_K(ctx, kind, data, line, rep):
    import torch
    M = _M()
    short = line[:160]
    if rep in ("bad-request", "none"):
        ctx.broke("correspondence", "generated kernels: driver", f"`{short}` -> {rep}")
        return
    if kind == "Kgk":
        f = dict(p.split("=", 1) for p in rep.split(";"))
        want, full, lazy = data["want"], data["full"], data["lazy"]
        tag = f"K|{data['name']}|{data['kb']}|{data['b1']}|{data['b2']}|alias={int(data['alias'])}|{M.enc_idx(data['idx'])}"
        ctx.case(tag, nontrivial=want.numel() < full.numel())
        shape = [] if f["shape"] == "-" else [int(v) for v in f["shape"].split(",")]
        where = (f"{data['name']} (family {data['fam']}) kernel batch {data['kb']}, x1 batch {data['b1']}, x2 batch {data['b2']}, "
                 f"{'x2 is x1' if data['alias'] else 'x2 != x1'}, index {M.show_idx(data['idx'])}")
        if shape != list(want.shape):
            ctx.broke("correspondence", "generated kernels: index bookkeeping", f"{where}: model shape {shape}, torch {list(want.shape)}")
            return
        if f["same"].split(",")[0] != ("true" if data["same"] else "false"):
            ctx.broke("correspondence", "generated kernels: torch.equal flag", f"{where}: driver {f['same']}, torch.equal {data['same']}")
        gl = torch.tensor(_bits(f["lazy"]), dtype=torch.float64).reshape(want.shape)
        gd = torch.tensor(_bits(f["direct"]), dtype=torch.float64).reshape(want.shape)
        gf = torch.tensor(_bits(f["full"]), dtype=torch.float64).reshape(full.shape)
        # (1) the regenerated forward on the FULL inputs is the real kernel matrix
        if not M._close(gf, full):
            ctx.broke("correspondence", f"generated {data['fam']} vs {data['name']}: full matrix",
                      f"{where}: regenerated matrix-level forward vs kernel(x1,x2).to_dense(): {M._maxerr(gf, full)}")
            return
        # (2) on the SUB-SELECTED rows / batch elements: what the lazy path computes, and the selected dense entries
        if not M._close(gd, want):
            ctx.broke("correspondence", f"generated {data['fam']} vs {data['name']}: selected entries",
                      f"{where}: selected entries of the regenerated matrix vs kernel(x1,x2).to_dense()[idx]: {M._maxerr(gd, want)}")
        if lazy is not None and not M._close(gl, lazy):
            ctx.broke("correspondence", f"generated {data['fam']} vs {data['name']}: sub-selected rows",
                      f"{where}: regenerated forward run on the selected rows (its own centres / flag) vs "
                      f"kernel(x1,x2)[idx].to_dense(): {M._maxerr(gl, lazy)}")
        # (3) observed, not proved: independence of the row subset in floating point (Lean Float vs Lean Float)
        if want.numel():
            dev = (gl - gd).abs().max().item()
            ctx.notes["K_float_row_subset_max_abs_dev"] = max(ctx.notes.get("K_float_row_subset_max_abs_dev", 0.0), dev)
            if not M._close(gl, gd):
                ctx.broke("correspondence", f"generated {data['fam']}: row-subset independence in floating point",
                          f"{where}: the regenerated forward on the selected rows differs from the selected entries of the "
                          f"regenerated forward on all rows by {dev:.3e} (exact equality is `gen_getitem_commutes`)")
    elif kind == "Kgkd":
        f = dict(p.split("=", 1) for p in rep.split(";"))
        dv, full = data["diag"], data["full"]
        tag = f"Kd|{data['name']}|{data['kb']}|{data['b1']}|{data['b2']}|alias={int(data['alias'])}"
        ctx.case(tag)
        wantd = full.diagonal(dim1=-1, dim2=-2)
        where = f"{data['name']} kernel batch {data['kb']}, x1 batch {data['b1']}, x2 batch {data['b2']}, {'x2 is x1' if data['alias'] else 'x2 != x1'}"
        gdv = torch.tensor(_bits(f["diag"]), dtype=torch.float64).reshape(wantd.shape)
        gfd = torch.tensor(_bits(f["fulldiag"]), dtype=torch.float64).reshape(wantd.shape)
        real = dv.expand(wantd.shape) if dv.shape != wantd.shape and dv.numel() <= wantd.numel() else dv
        if not M._close(gdv, real):
            ctx.broke("correspondence", f"generated diag=True branch vs {data['name']}",
                      f"{where}: regenerated `diag=True` forward vs kernel(x1,x2,diag=True): {M._maxerr(gdv, real)}")
        if not M._close(gfd, wantd):
            ctx.broke("correspondence", f"generated matrix diagonal vs {data['name']}",
                      f"{where}: diagonal of the regenerated matrix vs diagonal of kernel(x1,x2).to_dense(): {M._maxerr(gfd, wantd)}")
        if data["fast"] and f["fastdiag"] != "-":
            gff = torch.tensor(_bits(f["fastdiag"]), dtype=torch.float64).reshape(wantd.shape)
            if not M._close(gff, wantd):
                ctx.broke("correspondence", "generated fast-path matrix diagonal vs rbf",
                          f"{where}: diagonal of the regenerated fast-path matrix vs the real one: {M._maxerr(gff, wantd)}")
    elif kind == "Kgkx":
        f = dict(p.split("=", 1) for p in rep.split(";"))
        obs, full = data["obs"], data["full"]
        ctx.case(f"Kx|{data['name']}|{data['kb']}|{data['b1']}|{data['b2']}")
        where = f"{data['name']} (family {data['fam']}) kernel batch {data['kb']}, x1 batch {data['b1']}, x2 batch {data['b2']}"
        for key, real in (("swap", obs["swap"]), ("swap", obs["mT"]), ("rep", obs["rep"]), ("stack", obs.get("stack"))):
            if real is None or f[key] == "-":
                continue
            gen = torch.tensor(_bits(f[key]), dtype=torch.float64)
            if gen.numel() != real.numel():
                ctx.broke("correspondence", f"generated {data['fam']}: {key}: shape", f"{where}: {gen.numel()} entries vs {tuple(real.shape)}")
                continue
            gen = gen.reshape(real.shape)
            if not M._close(gen, real):
                ctx.broke("correspondence", f"generated {data['fam']} vs {data['name']}: {key}",
                          f"{where}: regenerated forward on {'(x2, x1)' if key == 'swap' else 'row-repeated inputs' if key == 'rep' else 'stacked inputs'} "
                          f"vs the real {'kernel(x2,x1) / kernel(x1,x2).mT' if key == 'swap' else 'kernel(x1,x2).repeat' if key == 'rep' else 'kernel(cat(x1,x2), cat(x1,x2))'}: "
                          f"{M._maxerr(gen, real)}")
    elif kind == "Kprep":
        ctx.case("Kp|" + line)
        want = data["outcome"]
        cfg = f"active_dims={data['ad']} ard_num_dims={data['ard']} debug={data['debug']} x1={data['k1']} x2={data['k2']}"
        if want != "ok" or not rep.startswith("ok;"):
            got = rep.split(";")[0]
            if got != want.split(":")[0] or want.startswith("crashed") or got == "crashed":
                ctx.broke("correspondence", "generated Kernel.__call__ preparation: outcome",
                          f"{cfg}: regenerated statement list -> {got}, real __call__ -> {want}")
            return
        parts = dict(p.split("=", 1) for p in rep.split(";")[1:])
        for nm in ("x1", "x2"):
            t = data["seen"][nm]
            toks = parts[nm].split(" ")
            okk = toks[0] == "m" and t.dim() >= 2
            if okk:
                bsh = [] if toks[1] == "-" else [int(v) for v in toks[1].split(",")]
                vals = [] if toks[4] == "-" else [int(v) for v in toks[4].split(",")]
                okk = list(t.shape) == bsh + [int(toks[2]), int(toks[3])] and [int(v) for v in t.reshape(-1).tolist()] == vals
            if not okk:
                ctx.broke("correspondence", "generated Kernel.__call__ preparation: prepared rows",
                          f"{cfg}: {nm}_ handed to forward has shape {tuple(t.shape)}, values {t.reshape(-1).tolist()[:12]}…; "
                          f"regenerated preparation gives {parts[nm][:120]}")
                return
        if (data["k2"] is None) != data["seen"]["same_obj"]:
            ctx.broke("correspondence", "generated Kernel.__call__ preparation: x2 defaults to x1_",
                      f"{cfg}: x2_ is x1_ = {data['seen']['same_obj']}")
    elif kind == "Kcdiag":
        ctx.case("Kc|" + line)
        res, out = data["res_shape"], data["out_shape"]
        if rep not in ("true", "false"):
            ctx.broke("correspondence", "generated diag decision", f"`{line}` -> {rep}")
            return
        pred = res[:-1] if rep == "true" else res
        if tuple(pred) != tuple(out):
            ctx.broke("correspondence", "generated `res.diagonal()` decision of Kernel.__call__(diag=True)",
                      f"{data['cls']} kernel batch {data['kb']}, x1 batch {data['b1']}, x2 batch {data['b2']}, last_dim_is_batch="
                      f"{data['ldb']}: forward returned shape {res}; regenerated decision {rep} predicts {tuple(pred)}, "
                      f"the real call returns {tuple(out)}")
    elif kind == "Kbranch":
        ctx.case("Kb|" + line)
        if rep != ("true" if data["generic"] else "false"):
            ctx.broke("correspondence", f"generated branch condition of {data['which']} forward",
                      f"(x1.requires_grad, x2.requires_grad, ard_num_dims, diag, last_dim_is_batch, trace_mode) = {data['cfg']}: "
                      f"regenerated condition says generic={rep}, the real forward took the "
                      f"{'generic' if data['generic'] else 'fast'} branch")


# ------------------------------------------------------------------ L: kernel-ALGEBRA histories (operator histories on one object)

def _structure(kernel):
    out = [(nm, type(m).__name__) for nm, m in kernel.named_modules()]
    for nm, m in kernel.named_modules():
        if hasattr(m, "kernels"):
            out.append((nm + ".kernels", len(m.kernels)))
        if hasattr(m, "base_kernel"):
            out.append((nm + ".base_kernel", type(m.base_kernel).__name__))
    return out


UNEQUAL_LS = [0.45, 1.3, 2.9]


def _set_unequal(kernel, seedval, label):
    """random parameters; every ARD lengthscale / variance gets clearly UNEQUAL entries per dimension (and per batch)"""
    import torch
    M = _M()
    g = M._gen(seedval, f"uneq:{label}")
    with torch.no_grad():
        for p in kernel.parameters():
            p.copy_(0.6 * torch.randn(p.shape, generator=g, dtype=torch.float64))
        for m in kernel.modules():
            for attr in ("lengthscale", "variance"):
                if hasattr(m, "raw_" + attr) and getattr(m, "raw_" + attr).shape[-1] == M.D_IN and attr in ("lengthscale", "variance"):
                    cur = getattr(m, attr)
                    base = torch.tensor(UNEQUAL_LS, dtype=torch.float64).expand_as(cur).clone()
                    nb = cur[..., 0].numel()
                    fac = (1.0 + 0.37 * torch.arange(nb, dtype=torch.float64)).reshape(cur.shape[:-1] + (1,))
                    try:
                        setattr(m, attr, base * fac)
                    except Exception:
                        pass
    kernel.double()
    kernel.eval()
    return kernel


def algebra_operands():
    import torch
    from gpytorch import kernels as K
    M = _M()
    D = M.D_IN

    def B(b):
        return torch.Size(b)
    return {
        "rbf_ard": lambda b: K.RBFKernel(ard_num_dims=D, batch_shape=B(b)),
        "sum2": lambda b: K.RBFKernel(ard_num_dims=D, batch_shape=B(b)) + K.MaternKernel(nu=1.5, batch_shape=B(b)),
        "prod2": lambda b: K.RBFKernel(batch_shape=B(b)) * K.LinearKernel(ard_num_dims=D, batch_shape=B(b)),
        "scale_matern_ard": lambda b: K.ScaleKernel(K.MaternKernel(nu=2.5, ard_num_dims=D, batch_shape=B(b)), batch_shape=B(b)),
        "rbf_ad": lambda b: K.RBFKernel(batch_shape=B(b), active_dims=[2, 0]),
        "sum_of_prod": lambda b: (K.RBFKernel(batch_shape=B(b)) * K.PeriodicKernel(batch_shape=B(b))) + K.LinearKernel(batch_shape=B(b)),
        "prod_of_sum": lambda b: (K.RBFKernel(batch_shape=B(b)) + K.CosineKernel(batch_shape=B(b))) * K.MaternKernel(nu=0.5, batch_shape=B(b)),
    }


def algebra_ops():
    """name -> (operation(a, b), expected dense value (Ka, Kb, result kernel) or None when only the operand is judged)"""
    import copy
    import torch
    from gpytorch import kernels as K
    M = _M()
    return {
        "a + b": (lambda a, b: a + b, lambda Ka, Kb, r: Ka + Kb),
        "b + a": (lambda a, b: b + a, lambda Ka, Kb, r: Ka + Kb),
        "a * b": (lambda a, b: a * b, lambda Ka, Kb, r: Ka * Kb),
        "b * a": (lambda a, b: b * a, lambda Ka, Kb, r: Ka * Kb),
        "a + a": (lambda a, b: a + a, lambda Ka, Kb, r: Ka + Ka),
        "(a + b) + b": (lambda a, b: (a + b) + b, lambda Ka, Kb, r: Ka + Kb + Kb),
        "AdditiveKernel(a, b)": (lambda a, b: K.AdditiveKernel(a, b), lambda Ka, Kb, r: Ka + Kb),
        "ProductKernel(a, b)": (lambda a, b: K.ProductKernel(a, b), lambda Ka, Kb, r: Ka * Kb),
        "ScaleKernel(a)": (lambda a, b: K.ScaleKernel(a), lambda Ka, Kb, r: r.outputscale.detach().reshape(r.outputscale.shape + (1, 1)) * Ka),
        "AdditiveStructureKernel(a)": (lambda a, b: K.AdditiveStructureKernel(a, num_dims=M.D_IN), None),
        "deepcopy(a)": (lambda a, b: copy.deepcopy(a), lambda Ka, Kb, r: Ka),
        "a[0]": (lambda a, b: a[0], lambda Ka, Kb, r: Ka[0]),
        "a[[1, 0]]": (lambda a, b: a[torch.tensor([1, 0])], lambda Ka, Kb, r: Ka[torch.tensor([1, 0])]),
        "a.expand_batch": (lambda a, b: a.expand_batch(torch.Size([3]) + a.batch_shape), lambda Ka, Kb, r: Ka.expand(3, *Ka.shape)),
    }


def part_L(ctx, seedval, only=None):
    import torch
    import gpytorch
    M = _M()
    n1, n2 = 4, 3
    ops = algebra_ops()
    operands = algebra_operands()
    from gpytorch import kernels as K
    for aname, afac in operands.items():
        for kb in ((), (2,)):
            for oname, (op, expect) in ops.items():
                if only is not None and (aname, list(kb), oname) != tuple(only):
                    continue
                if oname.startswith("a[") and not kb:
                    continue
                if oname == "AdditiveStructureKernel(a)" and aname in ("rbf_ard", "scale_matern_ard", "rbf_ad", "prod2"):
                    continue                                   # ARD / active_dims kernels cannot be applied per column
                composite = aname in ("sum2", "prod2", "sum_of_prod", "prod_of_sum")
                if oname == "a.expand_batch" and composite:
                    pass
                base = {"part": "algebra-history", "operand": aname, "kernel_batch": list(kb), "op": oname}
                tag = f"L|{aname}|{kb}|{oname}"
                a = _set_unequal(afac(kb), seedval, f"L:a:{aname}:{kb}")
                fresh = _set_unequal(afac(kb), seedval, f"L:a:{aname}:{kb}")
                b = _set_unequal(K.RQKernel(ard_num_dims=M.D_IN, batch_shape=torch.Size(kb)), seedval, f"L:b:{kb}")
                g = M._gen(seedval, f"L:{aname}:{kb}")
                x1, x2 = M._randn(g, n1, M.D_IN), M._randn(g, n2, M.D_IN)
                try:
                    with torch.no_grad(), warnings.catch_warnings(), gpytorch.settings.lazily_evaluate_kernels(False):
                        warnings.simplefilter("ignore")
                        Ka = M._dense(fresh(x1, x2)).detach()
                        Ka11 = M._dense(fresh(x1, x1)).detach()
                        Kb = M._dense(b(x1, x2)).detach()
                except Exception:
                    ctx.count("L_cells_rejected")
                    continue

                def cmp(what, fn, want, phase):
                    ctx.case(f"{tag}|{phase}|{what}")
                    try:
                        with torch.no_grad(), warnings.catch_warnings():
                            warnings.simplefilter("ignore")
                            got = M._dense(fn()).detach()
                    except Exception as e:
                        ctx.fail(f"algebra-history:{phase}:raises", f"operand {aname} kernel batch {kb}, operation `{oname}`: {what} "
                                 f"raises {type(e).__name__}: {str(e)[:140]}", dict(base, what=what, phase=phase))
                        return
                    if got.shape != want.shape and got.numel() == want.numel():
                        try:
                            got = got.expand(want.shape)
                        except RuntimeError:
                            pass
                    if not M._close(got, want):
                        ctx.fail(f"algebra-history:{phase}", f"operand {aname} kernel batch {kb}, operation `{oname}`: {what} differs "
                                 f"from {'the expected combination of the operands' if phase == 'result' else 'a freshly built operand'}"
                                 f": {M._maxerr(got, want)}", dict(base, what=what, phase=phase))
                # ---- use the operand, keep lazy tensors created BEFORE the operation
                with torch.no_grad(), warnings.catch_warnings():
                    warnings.simplefilter("ignore")
                    cmp("a(x1,x2).to_dense()", lambda: a(x1, x2), Ka, "before")
                    L0 = a(x1, x2)
                    L1 = a(x1)
                snap0, struct0 = _snapshot(a), _structure(a)
                # ---- the operation
                ctx.case(f"{tag}|operation")
                try:
                    with torch.no_grad(), warnings.catch_warnings():
                        warnings.simplefilter("ignore")
                        r = op(a, b)
                except Exception as e:
                    if oname == "a.expand_batch" and composite:
                        ctx.count("L_expand_batch_composite_rejected")
                    else:
                        ctx.count("L_operation_rejected")
                        ctx.notes.setdefault("L_rejections", {})[f"{aname}:{kb}:{oname}"] = f"{type(e).__name__}: {str(e)[:80]}"
                    r = None
                if r is not None and expect is not None:
                    try:
                        want = expect(Ka, Kb, r)
                        cmp(f"({oname})(x1,x2).to_dense()", lambda: r(x1, x2), want, "result")
                    except Exception as e:
                        ctx.count("L_result_oracle_rejected")
                elif r is not None:
                    cmp(f"({oname})(x1,x2) evaluates", lambda: r(x1, x2), M._dense(r(x1, x2)).detach(), "result")
                # ---- the operand afterwards: attributes, structure, later outputs, EARLIER lazy tensors
                ctx.case(f"{tag}|attributes")
                if _structure(a) != struct0:
                    ch = [f"{p} -> {q}" for p, q in zip(struct0, _structure(a)) if p != q] or [f"{len(struct0)} -> {len(_structure(a))} modules"]
                    ctx.fail("algebra-history:attributes:structure", f"operand {aname} kernel batch {kb}: `{oname}` changed the module tree "
                             f"of the operand: {'; '.join(map(str, ch))[:200]}", dict(base, what="structure", phase="attributes"))
                for key, what in _snap_diff(snap0, _snapshot(a)):
                    ctx.fail(f"algebra-history:attributes:{key}", f"operand {aname} kernel batch {kb}: `{oname}` changed the operand: "
                             f"{key}: {what}", dict(base, what=key, phase="attributes"))
                dg = Ka11.diagonal(dim1=-1, dim2=-2)
                cmp("a(x1,x2).to_dense()", lambda: a(x1, x2), Ka, "after")
                cmp("a(x2,x1).to_dense()", lambda: a(x2, x1), Ka.mT, "after")
                cmp("a(x1, diag=True)", lambda: a(x1, diag=True), dg, "after")
                cmp("a(x1).diagonal()", lambda: a(x1).diagonal(dim1=-1, dim2=-2), dg, "after")
                with gpytorch.settings.lazily_evaluate_kernels(False):
                    cmp("eager a(x1,x2)", lambda: a(x1, x2), Ka, "after")
                cmp("lazy tensor created before the operation .to_dense()", lambda: L0, Ka, "earlier-lazy")
                cmp("lazy tensor created before the operation [..., 1:, :2]", lambda: L0[..., 1:, :2], Ka[..., 1:, :2], "earlier-lazy")
                cmp("lazy a(x1) created before the operation .diagonal()", lambda: L1.diagonal(dim1=-1, dim2=-2), dg, "earlier-lazy")
                # the result must not share state that a later change of the result would push into the operand
                if r is not None and oname in ("a[0]", "a[[1, 0]]", "deepcopy(a)"):
                    with torch.no_grad():
                        for p in r.parameters():
                            p.add_(0.25)
                    cmp("a(x1,x2) after the parameters of the result were changed", lambda: a(x1, x2), Ka, "after")


# ------------------------------------------------------------------ M: diag vs diagonal with UNEQUAL ARD lengthscales, every family

def ard_families():
    import torch
    from gpytorch import kernels as K
    M = _M()
    D = M.D_IN

    def B(b):
        return torch.Size(b)
    F = {
        "rbf_ard": lambda b: K.RBFKernel(ard_num_dims=D, batch_shape=B(b)),
        "matern05_ard": lambda b: K.MaternKernel(nu=0.5, ard_num_dims=D, batch_shape=B(b)),
        "matern15_ard": lambda b: K.MaternKernel(nu=1.5, ard_num_dims=D, batch_shape=B(b)),
        "matern25_ard": lambda b: K.MaternKernel(nu=2.5, ard_num_dims=D, batch_shape=B(b)),
        "rq_ard": lambda b: K.RQKernel(ard_num_dims=D, batch_shape=B(b)),
        "periodic_ard": lambda b: K.PeriodicKernel(ard_num_dims=D, batch_shape=B(b)),
        "linear_ard": lambda b: K.LinearKernel(ard_num_dims=D, batch_shape=B(b)),
        "pp1_ard": lambda b: K.PiecewisePolynomialKernel(q=1, ard_num_dims=D, batch_shape=B(b)),
        "rbf_grad_ard": lambda b: K.RBFKernelGrad(ard_num_dims=D, batch_shape=B(b)),
        "matern52_grad_ard": lambda b: K.Matern52KernelGrad(ard_num_dims=D, batch_shape=B(b)),
        "rbf_gradgrad_ard": lambda b: K.RBFKernelGradGrad(ard_num_dims=D, batch_shape=B(b)),
        "poly_grad": lambda b: K.PolynomialKernelGrad(power=2, batch_shape=B(b)),
        "scale_rbf_grad_ard": lambda b: K.ScaleKernel(K.RBFKernelGrad(ard_num_dims=D, batch_shape=B(b)), batch_shape=B(b)),
        "scale_matern52_grad_ard": lambda b: K.ScaleKernel(K.Matern52KernelGrad(ard_num_dims=D, batch_shape=B(b)), batch_shape=B(b)),
        "rbf_ard_plus_matern_ard": lambda b: K.RBFKernel(ard_num_dims=D, batch_shape=B(b)) + K.MaternKernel(nu=1.5, ard_num_dims=D, batch_shape=B(b)),
        "rbf_ard_times_linear_ard": lambda b: K.RBFKernel(ard_num_dims=D, batch_shape=B(b)) * K.LinearKernel(ard_num_dims=D, batch_shape=B(b)),
        "multitask_rbf_ard": lambda b: K.MultitaskKernel(K.RBFKernel(ard_num_dims=D, batch_shape=B(b)), num_tasks=2, rank=1, batch_shape=B(b)),
        "rbf_grad_ard_ad": lambda b: K.RBFKernelGrad(ard_num_dims=2, batch_shape=B(b), active_dims=[2, 0]),
    }
    return F


def part_M(ctx, seedval, only=None):
    import torch
    import gpytorch
    M = _M()
    n = 3
    for name, fac in ard_families().items():
        for kb, bx in (((), ()), ((2,), ()), ((2,), (2,)), ((), (2,))):
            if only is not None and (name, list(kb), list(bx)) != tuple(only):
                continue
            if name.startswith("multitask") and kb and tuple(bx) != tuple(kb):
                ctx.count("M_batched_multitask_on_unbatched_inputs_skipped")    # documented Kronecker batch limitation (part B)
                continue
            try:
                kernel = fac(kb)
            except Exception as e:
                ctx.count("M_construct_rejected")
                continue
            if name == "rbf_grad_ard_ad":
                with torch.no_grad():
                    kernel.lengthscale = torch.tensor([0.45, 2.9], dtype=torch.float64).expand_as(kernel.lengthscale).clone()
                kernel.double()
                kernel.eval()
            else:
                _set_unequal(kernel, seedval, f"M:{name}:{kb}")
            g = M._gen(seedval, f"M:{name}:{kb}:{bx}")
            x = M._randn(g, *bx, n, M.D_IN)
            x2 = M._randn(g, *bx, n, M.D_IN)
            base = {"part": "diag-ard", "kernel": name, "kernel_batch": list(kb), "x_batch": list(bx)}
            tag = f"M|{name}|{kb}|{bx}"
            try:
                with torch.no_grad(), gpytorch.settings.lazily_evaluate_kernels(False), warnings.catch_warnings():
                    warnings.simplefilter("ignore")
                    Dxx = M._dense(kernel(x, x.clone())).detach()
            except Exception as e:
                ctx.count("M_cells_rejected_by_kernel")
                ctx.notes.setdefault("M_cells_rejected", {})[f"{name}:{kb}:{bx}"] = f"{type(e).__name__}: {str(e)[:80]}"
                continue
            t = Dxx.shape[-1] // n
            want = Dxx.diagonal(dim1=-1, dim2=-2)
            try:
                with torch.no_grad(), gpytorch.settings.lazily_evaluate_kernels(False), warnings.catch_warnings():
                    warnings.simplefilter("ignore")
                    D12 = M._dense(kernel(x, x2)).detach()
            except Exception:
                D12 = None
            sl = slice(t, None)            # aligned with the outputs of one point
            checks = [
                ("kernel(x, diag=True)", lambda: kernel(x, diag=True), want),
                ("kernel(x, x, diag=True)", lambda: kernel(x, x, diag=True), want),
                ("kernel(x).diagonal()", lambda: kernel(x).diagonal(dim1=-1, dim2=-2), want),
                ("kernel(x, x.clone()).diagonal()", lambda: kernel(x, x.clone()).diagonal(dim1=-1, dim2=-2), want),
                ("kernel(x)[..., t:, t:].diagonal() (aligned slice)", lambda: kernel(x)[..., sl, sl].diagonal(dim1=-1, dim2=-2), want[..., t:]),
                ("kernel(x).to_dense().diagonal()", lambda: M._dense(kernel(x)).diagonal(dim1=-1, dim2=-2), want),
            ]
            if D12 is not None:
                w12 = D12.diagonal(dim1=-1, dim2=-2)
                checks += [("kernel(x, x2, diag=True)", lambda: kernel(x, x2, diag=True), w12),
                           ("kernel(x, x2).diagonal()", lambda: kernel(x, x2).diagonal(dim1=-1, dim2=-2), w12)]
            for lazy in (True, False):
                for what, fn, w in checks:
                    ctx.case(f"{tag}|lazy={int(lazy)}|{what}")
                    rep = dict(base, what=what, lazy=lazy)
                    try:
                        with torch.no_grad(), gpytorch.settings.lazily_evaluate_kernels(lazy), warnings.catch_warnings():
                            warnings.simplefilter("ignore")
                            got = M._dense(fn()).detach()
                    except Exception as e:
                        if "x2" in what and "only works when x1 == x2" in str(e):
                            ctx.count("M_diag_x1_ne_x2_rejected_by_design")     # derivative kernels: documented restriction
                            continue
                        ctx.fail("diag-ard:raises", f"{name} (unequal ARD lengthscales) kernel batch {kb}, inputs batch {bx}, lazy={lazy}: "
                                 f"{what} raises {type(e).__name__}: {str(e)[:140]}", rep)
                        continue
                    if got.shape != w.shape and got.numel() == w.numel():
                        try:
                            got = got.expand(w.shape)
                        except RuntimeError:
                            pass
                    if not M._close(got, w):
                        ctx.fail(f"diag-ard:{'multiout' if t > 1 else 'single'}", f"{name} (unequal ARD lengthscales) kernel batch {kb}, "
                                 f"inputs batch {bx}, lazy={lazy}: {what} differs from the diagonal of the full matrix: {M._maxerr(got, w)}", rep)


# ------------------------------------------------------------------ N: chunked matmul (`beta_features.checkpoint_kernel`)

def part_N(ctx, seedval, only=None):
    """`beta_features.checkpoint_kernel(k)`: the lazy tensor is multiplied chunk by chunk (`_matmul`) instead of being
    evaluated — `K @ v` must equal `K.to_dense() @ v` for every kernel family, in particular for kernels with `active_dims`
    (any listed order, ARD), and the kernel object must be unchanged afterwards."""
    import torch
    import gpytorch
    from gpytorch import kernels as K
    M = _M()
    fams = dict(M.kernel_factories())
    for ad in ([1, 0], [0, 2], [2, 0], [1]):
        fams[f"rbf_ard_ad{ad}"] = (lambda b, ad=ad: K.RBFKernel(ard_num_dims=len(ad), active_dims=ad, batch_shape=torch.Size(b)))
        fams[f"scale_matern_ard_ad{ad}"] = (lambda b, ad=ad: K.ScaleKernel(
            K.MaternKernel(nu=1.5, ard_num_dims=len(ad), active_dims=ad, batch_shape=torch.Size(b)), batch_shape=torch.Size(b)))
    n1, n2 = 5, 4
    for name, fac in fams.items():
        for kb in ((), (2,)):
            t = M.MULTI_T.get(name, 1)
            if t > 1 and kb:
                continue
            for split in (2, 5):
                if only is not None and (name, list(kb), split) != tuple(only):
                    continue
                kernel = fac(kb)
                g = M._gen(seedval, f"N:{name}:{kb}")
                with torch.no_grad():
                    for p in kernel.parameters():
                        p.copy_(0.6 * torch.randn(p.shape, generator=g, dtype=torch.float64))
                kernel.double()
                kernel.eval()
                x1, x2 = M._randn(g, n1, M.D_IN), M._randn(g, n2, M.D_IN)
                v = M._randn(g, n2 * t, 2)
                base = {"part": "checkpoint", "kernel": name, "kernel_batch": list(kb), "split": split}
                try:
                    with torch.no_grad(), warnings.catch_warnings(), gpytorch.settings.lazily_evaluate_kernels(False):
                        warnings.simplefilter("ignore")
                        want = M._dense(kernel(x1, x2)).detach() @ v
                except Exception:
                    ctx.count("N_cells_rejected")
                    continue
                snap0 = _snapshot(kernel)
                ctx.case(f"N|{name}|{kb}|split={split}")
                try:
                    with torch.no_grad(), warnings.catch_warnings(), gpytorch.beta_features.checkpoint_kernel(split):
                        warnings.simplefilter("ignore")
                        got = (kernel(x1, x2) @ v).detach()
                    if not M._close(got, want):
                        ctx.fail("checkpoint-kernel:matmul", f"{name} kernel batch {kb}: kernel(x1,x2) @ v under "
                                 f"beta_features.checkpoint_kernel({split}) differs from kernel(x1,x2).to_dense() @ v: "
                                 f"{M._maxerr(got, want)}", dict(base, what="matmul"))
                except Exception as e:
                    ctx.fail("checkpoint-kernel:matmul:raises", f"{name} kernel batch {kb}: kernel(x1,x2) @ v under "
                             f"beta_features.checkpoint_kernel({split}) raises {type(e).__name__}: {str(e)[:120]}", dict(base, what="matmul"))
                for key, what in _snap_diff(snap0, _snapshot(kernel)):
                    ctx.fail(f"checkpoint-kernel:attributes:{key}", f"{name} kernel batch {kb}: a chunked matmul under "
                             f"checkpoint_kernel({split}) changed the kernel object: {key}: {what}", dict(base, what=key))


# ------------------------------------------------------------------ O: wrappers whose batch shape EXTENDS / broadcasts against the inner kernels'

EXT_SHAPES = [((3,), (2, 3)), ((1, 3), (2, 3)), ((2, 1), (2, 3)), ((1,), (3,)), ((), (2,))]
EXT_WRAPPERS = ("x_scale", "x_scale_scale", "x_sum", "x_prod", "x_scale_sum", "x_multitask", "x_addstruct", "x_prodstruct")


def make_ext_wrapper(name, inner, outer, seedval):
    """inner kernels with batch `inner`, the wrapper (or the other member) with batch `outer`: `outer` has more batch
    dimensions than `inner` and / or `inner` has size-1 dimensions; all parameters differ across the batch"""
    import torch
    from gpytorch import kernels as K
    M = _M()
    Bi, Bo = torch.Size(inner), torch.Size(outer)
    base = K.RBFKernel(batch_shape=Bi)
    if name == "x_scale":
        k = K.ScaleKernel(base, batch_shape=Bo)
    elif name == "x_scale_scale":
        k = K.ScaleKernel(K.ScaleKernel(base, batch_shape=Bi), batch_shape=Bo)
    elif name == "x_sum":
        k = K.AdditiveKernel(base, K.MaternKernel(nu=1.5, batch_shape=Bo))
    elif name == "x_prod":
        k = K.ProductKernel(base, K.LinearKernel(batch_shape=Bo))
    elif name == "x_scale_sum":
        k = K.ScaleKernel(K.AdditiveKernel(base, K.MaternKernel(nu=2.5, batch_shape=Bi)), batch_shape=Bo)
    elif name == "x_multitask":
        k = K.MultitaskKernel(base, num_tasks=2, rank=1, batch_shape=Bo)
    elif name == "x_addstruct":
        k = K.AdditiveStructureKernel(K.ScaleKernel(base, batch_shape=Bo), num_dims=M.D_IN)
    elif name == "x_prodstruct":
        k = K.ProductStructureKernel(K.ScaleKernel(base, batch_shape=Bo), num_dims=M.D_IN)
    else:
        raise ValueError(name)
    g = M._gen(seedval, f"xparams:{name}:{inner}:{outer}")
    with torch.no_grad():
        for p in k.parameters():
            p.copy_(0.6 * torch.randn(p.shape, generator=g, dtype=torch.float64))
    k.double()
    k.eval()
    return k


def part_O(ctx, seedval, only=None):
    import torch
    import gpytorch
    M = _M()
    rng = ctx.rng("O")
    n = 4
    for name in EXT_WRAPPERS:
        t = 2 if name == "x_multitask" else 1
        for inner, outer in EXT_SHAPES:
            if only is not None and (name, list(inner), list(outer)) != tuple(only):
                continue
            kernel = make_ext_wrapper(name, inner, outer, seedval)
            g = M._gen(seedval, f"O:{name}:{inner}:{outer}")
            # a batched MultitaskKernel needs inputs that carry the batch (documented Kronecker limitation, part B)
            x = M._randn(g, *(outer if t > 1 else ()), n, M.D_IN)
            base = {"part": "wrapper-ext", "kernel": name, "inner_batch": list(inner), "outer_batch": list(outer)}
            tag = f"O|{name}|{inner}|{outer}"
            try:
                with torch.no_grad(), gpytorch.settings.lazily_evaluate_kernels(False), warnings.catch_warnings():
                    warnings.simplefilter("ignore")
                    D = M._dense(kernel(x)).detach()
            except Exception as e:
                if t > 1:
                    # a MultitaskKernel with a batch shape of its own: explicit Kronecker batch error (documented, part B)
                    ctx.count("O_batched_multitask_rejected")
                    continue
                ctx.case(f"{tag}|kernel-call")
                ctx.fail("wrapper-ext:kernel-call:raises", f"{name} with batch {outer} around kernels with batch {inner}: kernel(x) "
                         f"raises {type(e).__name__}: {str(e)[:140]}", dict(base, what="call"))
                continue
            bs = tuple(D.shape[:-2])
            per_dim = [_batch_dim_forms(b) for b in bs]
            cover = [("S", None, None, None), ("I", bs[-1] - 1 if len(bs) > 1 else 0), ("I", 0)]
            idxs = []
            for d_ in range(len(bs)):
                for f in per_dim[d_]:
                    for others in itertools.product(*[cover if e != d_ else [None] for e in range(len(bs))]):
                        idxs.append(tuple(f if o is None else o for o in others))
            idxs = list(dict.fromkeys(idxs))
            if len(bs) > 1:
                ints = [i for i in idxs if all(j[0] == "I" for j in i)]
                rest = [i for i in idxs if i not in ints]
                k_ = 8 if ctx.quick else 40
                idxs = ints[:12 if ctx.quick else None] + rng.sample(rest, min(k_, len(rest)))
            xe = x.expand(*bs, n, M.D_IN)
            for bi in idxs:
                pidx = tuple(M.py_item(i) for i in bi)
                try:
                    want = D[pidx]
                except Exception:
                    continue
                if 0 in want.shape:
                    continue
                for mode in ("lazy-getitem", "eager-getitem", "kernel-getitem"):
                    if ctx.quick and mode == "eager-getitem":
                        continue
                    ctx.case(f"{tag}|{mode}|{M.enc_idx(bi)}", nontrivial=want.numel() < D.numel())
                    rep = dict(base, what=mode, index_text=M.show_idx(bi))
                    what = (f"kernel{M.show_idx(bi)}(x{M.show_idx(bi) if t > 1 else ''})" if mode == "kernel-getitem"
                            else f"kernel(x){M.show_idx(bi)} (lazy={mode == 'lazy-getitem'})")
                    try:
                        with torch.no_grad(), warnings.catch_warnings(), \
                                gpytorch.settings.lazily_evaluate_kernels(mode == "lazy-getitem"):
                            warnings.simplefilter("ignore")
                            if mode == "kernel-getitem":
                                got = M._dense(kernel[pidx](xe[pidx] if t > 1 else x)).detach()
                            else:
                                got = M._dense(kernel(x)[pidx]).detach()
                    except Exception as e:
                        ctx.fail(f"wrapper-ext:{'kernel-getitem' if mode == 'kernel-getitem' else 'getitem'}:raises",
                                 f"{name} with batch {outer} around kernels with batch {inner} (parameters differ across the batch): {what} "
                                 f"raises {type(e).__name__}: {str(e)[:110]} although the dense tensor of shape {tuple(D.shape)} accepts the "
                                 f"index", rep)
                        continue
                    if not M._close(got, want):
                        ctx.fail(f"wrapper-ext:{'kernel-getitem' if mode == 'kernel-getitem' else 'getitem'}",
                                 f"{name} with batch {outer} around kernels with batch {inner} (parameters differ across the batch): {what} "
                                 f"differs from kernel(x).to_dense(){M.show_idx(bi)}: {M._maxerr(got, want)}", rep)

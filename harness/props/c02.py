"""C02 — exact marginal log likelihood and LOO objective equal their dense definitions (values and gradients).

Tie: translator G7 (harness/translate/g7_mll_assembly.py -> lean/GPVerif/Gen/MLLAssembly.lean: the assembly of the
objectives regenerated from the source on every run; `gen_*` theorems of Props/C02.lean prove it equal to the model; the
driver executes the generated definitions) AND correspondence.  For random exact-GP models (harness/props/_c02models.py) the harness evaluates the
model's own prior mean m and covariance K at the training inputs densely, builds the documented noise S from
the likelihood's public parameters, recomputes every registered prior's log density from closed forms, reads
the registered added-loss terms, and ships A = K + S, r = y - m, the prior terms (with their tensor shapes)
and the added-loss terms as exact rationals to the Lean driver (`drivers/C02.lean`, model
`GPVerif.Model.MLL`): exact quadratic form through the certified inverse, exact determinant through the
certified LDL^T, per-batch prior reduction, assembly and scaling.  `log det` is taken here from the exact
determinant with mpmath.  The implementation's

    ExactMarginalLogLikelihood(model(train_x), train_y)        default path (Cholesky) and fast_computations(log_prob=False)
    LeaveOneOutPseudoLikelihood(...)                           vs the true predictive obtained by deleting point i (exact)
    SumMarginalLogLikelihood on an IndependentModelList         vs the mean of the members' exact values

must agree with the exact values to rtol 1e-9; gradients (no theorem — correspondence only): autograd of the
implementation w.r.t. every raw parameter vs autograd of an independent dense torch re-expression
(rtol 1e-6) and vs central finite differences of that re-expression (rtol 1e-4).
"""
import contextlib
import math
import os
import warnings
from fractions import Fraction

from lib import common as C

ID = "C02"
PROP_MODULES = ["GPVerif.Props.C02"]
BUILD_TARGETS = ["GPVerif.Props.C02", "GPVerif.Gen.MLLAssembly", "GPVerif.Model.MLL", "GPVerif.Model.Proto"]
RULE = ("random exact-GP models: 15 kernel expressions x {zero, constant, linear} mean x {Gaussian, FixedNoise, "
        "FixedNoise+learned, multitask Kronecker rank 0..t} x batch {none, model, data} x priors {Normal, Gamma, "
        "LogNormal, SmoothedBox} on {lengthscale, outputscale, noise, mean constant} x {SGPR added loss}; every model "
        "is checked on the default (Cholesky) path and with fast_computations(log_prob=False), its gradients against "
        "a dense re-expression and finite differences; LOO and SumMLL on their own model draws. distinct = distinct "
        "(configuration, seed); non-trivial = n >= 2 or at least one prior / added-loss term")
TRUSTED = ["translator harness/translate/g7_mll_assembly.py (Python ast -> Lean expression IR)",
           "pure-Python mirror of the driver protocol (py_step: Fraction Gauss-Jordan) — cross-checked against the "
           "Lean driver on every request line",
           "mpmath log of the exact determinant / exact LOO variances (50 digits)",
           "closed-form prior log densities in harness/props/_c02models.py (Normal, Gamma, LogNormal, SmoothedBox)",
           "modelled not verified: torch autograd, torch.linalg (dense re-expression), linear_operator's "
           "Cholesky / inv_quad_logdet"]
ASSUMPTIONS = ["float64 only; noise >= 0.05, cases with cond(A) > 1e6 are discarded and counted",
               "the value of an added-loss term is taken from the registered term's .loss() (its correctness is "
               "C09's subject); C02 checks that it enters the objective once and is divided by num_data",
               "stochastic (CG / Lanczos) path: monitored as an assumption about linear_operator, within 6 sigma of "
               "the Hutchinson estimator — never reported as a violation of gpytorch",
               "gradients are decided by the correspondence only (no theorem)"]

def generate(ctx):
    """Translator G7: regenerate Gen/MLLAssembly.lean from $VERIF_REPO's working tree (division by num_data, sign and
    order of the added-loss / prior terms, the prior-term reduction expression, the LOO sigma^2 / mu formulas, summands
    and final reduction, the SumMLL mean).  The `gen_*` theorems of Props/C02.lean are re-checked against it and the
    driver executes it."""
    import sys
    sys.path.insert(0, os.path.join(C.VERIF, "harness"))
    from translate import g7_mll_assembly
    out = os.path.join(C.LEAN_DIR, "GPVerif", "Gen", "MLLAssembly.lean")
    try:
        facts, changed = g7_mll_assembly.generate(C.REPO, out)
    except Exception:
        # broken tie: put the baseline back (and rebuild it) so that the driver of the failing-input search runs the
        # model-equal definitions, not a stale file generated from some other tree
        base = os.path.join(C.VERIF, "harness", "translate", "baselines", "MLLAssembly.lean")
        if os.path.exists(base) and (not os.path.exists(out) or open(out).read() != open(base).read()):
            with open(out, "w") as fh:
                fh.write(open(base).read())
        C.lake_build(["GPVerif.Gen.MLLAssembly"])
        raise
    ctx.notes["gen_changed"] = changed
    ctx.notes["gen_facts"] = facts


LOG2PI = math.log(2 * math.pi)
FINDING_PREFIX = "prior-batch-sum:SmoothedBoxPrior:"
FINDING2_PREFIX = "prior-nonbatch-leading-dim:"


# ------------------------------------------------------------------ exact helpers (Python mirror)

def frac_inv(A):
    n = len(A)
    M = [list(A[i]) + [Fraction(int(i == j)) for j in range(n)] for i in range(n)]
    for c in range(n):
        p = next((r for r in range(c, n) if M[r][c] != 0), None)
        if p is None:
            return None
        M[c], M[p] = M[p], M[c]
        piv = M[c][c]
        M[c] = [v / piv for v in M[c]]
        for r in range(n):
            if r != c and M[r][c] != 0:
                f = M[r][c]
                M[r] = [a - f * b for a, b in zip(M[r], M[c])]
    return [row[n:] for row in M]


def frac_det(A):
    n = len(A)
    M = [list(r) for r in A]
    det = Fraction(1)
    for c in range(n):
        p = next((r for r in range(c, n) if M[r][c] != 0), None)
        if p is None:
            return Fraction(0)
        if p != c:
            M[c], M[p] = M[p], M[c]
            det = -det
        det *= M[c][c]
        for r in range(c + 1, n):
            if M[r][c] != 0:
                f = M[r][c] / M[c][c]
                M[r] = [a - f * b for a, b in zip(M[r], M[c])]
    return det


def _take_terms(ts, p):
    c = int(ts[p])
    p += 1
    out = []
    for _ in range(c):
        j = int(ts[p])
        shape = [int(x) for x in ts[p + 1:p + 1 + j]]
        p += 1 + j
        N = int(ts[p])
        vals = [Fraction(x) for x in ts[p + 1:p + 1 + N]]
        p += 1 + N
        out.append((shape, vals))
    return out, p


def _prod(l):
    r = 1
    for x in l:
        r *= x
    return r


def _flat(idx, shape):
    r = 0
    for k, (i, s) in enumerate(zip(idx, shape)):
        r += i * _prod(shape[k + 1:])
    return r


def py_reduce(res, b, term):
    shape, vals = term
    k = len(res)
    kept, rest = shape[:k], _prod(shape[k:])
    o = b[len(b) - len(kept):] if len(kept) <= len(b) else b
    bi = [0 if s == 1 else i for s, i in zip(kept, o)]
    row = _flat(bi, kept)
    return sum((vals[row * rest + j] for j in range(rest)), Fraction(0))


def py_step(line):
    ts = line.split()
    op, ts = ts[0], ts[1:]
    rs = C.rat_str
    if op == "sum":
        c = int(ts[0])
        ms = [Fraction(x) for x in ts[1:1 + c]]
        return rs(sum(ms, Fraction(0)) / c)
    k = int(ts[0])
    res = [int(x) for x in ts[1:1 + k]]
    b = [int(x) for x in ts[1 + k:1 + 2 * k]]
    p = 1 + 2 * k
    A, p = C.parse_mat(ts, p)
    n = len(A)
    half = Fraction(1, 2)
    if op == "loograd":     # mirror of MLL.looGrad?
        r, p = C.parse_mat(ts, p)
        cnt = int(ts[p])
        p += 1
        X = frac_inv(A)
        rv = [row[0] for row in r]
        out = []
        for _ in range(cnt):
            D, p = C.parse_mat(ts, p)
            dm, p = C.parse_mat(ts, p)
            if X is None:
                continue
            XD = [[sum(X[i][k] * D[k][j] for k in range(n)) for j in range(n)] for i in range(n)]
            W = [[sum(XD[i][k] * X[k][j] for k in range(n)) for j in range(n)] for i in range(n)]
            b_ = [sum(X[i][j] * rv[j] for j in range(n)) for i in range(n)]
            wr = [sum(W[i][j] * rv[j] for j in range(n)) for i in range(n)]
            xd = [sum(X[i][j] * dm[j][0] for j in range(n)) for i in range(n)]
            g = Fraction(0)
            for i in range(n):
                a, a1, b1 = X[i][i], -W[i][i], -wr[i] - xd[i]
                g += half * a1 / a - b_[i] * b1 / a + half * b_[i] ** 2 * a1 / a ** 2
            out.append(rs(g))
        return "singular" if X is None else " ".join(out)
    if op == "grad":     # mirror of MLL.gradParts? / gradAssemble
        r, p = C.parse_mat(ts, p)
        cnt = int(ts[p])
        p += 1
        X = frac_inv(A)
        rv = [row[0] for row in r]
        out = []
        for _ in range(cnt):
            D, p = C.parse_mat(ts, p)
            dm, p = C.parse_mat(ts, p)
            if X is None:
                continue
            w_ = [sum(X[i][j] * rv[j] for j in range(n)) for i in range(n)]
            wl = [sum(rv[i] * X[i][j] for i in range(n)) for j in range(n)]
            q = sum(wl[i] * D[i][j] * w_[j] for i in range(n) for j in range(n))
            tr = sum(X[i][j] * D[j][i] for i in range(n) for j in range(n))
            mt = sum(dm[i][0] * w_[i] for i in range(n))
            out.append(f"{rs(q)} {rs(tr)} {rs(mt)} {rs(half * q - half * tr + mt)}")
        return "singular" if X is None else " ".join(out)
    if op == "mll":
        r, p = C.parse_mat(ts, p)
        pri, p = _take_terms(ts, p)
        add, p = _take_terms(ts, p)
        nd = int(ts[p])
        X = frac_inv(A)
        if X is None:
            return "singular"
        rv = [row[0] for row in r]
        q = sum(rv[i] * X[i][j] * rv[j] for i in range(n) for j in range(n))
        d = frac_det(A)
        P = sum((py_reduce(res, b, t) for t in pri), Fraction(0))
        L = sum((py_reduce(res, b, t) for t in add), Fraction(0))
        rat = (-(half * q) + P + L) / nd
        return f"{rs(q)} {rs(d)} {rs(P)} {rs(L)} {rs(rat)}"
    if op == "loo":
        y, p = C.parse_mat(ts, p)
        m, p = C.parse_mat(ts, p)
        pri, p = _take_terms(ts, p)
        add, p = _take_terms(ts, p)
        yv, mv = [r[0] for r in y], [r[0] for r in m]
        X = frac_inv(A)
        if X is None:
            return "singular"
        rv = [a - c for a, c in zip(yv, mv)]
        items = []
        for i in range(n):
            if X[i][i] == 0:
                return "singular"
            s2 = 1 / X[i][i]
            mu = yv[i] - sum(X[i][j] * rv[j] for j in range(n)) * s2
            oth = [j for j in range(n) if j != i]
            Z = frac_inv([[A[a][c] for c in oth] for a in oth]) if oth else []
            if Z is None:
                return "singular"
            cz = [sum(A[i][oth[a]] * Z[a][c] for a in range(len(oth))) for c in range(len(oth))]
            mut = mv[i] + sum(cz[c] * rv[oth[c]] for c in range(len(oth)))
            s2t = A[i][i] - sum(cz[c] * A[oth[c]][i] for c in range(len(oth)))
            items.append((mu, s2, mut, s2t, (yv[i] - mu) ** 2 / s2))
        P = sum((py_reduce(res, b, t) for t in pri), Fraction(0))
        L = sum((py_reduce(res, b, t) for t in add), Fraction(0))
        rat = (sum((-(half * it[4]) for it in items), Fraction(0)) + P + L) / n
        return f"{n} " + " ".join(" ".join(rs(v) for v in it) for it in items) + f" {rs(rat)}"
    return "bad-request"


class Oracle:
    def __init__(self, ctx, use_driver=True):
        self.ctx, self.use_driver = ctx, use_driver

    def __call__(self, lines):
        if not lines:
            return []
        if not self.use_driver:
            return [py_step(l) for l in lines]
        rep = C.run_driver("C02", lines)
        bad = 0
        for k, (l, a) in enumerate(zip(lines, rep)):
            b = py_step(l)
            if a != b:
                bad += 1
                rep[k] = b    # the mirror is the model / specification: the implementation is judged against it
                if bad <= 3:
                    self.ctx.broke("correspondence", "driver-vs-python-mirror:" + l.split()[0],
                                   f"request `{l[:160]}`\nlean:   {a[:200]}\npython: {b[:200]}")
        self.ctx.count("driver_lines", len(lines))
        self.ctx.count("driver_python_mismatches", bad)
        return rep


def mplog(fr):
    import mpmath
    mpmath.mp.dps = 50
    fr = C.frac(fr)
    return float(mpmath.log(mpmath.mpf(fr.numerator)) - mpmath.log(mpmath.mpf(fr.denominator)))


# ------------------------------------------------------------------ spec side from the real model

def term_tokens(t):
    t = t.detach()
    flat = t.reshape(-1).tolist()
    return f"{t.dim()} " + "".join(f"{s} " for s in t.shape) + f"{len(flat)} " + " ".join(C.rat_str(v) for v in flat)


def terms_tokens(ts):
    return f"{len(ts)} " + " ".join(term_tokens(t) for t in ts)


def all_idx(shape):
    import itertools
    return list(itertools.product(*[range(s) for s in shape]))


def dense_parts(w):
    """Model's own prior at the training inputs, densely; the documented noise; flattened targets."""
    import gpytorch
    from props import _c02models as Mz
    model = w.model
    out = model(*model.train_inputs)
    K = out.lazy_covariance_matrix.to_dense()
    m = out.mean
    y = w.train_y
    if isinstance(out, gpytorch.distributions.MultitaskMultivariateNormal):
        if out._interleaved:
            m = m.reshape(*m.shape[:-2], -1)      # interleaved flat index: point·t + task
            y = y.reshape(*y.shape[:-2], -1)
        else:                                     # task-major flat index: task·n + point
            m = m.transpose(-1, -2).reshape(*m.shape[:-2], -1)
            y = y.transpose(-1, -2).reshape(*y.shape[:-2], -1)
        if out._interleaved != getattr(w, "il", True):
            raise RuntimeError("model returned a layout other than the configured one")
    S = Mz.noise_dense(w, getattr(w, "call_noise", None))
    A = K + S
    # kernel evaluations are symmetric only up to rounding (1e-16); the certified LDL^T needs exact symmetry
    A = (A + A.transpose(-1, -2)) / 2
    return out, A, m, y


def prior_terms(w):
    """Elementwise log prior densities, one tensor per registered prior, in *specification shape*: the leading
    len(batch) dimensions are the batch dimensions of the parameter — the parameter's own leading dimensions when the
    model is batched (cfg batch == 'model'), singleton dimensions when the parameter is shared by all batch elements
    (data batch).  These are exactly the shapes for which `MLL.priorReduce` is proved to be the per-batch sum
    (`prior_view_sum_per_batch`, `prior_shared_all_batches`)."""
    import torch
    from props import _c02models as Mz
    out = []
    k = len(w.batch)
    for (_site, kind, a, b, getter, _own) in w.priors:
        t = Mz.prior_logpdf(torch, kind, a, b, getter())
        if k and w.cfg["batch"] != "model":
            t = t.reshape((1,) * k + tuple(t.shape))
        out.append(t)
    return out


def reduce_terms(terms, batch):
    """Per-batch-element total of a list of terms (same rule as MLL.priorReduce, on aligned / shared shapes)."""
    import torch
    k = len(batch)
    tot = torch.zeros(batch, dtype=torch.float64)
    for t in terms:
        kept = t.reshape(*t.shape[:k], -1).sum(-1)
        tot = tot + kept
    return tot


def dense_value(w):
    """Independent dense torch re-expression of the property's formula, per batch element (with graph)."""
    import torch
    from props import _c02models as Mz
    out, A, m, y = dense_parts(w)
    r = (y - m)
    B = torch.broadcast_shapes(A.shape[:-2], r.shape[:-1])
    A = A.expand(*B, *A.shape[-2:])
    r = r.expand(*B, r.shape[-1])
    N = A.shape[-1]
    quad = (r.unsqueeze(-2) @ torch.linalg.solve(A, r.unsqueeze(-1))).squeeze(-1).squeeze(-1)
    logdet = torch.linalg.slogdet(A)[1]
    val = -0.5 * (quad + logdet + N * LOG2PI)
    val = val + reduce_terms(prior_terms(w), tuple(B))
    added = [t.loss() for t in Mz.registered_added_loss_terms(w.model)]
    val = val + reduce_terms(added, tuple(B))
    return val / N


def finding_sites(w):
    """Sites of the SmoothedBox-on-batched-scalar-parameter finding present in this model (see docs/C02.md)."""
    if w.cfg["batch"] != "model":
        return []
    return sorted({site for (site, kind, _a, _b, getter, _o) in w.priors
                   if kind == "smoothedbox" and getter().dim() == 1})


def _code_form_term(w, kind, a, b, x):
    """What `_add_other_terms` adds to each batch element for a prior on a NON-batched parameter of own shape `x.shape`
    under a data batch `w.batch` (res_ndim = len(batch)): `lp.view(*lp.shape[:res_ndim], -1).sum(-1)` broadcast-added in
    place onto `res`.  Returns the per-batch tensor, or None when that in-place add cannot broadcast (RuntimeError)."""
    import torch
    from props import _c02models as Mz
    lp = Mz.prior_logpdf(torch, kind, a, b, x)
    if kind == "smoothedbox" and lp.dim() >= 1:
        lp = lp.sum(-1)            # SmoothedBoxPrior.log_prob reduces its last dimension itself
    k = len(w.batch)
    try:
        cf = lp.reshape(*lp.shape[:k], -1).sum(-1)
        return torch.zeros(w.batch, dtype=torch.float64).add_(cf) if not cf.requires_grad else torch.zeros(w.batch, dtype=torch.float64) + cf.expand(w.batch)
    except RuntimeError:
        return None


def nb_sites(w):
    """Sites of the second finding: a *non-batched* multi-element parameter (own shape without leading singleton batch
    dimensions: MultitaskGaussianLikelihood.task_noises [t]; an ARD lengthscale [1, d] under >= 2 data-batch dimensions;
    …) under a data batch: `_add_other_terms` takes the leading dimensions of the prior term for batch dimensions.  A site
    is listed when the code-form reduction differs from the per-batch definition (or cannot broadcast)."""
    import torch
    from props import _c02models as Mz
    if w.cfg["batch"] != "data" or not len(w.batch):
        return []
    out = set()
    with torch.no_grad():
        for (site, kind, a, b, getter, _o) in w.priors:
            x = getter().detach()
            cf = _code_form_term(w, kind, a, b, x)
            spec = Mz.prior_logpdf(torch, kind, a, b, x).sum()
            if cf is None or float((cf - spec).abs().max()) > 1e-12 * (1 + abs(float(spec))):
                out.add(site)
    return sorted(out)


def finding_shift(w, graph=False):
    """What the implementation adds instead of the per-batch definition, per batch element, divided by N:
    (A) SmoothedBoxPrior's sum(-1) swallows the batch dimension: (sum over all batch elements) - (own element);
    (B) a prior term on a non-batched parameter under a data batch: (code-form reduction) - (sum over all entries)."""
    import torch
    from props import _c02models as Mz
    tot = torch.zeros(w.batch, dtype=torch.float64)
    for (site, kind, a, b, getter, _o) in w.priors:
        x = getter() if graph else getter().detach()
        if kind == "smoothedbox" and w.cfg["batch"] == "model" and x.dim() == 1:
            lp = Mz.prior_logpdf(torch, kind, a, b, x)
            tot = tot + (lp.sum() - lp)
        if w.cfg["batch"] == "data" and len(w.batch):
            cf = _code_form_term(w, kind, a, b, x)
            if cf is not None:
                tot = tot + (cf - Mz.prior_logpdf(torch, kind, a, b, x).sum())
    return tot / w.N


def twice_shift(w):
    """(k-1) x log prior density for every *registration* that `model.named_priors()` yields k > 1 times (its module is
    reachable through several attribute paths), per batch element, divided by N; plus the sites concerned.
    Registrations are identified by (module, local prior name) — NOT by the Prior instance, which may legitimately be
    shared by several registrations."""
    import torch
    from props import _c02models as Mz
    seen = {}
    for name, mod, _prior, _closure, _ in w.model.named_priors():
        k = (id(mod), name.rsplit(".", 1)[-1])
        seen[k] = seen.get(k, 0) + 1
    terms, sites = [], set()
    for (site, kind, a, b, getter, own), reg in zip(w.priors, w.prior_regs):
        k = seen.get(reg, 0)
        if k > 1:
            terms.append((k - 1) * Mz.prior_logpdf(torch, kind, a, b, getter().detach()))
            sites.add(site)
    return reduce_terms(_spec_shape(w, terms), tuple(w.batch)) / w.N, sorted(sites)


def dropped_shift(w):
    """-(log prior density) of every registration that `model.named_priors()` does not yield at all, per batch element,
    divided by N; plus the owners concerned."""
    import torch
    from props import _c02models as Mz
    seen = {(id(mod), name.rsplit(".", 1)[-1]) for name, mod, _p, _c, _ in w.model.named_priors()}
    terms, owners = [], []
    for (site, kind, a, b, getter, own), reg in zip(w.priors, w.prior_regs):
        if reg not in seen:
            terms.append(-Mz.prior_logpdf(torch, kind, a, b, getter().detach()))
            owners.append(own)
    return reduce_terms(_spec_shape(w, terms), tuple(w.batch)) / w.N, owners


def _spec_shape(w, terms):
    k = len(w.batch)
    if k and w.cfg["batch"] != "model":
        return [t.reshape((1,) * k + tuple(t.shape)) for t in terms]
    return terms


def check_added_registrations(case, w):
    """`model.added_loss_terms()` must enumerate every registered added-loss term exactly once, wherever the registering
    module sits in the module tree (also below torch containers such as the ModuleList of a sum / product kernel)."""
    from props import _c02models as Mz
    want = Mz.registered_added_loss_terms(w.model)
    got = list(w.model.added_loss_terms())
    case.notes["added_loss_registrations"] = case.notes.get("added_loss_registrations", 0) + len(want)
    if sorted(id(t) for t in got) != sorted(id(t) for t in want):
        key = "added-loss:registration-dropped" if len(got) < len(want) else "added-loss:registration-repeated"
        case.fail(key, f"model.added_loss_terms() yields {len(got)} terms; {len(want)} are registered in the module tree "
                       f"(covar_module nesting: {w.cfg.get('nest', '-')})")


def added_dropped_shift(w):
    """-(added-loss terms that model.added_loss_terms() does not yield), per batch element, divided by N."""
    import torch
    from props import _c02models as Mz
    got = {id(t) for t in w.model.added_loss_terms()}
    miss = [t for t in Mz.registered_added_loss_terms(w.model) if id(t) not in got]
    with torch.no_grad():
        terms = [-t.loss() for t in miss]
    return reduce_terms(terms, tuple(w.batch)) / w.N, len(miss)


def apply_history(w, mll, cfg):
    """op-then-use: use the model and the objective once (value + backward, an eval-mode prediction that fills the
    prediction caches), then change state through the public API; the objective object is the one built before."""
    import torch
    import gpytorch
    ops = cfg.get("history") or []
    if not ops:
        return mll
    gen = torch.Generator().manual_seed(cfg["seed"] ^ 0x77)
    model, lik = w.model, w.lik
    try:
        v = mll(model(*model.train_inputs), w.train_y)
        v.sum().backward()
    except Exception:
        pass      # reported (with its key) by the measured evaluation below
    model.zero_grad()
    model.eval()
    lik.eval()
    try:
        with torch.no_grad():
            tx = model.train_inputs[0][..., :1, :] + 0.1
            lik(model(tx))
    except Exception:
        pass      # the eval-mode prediction only warms the caches; its own failures are C01's / linear_operator's subject
    model.train()
    lik.train()

    def perturbed(p):
        return p.detach() + 0.3 * torch.randn(p.shape, generator=gen, dtype=torch.float64)
    for op in ops:
        if op == "raw":
            with torch.no_grad():
                for _n, p in model.named_parameters():
                    if p.numel():
                        p.copy_(perturbed(p))
        elif op == "load_state_dict":
            sd = model.state_dict()
            names = {n for n, _ in model.named_parameters()}
            for k in list(sd):
                if k in names and sd[k].numel():
                    sd[k] = perturbed(sd[k])
            model.load_state_dict(sd)
        elif op == "partial_state_dict":
            names = [n for n, p in model.named_parameters() if p.numel()]
            k = names[int(torch.randint(0, len(names), (1,), generator=gen))]
            model.load_state_dict({k: perturbed(dict(model.named_parameters())[k])}, strict=False)
        elif op == "setter":
            for mod in model.modules():
                if getattr(mod, "has_lengthscale", False) and isinstance(mod, gpytorch.kernels.Kernel):
                    mod.lengthscale = 0.6 + 1.4 * torch.rand(mod.lengthscale.shape, generator=gen, dtype=torch.float64)
                if isinstance(mod, gpytorch.kernels.ScaleKernel):
                    mod.outputscale = 0.5 + 1.5 * torch.rand(mod.outputscale.shape, generator=gen, dtype=torch.float64)
                if type(mod).__name__ == "HomoskedasticNoise":
                    mod.noise = 0.05 + 0.4 * torch.rand(mod.noise.shape, generator=gen, dtype=torch.float64)
            # the documented setter of the FIXED noise (`likelihood.noise = new`, alternately `noise_covar.noise = new` /
            # `initialize(noise=new)`): the objective must use the new observation noise from here on
            if isinstance(lik, gpytorch.likelihoods.FixedNoiseGaussianLikelihood):
                newn = 0.05 + 0.9 * torch.rand(lik.noise_covar.noise.shape, generator=gen, dtype=torch.float64)
                how = int(torch.randint(0, 3, (1,), generator=gen))
                if how == 0:
                    lik.noise = newn
                elif how == 1:
                    lik.noise_covar.noise = newn
                else:
                    lik.initialize(noise=newn)
        elif op == "targets":
            new_y = -1.5 + 3.0 * torch.rand(w.train_y.shape, generator=gen, dtype=torch.float64)
            model.set_train_data(targets=new_y, strict=False)
            w.train_y = new_y
        elif op == "load_priors":
            # prior hyper-parameters are buffers: a checkpoint loaded through the MODEL may carry other values than the
            # constructor's; the objective must then use the loaded ones (the spec's (a, b) are updated accordingly)
            sd = model.state_dict()
            newvals = {}
            out_priors = []
            for (site, kind, a, b, getter, own), obj in zip(w.priors, w.prior_objs):
                if kind not in ("normal", "gamma", "lognormal"):
                    out_priors.append((site, kind, a, b, getter, own))
                    continue
                if id(obj) not in newvals:
                    newvals[id(obj)] = (round(0.3 + 1.2 * float(torch.rand(1, generator=gen)), 3),
                                        round(0.4 + 1.6 * float(torch.rand(1, generator=gen)), 3))
                a2, b2 = newvals[id(obj)]
                modname, attr = own.rsplit(".", 1)
                pre = (modname + "." if modname else "") + f"{attr}_verif_prior."
                bufs = {"normal": (("loc", a2), ("scale", b2)), "gamma": (("concentration", 1.0 + a2), ("rate", b2)),
                        "lognormal": (("_transformed_loc", a2 - 0.8), ("_transformed_scale", b2))}[kind]
                ok = all(pre + nm in sd for nm, _v in bufs)
                if ok:
                    for nm, v in bufs:
                        sd[pre + nm] = torch.full_like(sd[pre + nm], v)
                    out_priors.append((site, kind, a2, b2, getter, own))
                else:
                    out_priors.append((site, kind, a, b, getter, own))
            model.load_state_dict(sd)
            w.priors = out_priors
        elif op == "deepcopy":
            # copy history: the OBJECTIVE (likelihood + model) is deep-copied, the copy's hyperparameters are moved, and
            # from here on the copy is the object under test; the original must be left alone (checked at the end)
            import copy
            orig_params = [(p_, p_.detach().clone()) for p_ in model.parameters()]
            mll = copy.deepcopy(mll)
            model, lik = mll.model, mll.likelihood
            mods = dict(model.named_modules())
            new_priors, new_regs = [], []
            for (site, kind, a, b, _g, own), (_mid, pname) in zip(w.priors, w.prior_regs):
                name, attr = own.rsplit(".", 1)
                mod = mods[name]
                new_priors.append((site, kind, a, b, (lambda m=mod, at=attr: getattr(m, at)), own))
                new_regs.append((id(mod), pname))
            w.priors, w.prior_regs = new_priors, new_regs
            w.prior_objs = [mods[own.rsplit(".", 1)[0]]._priors[pname][0] for (*_x, own), (_i, pname) in zip(new_priors, new_regs)]
            w.model, w.lik = model, lik
            w.train_y = model.train_targets
            with torch.no_grad():
                for _n, p in model.named_parameters():
                    if p.numel():
                        p.copy_(perturbed(p))
            w.copy_orig = orig_params
        else:
            raise ValueError(op)
    return mll


def check_registrations(case, w):
    """`named_priors()` must enumerate every registration exactly once (also when one Prior instance is shared)."""
    got = [(id(mod), name.rsplit(".", 1)[-1]) for name, mod, _p, _c, _ in w.model.named_priors()]
    want = list(w.prior_regs)
    case.notes["registrations"] = case.notes.get("registrations", 0) + len(want)
    case.notes["shared_instance_registrations"] = case.notes.get("shared_instance_registrations", 0) + \
        len(w.prior_objs) - len({id(p) for p in w.prior_objs})
    if len(got) != len(want) or sorted(got) != sorted(want):
        missing = [own for (_s, _k, _a, _b, _g, own), reg in zip(w.priors, w.prior_regs) if reg not in got]
        extra = len(got) - len(set(got))
        shared = len(w.prior_objs) - len({id(p) for p in w.prior_objs})
        key = "named-priors:registration-dropped" if missing else "named-priors:registration-repeated"
        case.fail(key, f"model.named_priors() yields {len(got)} entries for {len(want)} registrations "
                       f"({shared} of them share a Prior instance with another registration): "
                       f"missing {missing}, repeated {extra}")


class Case:
    def __init__(self, cfg, what):
        self.cfg, self.what = cfg, what
        self.fails = []
        self.lines = []
        self.finish = None
        self.discard = None
        self.nontrivial = True
        self.notes = {}

    def fail(self, key, msg):
        if len(self.fails) < 6:
            self.fails.append((key, msg))


def _close(a, b, rtol, atol=0.0, cond=1.0):
    """rtol 1e-9 plus the a-posteriori rounding allowance 16·cond(A)·2^-52 (cond <= 1e6 enforced by the generator)."""
    return abs(a - b) <= atol + (rtol + 16 * cond * 2.0 ** -52) * (1 + abs(b))


def mll_lines(w, A, m, y, pri, add, op="mll"):
    """One request line per batch element."""
    import torch
    B = tuple(w.batch)
    lines = []
    Bx = torch.broadcast_shapes(A.shape[:-2], m.shape[:-1], B)
    Ae, me, ye = A.expand(*Bx, *A.shape[-2:]), m.expand(*Bx, m.shape[-1]), y.expand(*Bx, y.shape[-1])
    for bi in all_idx(Bx):
        head = f"{op} {len(Bx)} " + "".join(f"{s} " for s in Bx) + "".join(f"{i} " for i in bi)
        Ai = Ae[bi].detach()
        if op == "mll":
            body = f"{C.mat_tokens(Ai)} {C.vec_tokens((ye[bi] - me[bi]).detach())}"
            tail = f" {w.N}"
        else:
            body = f"{C.mat_tokens(Ai)} {C.vec_tokens(ye[bi].detach())} {C.vec_tokens(me[bi].detach())}"
            tail = ""
        lines.append(head + body + " " + terms_tokens(pri) + " " + terms_tokens(add) + tail)
    return lines, Bx


def exact_mll_values(replies, N):
    """Exact value per batch element from the driver replies (rational part + log part)."""
    vals = []
    for rep in replies:
        if rep in ("singular", "bad-request"):
            vals.append(None)
            continue
        q, d, P, L, rat = (Fraction(x) for x in rep.split())
        if d <= 0:
            vals.append(None)
            continue
        vals.append(float(rat) - 0.5 * (mplog(d) + N * LOG2PI) / N)
    return vals


def run_mll(cfg, do_grad=True):
    import torch
    import gpytorch
    from props import _c02models as Mz
    case = Case(cfg, "mll")
    w = Mz.build(cfg)
    case.nontrivial = cfg["n"] >= 2 or bool(cfg["priors"]) or cfg["family"] == "sgpr"
    tag = f"{cfg['family']}:{cfg['lik']}:{cfg['batch']}"
    fsites = finding_sites(w)
    bsites = nb_sites(w)
    with warnings.catch_warnings():
        warnings.simplefilter("ignore")
        mll = gpytorch.mlls.ExactMarginalLogLikelihood(w.lik, w.model)
        mll = apply_history(w, mll, cfg)
        w.kw = {}
        if cfg.get("call_noise"):      # call-time noise through the objective's **kwargs
            g2 = torch.Generator().manual_seed(cfg["seed"] ^ 0x99)
            w.call_noise = 0.05 + 0.5 * torch.rand(*w.batch, cfg["n"], generator=g2, dtype=torch.float64)
            w.kw = {"noise": w.call_noise}
        lazy_ctx = (lambda: gpytorch.settings.lazily_evaluate_kernels(False)) if cfg.get("lazy") is False \
            else (lambda: contextlib.nullcontext())
        y_before = w.train_y.clone()
        p_before = [p.detach().clone() for p in w.model.parameters()]
        with torch.no_grad():
            out, A, m, y = dense_parts(w)
            pri = prior_terms(w)
            add = [t.loss() for t in Mz.registered_added_loss_terms(w.model)]
            cond = float(torch.linalg.cond(A).max())
            if not cond < 1e6:
                case.discard = "cond>1e6"
                return case
            impl = {}
            for path in ("default", "exact"):
                try:
                    if path == "exact":
                        with gpytorch.settings.fast_computations(log_prob=False), lazy_ctx():
                            impl[path] = mll(w.model(*w.model.train_inputs), w.train_y, **w.kw)
                    else:
                        with lazy_ctx():
                            impl[path] = mll(w.model(*w.model.train_inputs), w.train_y, **w.kw)
                except Exception as e:
                    if bsites and isinstance(e, RuntimeError) and ("must match the size" in str(e) or "doesn't match the broadcast shape" in str(e)) \
                            and any(_code_form_term(w, kind_, a_, b_, g_().detach()) is None for (s_, kind_, a_, b_, g_, _o) in w.priors):
                        case.fail(FINDING2_PREFIX + bsites[0] + ":raises",
                                  f"data batch {list(w.batch)}, prior term on the non-batched parameter `{bsites[0]}`: "
                                  f"_add_other_terms takes its leading dimension(s) for batch dimension(s) and raises "
                                  f"{type(e).__name__}: {str(e)[:120]}")
                    else:
                        case.fail(f"mll-raises:{tag}:{path}", f"mll raised {type(e).__name__}: {str(e)[:200]}")
        case.lines, Bx = mll_lines(w, A, m, y, pri, add)
        shift = finding_shift(w)
        tshift, tsites = twice_shift(w)
        dshift, downers = dropped_shift(w)
        ashift, amiss = added_dropped_shift(w)
        check_registrations(case, w)
        check_added_registrations(case, w)
        if not torch.equal(w.train_y, y_before) or any(not torch.equal(p.detach(), q) for p, q in zip(w.model.parameters(), p_before)):
            case.fail(f"mll-mutates-input:{tag}", "evaluating the objective changed the targets or a parameter in place")
        # ---- history independence of the model's own prior: a fresh twin with the same state evaluates to the same K, m
        if cfg.get("history") and not case.fails:
            twin_check(case, w, A, m, tag)
        # ---- gradients: autograd(impl) vs autograd(dense re-expression) vs finite differences, and (wave 3) vs the EXACT
        # value of the proved formula (Props/C02 `logNormal_gradient`, driver op `grad`)
        grads = None
        if do_grad and len(impl) == 2:
            grads = gradient_check(case, w, mll, tag, fsites or bsites)
            if not case.fails:
                try:
                    exact_gradient_lines(case, w, mll, tag, cond, fsites or bsites)
                except Exception as e:
                    case.notes["exact_grad_skipped"] = f"{type(e).__name__}: {str(e)[:120]}"
        if getattr(w, "copy_orig", None):
            if any(not torch.equal(p_.detach(), q_) for p_, q_ in w.copy_orig):
                case.fail(f"mll-history:copy-moves-original:{tag}", "changing / evaluating the deep copy of the objective "
                          "changed a parameter of the original model")

    def finish(replies):
        exact = exact_mll_values(replies, w.N)
        idxs = all_idx(Bx)
        for path, val in impl.items():
            v = val.detach()
            if tuple(v.shape) != tuple(Bx):
                case.fail(f"mll-shape:{tag}:{path}", f"mll has shape {tuple(v.shape)}, batch shape is {tuple(Bx)}")
                continue
            for bi, ex in zip(idxs, exact):
                if ex is None:
                    case.discard = "singular-in-Q"
                    continue
                got = float(v[bi])
                if _close(got, ex, 1e-9, cond=cond):
                    continue
                if tsites and _close(got, ex + float(tshift[bi] if tshift.dim() else tshift), 1e-9, cond=cond):
                    for site in tsites:
                        case.fail(f"prior-counted-twice:{site}",
                                  f"mll{list(bi)} = {got!r}; dense definition {ex!r}; the prior on `{site}` is added "
                                  f"{'twice' } because Module.named_priors() yields it once per attribute path of its "
                                  f"module (likelihood and covar_module.likelihood): {ex + float(tshift[bi] if tshift.dim() else tshift)!r}")
                    continue
                if amiss and _close(got, ex + float(ashift[bi] if ashift.dim() else ashift), 1e-9, cond=cond):
                    case.fail("added-loss-dropped",
                              f"mll{list(bi)} = {got!r}; dense definition (every registered added-loss term counted) {ex!r}; "
                              f"the implementation omits {amiss} registered added-loss term(s) — covar_module nesting "
                              f"`{cfg.get('nest', '-')}`: the registering module is reachable only through a torch container")
                    continue
                if downers and _close(got, ex + float(dshift[bi] if dshift.dim() else dshift), 1e-9, cond=cond):
                    case.fail("prior-dropped:shared-instance" if len({id(p) for p in w.prior_objs}) < len(w.prior_objs)
                              else "prior-dropped",
                              f"mll{list(bi)} = {got!r}; dense definition (every registered prior counted) {ex!r}; the "
                              f"implementation omits the log prior density of {downers} — Module.named_priors() does "
                              f"not yield these registrations")
                    continue
                if (fsites or bsites) and _close(got, ex + float(shift[bi]), 1e-9, cond=cond):
                    for site in bsites:
                        case.fail(FINDING2_PREFIX + site,
                                  f"data batch {list(Bx)}, prior term on the non-batched parameter `{site}`: "
                                  f"mll{list(bi)} = {got!r}; per-batch definition (sum over all entries of the term) gives "
                                  f"{ex!r}; the implementation takes the term's leading dimension(s) for batch dimension(s)")
                    for site in fsites:
                        case.fail(FINDING_PREFIX + site,
                                  f"batched model (batch {list(Bx)}), SmoothedBoxPrior on `{site}` of shape {list(Bx)}: "
                                  f"mll{list(bi)} = {got!r}; per-batch definition gives {ex!r}; the implementation adds the "
                                  f"prior log density of *all* batch elements to each one (log_prob sums the last = batch "
                                  f"dimension), i.e. {ex + float(shift[bi])!r}")
                    continue
                case.fail(f"mll:{tag}:{path}", f"mll{list(bi)} = {got!r} on the {path} path, exact dense definition "
                                               f"{ex!r} (|diff| {abs(got - ex):.3e}); N={w.N}, priors={cfg['priors']}")
    case.finish = finish
    return case


def gradient_check(case, w, mll, tag, fsites):
    """autograd(impl) vs autograd(dense re-expression) vs central finite differences of the dense value."""
    import torch
    params = [(n, p) for n, p in w.model.named_parameters()]
    names = [n for n, _ in params]
    ps = [p for _, p in params]
    v_impl = mll(w.model(*w.model.train_inputs), w.train_y, **getattr(w, 'kw', {})).sum()
    g_impl = torch.autograd.grad(v_impl, ps, allow_unused=True)
    v_dense = dense_value(w).sum()
    g_dense = torch.autograd.grad(v_dense, ps, allow_unused=True)
    gen = torch.Generator().manual_seed(w.cfg["seed"] ^ 0x5bd1)
    g_alt = None
    if fsites:   # gradient of (dense definition + the SmoothedBox batch-sum shift): what the known finding predicts
        v_alt = (dense_value(w) + finding_shift(w, graph=True)).sum()
        g_alt = torch.autograd.grad(v_alt, ps, allow_unused=True)
    for k, (name, p, gi, gd) in enumerate(zip(names, ps, g_impl, g_dense)):
        key = f"mll-grad:{name}"
        if (gi is None and gd is None) or p.numel() == 0:
            continue
        if gi is None or gd is None:
            z = gd if gi is None else gi
            if float(z.abs().max()) > 1e-12:
                case.fail(key, f"gradient w.r.t. {name}: {'implementation' if gi is None else 'dense definition'} does "
                               f"not depend on it, the other has |grad| up to {float(z.abs().max()):.3e}")
            continue
        scale = float(gd.abs().max())
        diff = float((gi - gd).abs().max())
        if diff > 1e-6 * scale + 1e-9:
            if g_alt is not None and g_alt[k] is not None and \
                    float((gi - g_alt[k]).abs().max()) <= 1e-6 * float(g_alt[k].abs().max()) + 1e-9:
                key = (FINDING2_PREFIX if w.cfg["batch"] == "data" else FINDING_PREFIX) + "grad:" + name
            case.fail(key, f"autograd of the implementation w.r.t. {name} differs from autograd of the dense definition: "
                           f"max |diff| {diff:.3e} (|grad| {scale:.3e}); impl {gi.reshape(-1)[:4].tolist()} dense "
                           f"{gd.reshape(-1)[:4].tolist()}")
            continue
        # central finite differences of the dense value along a random direction, at two step sizes: a real
        # gradient defect shows as two mutually consistent FD estimates that both differ from autograd; FD rounding
        # noise (ill-conditioned K_zz of SGPR models, …) shows as two FD estimates that disagree with each other
        v = torch.randn(p.shape, generator=gen, dtype=torch.float64)
        v = v / v.norm().clamp_min(1e-30)
        dd = float((gi * v).sum())
        fds = []
        for mult in (1.0, 30.0):
            h = mult * 1e-5 * max(1.0, float(p.detach().abs().max()))
            with torch.no_grad():
                p0 = p.detach().clone()
                p.copy_(p0 + h * v)
                fp = float(dense_value(w).sum())
                p.copy_(p0 - h * v)
                fm = float(dense_value(w).sum())
                p.copy_(p0)
            fds.append((fp - fm) / (2 * h))

        def off(fd):
            return abs(fd - dd) > 1e-4 * abs(fd) + 1e-7 * (1 + scale)
        if off(fds[0]) and off(fds[1]):
            if abs(fds[0] - fds[1]) <= 0.1 * min(abs(fds[0] - dd), abs(fds[1] - dd)):
                case.fail(key, f"directional derivative of the implementation along a random direction of {name}: autograd "
                               f"{dd!r}, central finite differences of the dense definition {fds[0]!r} (h) / {fds[1]!r} (30h)")
            else:
                case.notes["fd_unstable"] = case.notes.get("fd_unstable", 0) + 1
    case.notes["grad_params"] = len(ps)
    return True


def twin_check(case, w, A, m, tag):
    """K and m are 'whatever the model's kernel and mean evaluate to': a freshly built twin carrying the same state
    (state_dict, targets) must evaluate to the same prior — otherwise the training-mode evaluation depends on the
    history of the object (stale caches), and the objective is not the dense definition of the CURRENT hyperparameters."""
    import torch
    from props import _c02models as Mz
    try:
        w2 = Mz.build(w.cfg)
        w2.model.load_state_dict(w.model.state_dict())
        if w2.train_y.shape == w.train_y.shape and not torch.equal(w2.train_y, w.train_y):
            w2.model.set_train_data(targets=w.train_y.detach().clone(), strict=False)
            w2.train_y = w.train_y
        if getattr(w, "call_noise", None) is not None:
            w2.call_noise = w.call_noise
        fx = getattr(getattr(w.lik, "noise_covar", None), "noise", None)
        if type(getattr(w.lik, "noise_covar", None)).__name__ == "FixedGaussianNoise" and torch.is_tensor(fx):
            # the fixed noise is a plain attribute (not part of the state_dict): the twin is handed the current one
            w2.lik.noise_covar.noise = fx.detach().clone()
        _o2, A2, m2, _y2 = dense_parts(w2)
    except Exception as e:
        case.notes["twin_skipped"] = f"{type(e).__name__}: {str(e)[:100]}"
        return
    case.notes["twin_checked"] = 1
    sa = float(A.abs().max())
    da = float((A2 - A).abs().max()) if A2.shape == A.shape else float("inf")
    dm = float((m2 - m).abs().max()) if m2.shape == m.shape else float("inf")
    if da > 1e-9 * max(1.0, sa) or dm > 1e-9 * max(1.0, float(m.abs().max())):
        case.fail(f"mll-history:prior-depends-on-history:{tag}",
                  f"after the history {w.cfg.get('history')} the model's own training prior differs from that of a fresh "
                  f"model carrying the same state_dict: max |ΔK| {da:.3e} (|K| {sa:.3e}), max |Δm| {dm:.3e} — the objective "
                  f"is evaluated with stale kernel / mean values")


def exact_gradient_lines(case, w, mll, tag, cond, known_sites, op="grad"):
    """d(objective)/dθ_k for scalar components θ_k of the raw parameters: the implementation's autograd value vs the exact
    value of the proved formula Σ_b [½ rᵀA⁻¹D_kA⁻¹r − ½ tr(A⁻¹D_k) + dμ_kᵀA⁻¹r]/N + d(prior + added terms)/dθ_k, where
    A, r are exact rationals and D_k = ∂A/∂θ_k, dμ_k = ∂m/∂θ_k are the Jacobians of the model's own prior (torch
    autograd of the kernel / mean evaluation — C05 / C19's subject), shipped as exact rationals."""
    import torch
    from props import _c02models as Mz
    cfg = w.cfg
    with torch.enable_grad():
        params = [(nm, p) for nm, p in w.model.named_parameters() if p.requires_grad and p.numel()]
        if not params:
            return
        ps = [p for _, p in params]
        sizes = [p.numel() for p in ps]
        P = sum(sizes)
        out, A, m, y = dense_parts(w)
        Bx = tuple(torch.broadcast_shapes(A.shape[:-2], m.shape[:-1], tuple(w.batch)))
        n = A.shape[-1]
        idxs = all_idx(Bx)
        if len(idxs) * n * n > 320:
            case.notes["exact_grad_skipped"] = "size"
            return
        Ae = A.expand(*Bx, n, n)
        me = m.expand(*Bx, n)
        ye = y.expand(*Bx, n)

        def jac(vec):
            """rows of d vec / d(all raw parameters), vec 1-d with graph"""
            rows = []
            for e in range(vec.numel()):
                if not vec[e].requires_grad:
                    rows.append(torch.zeros(P, dtype=torch.float64))
                    continue
                g = torch.autograd.grad(vec[e], ps, retain_graph=True, allow_unused=True)
                rows.append(torch.cat([(torch.zeros(sz, dtype=torch.float64) if gi is None else gi.reshape(-1).double())
                                       for gi, sz in zip(g, sizes)]))
            return torch.stack(rows)
        JA = [jac(Ae[bi].reshape(-1)).reshape(n, n, P) for bi in idxs]
        Jm = [jac(me[bi].reshape(-1)).reshape(n, P) for bi in idxs]
        v_impl = mll(w.model(*w.model.train_inputs), w.train_y, **getattr(w, "kw", {})).sum()
        g_impl = torch.autograd.grad(v_impl, ps, allow_unused=True, retain_graph=True)   # (SGPR's added-loss term shares this graph)
        G = torch.cat([(torch.zeros(sz, dtype=torch.float64) if gi is None else gi.reshape(-1).double())
                       for gi, sz in zip(g_impl, sizes)])
        Bt = tuple(Bx)
        added = [t.loss() for t in Mz.registered_added_loss_terms(w.model)]
        Ndiv = w.N if op == "grad" else n       # the LOO objective divides by the number of points
        oth = (reduce_terms(prior_terms(w), Bt) + reduce_terms(added, Bt)).sum() / Ndiv

        def flatgrad(v):
            if not getattr(v, "requires_grad", False):
                return torch.zeros(P, dtype=torch.float64)
            g = torch.autograd.grad(v, ps, allow_unused=True, retain_graph=True)
            return torch.cat([(torch.zeros(sz, dtype=torch.float64) if gi is None else gi.reshape(-1).double())
                              for gi, sz in zip(g, sizes)])
        Goth = flatgrad(oth)
        Galt = flatgrad(finding_shift(w, graph=True).sum()) if known_sites else None
    # components: the first entry of every parameter tensor, then random ones, at most 8
    rnd = __import__("random").Random(cfg["seed"] ^ 0x3a7)
    offs, o = [], 0
    for sz in sizes:
        offs.append(o)
        o += sz
    comps = list(offs)
    extra = [k for k in range(P) if k not in comps]
    rnd.shuffle(extra)
    comps = (comps + extra)[:8]
    names = []
    for k in comps:
        t = max(i for i, o_ in enumerate(offs) if o_ <= k)
        names.append(f"{params[t][0]}[{k - offs[t]}]")
    lines = []
    for bi, JA_b, Jm_b in zip(idxs, JA, Jm):
        body = f"{op} 0 {C.mat_tokens(Ae[bi].detach())} {C.vec_tokens((ye[bi] - me[bi]).detach())} {len(comps)}"
        for k in comps:
            body += f" {C.mat_tokens(JA_b[:, :, k])} {C.vec_tokens(Jm_b[:, k])}"
        lines.append(body)
    case.lines2 = lines
    N = Ndiv
    JAn = [float(j.abs().max()) for j in JA]
    Jmn = [float(j.abs().max()) for j in Jm]

    def finish2(rep2):
        if any(r in ("singular", "bad-request") for r in rep2):
            case.notes["exact_grad_skipped"] = "singular-in-Q"
            return
        tot = [Fraction(0)] * len(comps)
        mag = [0.0] * len(comps)
        for r in rep2:
            toks = r.split()
            for j in range(len(comps)):
                if op == "grad":
                    q, tr, mt, g = (Fraction(x) for x in toks[4 * j:4 * j + 4])
                    tot[j] += g
                    mag[j] += abs(float(q)) / 2 + abs(float(tr)) / 2 + abs(float(mt))
                else:
                    g = Fraction(toks[j])
                    tot[j] += g
                    mag[j] += abs(float(g)) + n * cond * (max(JAn) + max(Jmn))   # crude scale of the summed terms
        worst = 0.0
        scale_max = max(mag[j] / N + abs(float(Goth[k])) for j, k in enumerate(comps))
        for j, k in enumerate(comps):
            exact = float(tot[j]) / N + float(Goth[k])
            got = float(G[k])
            scale = mag[j] / N + abs(float(Goth[k]))
            if cfg.get("family") == "sgpr":
                # the Jacobian entries of an SGPR kernel carry an ABSOLUTE error of order cond(K_zz)·eps·|K| (they are
                # differences of large terms through K_zz^{-1/2}), so a component with a tiny Jacobian (inducing points) is
                # judged on the scale of the largest component of the case
                scale = max(scale, scale_max)
            # SGPR: kernel values AND their Jacobians go through K_zz^{-1/2} (conditioning of K_zz, not of A): the float64
            # Jacobian shipped to the driver and the implementation's backward both carry that noise (observed 3e-8·scale)
            base = 1e-6 if cfg.get("family") == "sgpr" else 1e-9
            tol = (base + 64 * cond * 2.0 ** -52) * scale + 1e-12
            worst = max(worst, abs(got - exact) / max(tol, 1e-300))
            if abs(got - exact) <= tol:
                continue
            if Galt is not None and abs(got - exact - float(Galt[k])) <= tol + 1e-9 * abs(float(Galt[k])):
                site = known_sites[0] if known_sites else ""
                case.fail((FINDING2_PREFIX if w.cfg["batch"] == "data" else FINDING_PREFIX) + "grad-exact:" + names[j].split("[")[0],
                          f"d mll / d {names[j]} = {got!r}; exact value of the proved gradient formula {exact!r}; the difference is "
                          f"the gradient of the known prior batch-sum shift on `{site}`")
                continue
            case.fail(f"{'mll' if op == 'grad' else 'loo'}-grad-exact:{names[j].split('[')[0]}",
                      f"d(Σ_b objective_b)/d {names[j]}: autograd of the implementation {got!r}; exact value of "
                      f"{'Σ_b[½rᵀA⁻¹DA⁻¹r − ½tr(A⁻¹D) + dμᵀA⁻¹r]/N' if op == 'grad' else 'Σ_b Σ_i[½a′/a − b b′/a + ½b²a′/a²]/n'} + d(priors+added)/dθ = {exact!r} "
                      f"(|diff| {abs(got - exact):.3e}, tolerance {tol:.3e}; {tag}, batch {list(Bx)}, n={n})")
        case.notes["exact_grad_components"] = len(comps)
        case.notes["exact_grad_worst_ratio"] = worst
    case.finish2 = finish2


def run_mll_other(cfg):
    """Training-mode objective at inputs OTHER than the stored training inputs (same shape; the next mini-batch without
    set_train_data) under settings.debug(False): `mll(model(x_other), y)` must be the dense definition with K, m evaluated
    at x_other.  The reference K, m come from a fresh twin that HOLDS x_other as its training inputs."""
    import torch
    import gpytorch
    from props import _c02models as Mz
    case = Case(cfg, "mll_other")
    w = Mz.build(cfg)
    tag = f"{cfg['family']}:{cfg['lik']}:{cfg['batch']}"
    with warnings.catch_warnings(), torch.no_grad():
        warnings.simplefilter("ignore")
        g2 = torch.Generator().manual_seed(cfg["seed"] ^ 0x51)
        x_other = w.train_x + 0.2 + 0.5 * torch.rand(w.train_x.shape, generator=g2, dtype=torch.float64)
        w2 = Mz.build(cfg)
        w2.model.load_state_dict(w.model.state_dict())
        w2.model.set_train_data(inputs=x_other.clone(), targets=w.train_y.clone(), strict=False)
        w2.train_y = w.train_y
        out2, A, m, y = dense_parts(w2)
        cond = float(torch.linalg.cond(A).max())
        if not cond < 1e6:
            case.discard = "cond>1e6"
            return case
        mll = gpytorch.mlls.ExactMarginalLogLikelihood(w.lik, w.model)
        x_before = [t.clone() for t in w.model.train_inputs]
        try:
            with gpytorch.settings.debug(False):
                impl = mll(w.model(x_other), w.train_y)
        except Exception as e:
            case.fail(f"mll-raises:{tag}:other-inputs", f"mll(model(x_other), y) under debug(False) raised {type(e).__name__}: {str(e)[:200]}")
            return case
        if any(not torch.equal(a_, b_) for a_, b_ in zip(w.model.train_inputs, x_before)):
            case.fail(f"mll-mutates-input:{tag}:other-inputs", "a training-mode call at other inputs changed the stored training inputs")
        case.lines, Bx = mll_lines(w2, A, m, y, prior_terms(w2), [t.loss() for t in Mz.registered_added_loss_terms(w2.model)])
        shift = finding_shift(w2)
        known = bool(finding_sites(w2) or nb_sites(w2))

    def finish(replies):
        exact = exact_mll_values(replies, w.N)
        v = impl.detach()
        if tuple(v.shape) != tuple(Bx):
            case.fail(f"mll-shape:{tag}:other-inputs", f"mll has shape {tuple(v.shape)}, batch shape is {tuple(Bx)}")
            return
        for bi, ex in zip(all_idx(Bx), exact):
            if ex is None:
                case.discard = "singular-in-Q"
                continue
            got = float(v[bi])
            if _close(got, ex, 1e-9, cond=cond) or (known and _close(got, ex + float(shift[bi]), 1e-9, cond=cond)):
                continue
            case.fail(f"mll:{tag}:other-inputs", f"training mode, debug(False): mll(model(x_other), y){list(bi)} = {got!r}; dense "
                                                 f"definition with K, m evaluated at x_other {ex!r} (|diff| {abs(got - ex):.3e})")
    case.finish = finish
    return case


# ------------------------------------------------------------------ LOO

def run_loo(cfg):
    import torch
    import gpytorch
    from props import _c02models as Mz
    case = Case(cfg, "loo")
    w = Mz.build(cfg)
    tag = f"{cfg['lik']}:{cfg['batch']}"
    fsites = finding_sites(w)
    with warnings.catch_warnings(), torch.no_grad():
        warnings.simplefilter("ignore")
        loo = gpytorch.mlls.LeaveOneOutPseudoLikelihood(w.lik, w.model)
        if cfg.get("history"):
            with torch.enable_grad():
                loo = apply_history(w, loo, cfg)
        out, A, m, y = dense_parts(w)
        pri = prior_terms(w)
        add = [t.loss() for t in Mz.registered_added_loss_terms(w.model)]
        cond = float(torch.linalg.cond(A).max())
        if not cond < 1e6:
            case.discard = "cond>1e6"
            return case
        try:
            impl = loo(w.model(*w.model.train_inputs), w.train_y).detach()
        except Exception as e:
            case.fail(f"loo-raises:{tag}", f"LeaveOneOutPseudoLikelihood raised {type(e).__name__}: {str(e)[:200]}")
            return case
        check_registrations(case, w)
        check_added_registrations(case, w)
        if not case.fails and not fsites:
            try:
                exact_gradient_lines(case, w, loo, tag, cond, [], op="loograd")
            except Exception as e:
                case.notes["exact_grad_skipped"] = f"{type(e).__name__}: {str(e)[:120]}"
        case.lines, Bx = mll_lines(w, A, m, y, pri, add, op="loo")
        Bx = tuple(Bx)
        ye = y.expand(*Bx, y.shape[-1])
        shift = finding_shift(w)
        n = cfg["n"]

    def finish(replies):
        if tuple(impl.shape) != Bx:
            case.fail(f"loo-shape:{tag}", f"LOO objective has shape {tuple(impl.shape)}, batch shape is {Bx}")
            return
        for bi, rep in zip(all_idx(Bx), replies):
            if rep in ("singular", "bad-request"):
                case.discard = "singular-in-Q"
                continue
            toks = rep.split()
            items = [[Fraction(x) for x in toks[1 + 5 * i:6 + 5 * i]] for i in range(n)]
            rat = Fraction(toks[-1])
            # theorem at the executed instance: bordered-system formulas == predictive after deleting point i
            for i, (mu, s2, mut, s2t, q) in enumerate(items):
                if mu != mut or s2 != s2t:
                    case.fail("loo-model:code-form-vs-deletion", f"driver: code-form (mu, s2) differs from the deletion "
                                                                f"predictive at i={i} (exact rationals)")
            # specification: average of the true predictive log densities (+ prior / added terms over n)
            P_L = rat + sum((Fraction(1, 2) * it[4] for it in items), Fraction(0)) / n      # (P + L)/n exactly
            tot = 0.0
            for i, (mu, s2, mut, s2t, q) in enumerate(items):
                yi = C.frac(float(ye[bi][i]))
                tot += -0.5 * (mplog(s2t) + float((yi - mut) ** 2 / s2t) + LOG2PI)
            spec = tot / n + float(P_L)
            got = float(impl[bi])
            if _close(got, spec, 1e-9, cond=cond):
                continue
            if fsites and _close(got, spec + float(shift[bi]), 1e-9, cond=cond):
                for site in fsites:
                    case.fail(FINDING_PREFIX + site, f"LOO, batched model: SmoothedBoxPrior on `{site}`: objective{list(bi)} "
                                                     f"= {got!r}, per-batch definition {spec!r}")
                continue
            case.fail(f"loo:{tag}", f"LOO objective{list(bi)} = {got!r}; average true predictive log density "
                                    f"(point deleted, exact) + prior terms/n = {spec!r} (|diff| {abs(got - spec):.3e})")
    case.finish = finish
    return case


# ------------------------------------------------------------------ Sum of MLLs

def run_sum(cfg):
    import torch
    import gpytorch
    from props import _c02models as Mz
    case = Case(cfg, "sum")
    shared = {}     # Prior instances shared across the member models (entries with a gid)
    ws = [Mz.build(c, shared) for c in cfg["members"]]
    for w in ws:
        check_registrations(case, w)
    with warnings.catch_warnings(), torch.no_grad():
        warnings.simplefilter("ignore")
        model = gpytorch.models.IndependentModelList(*[w.model for w in ws])
        lik = gpytorch.likelihoods.LikelihoodList(*[w.lik for w in ws])
        smll = gpytorch.mlls.SumMarginalLogLikelihood(lik, model)
        model.train()
        lines, conds = [], []
        for w in ws:
            out, A, m, y = dense_parts(w)
            conds.append(float(torch.linalg.cond(A).max()))
            if not conds[-1] < 1e6:
                case.discard = "cond>1e6"
                return case
            l, _ = mll_lines(w, A, m, y, prior_terms(w), [t.loss() for t in Mz.registered_added_loss_terms(w.model)])
            lines += l
        try:
            if cfg.get("params"):   # the documented per-model `params` (here: each member's training inputs)
                impl = float(smll(model(*model.train_inputs), model.train_targets, *model.train_inputs))
            else:
                impl = float(smll(model(*model.train_inputs), model.train_targets))
        except Exception as e:
            case.fail("sum-raises", f"SumMarginalLogLikelihood raised {type(e).__name__}: {str(e)[:200]}")
            return case
    case.lines = lines

    def finish(replies):
        vals = []
        for w, rep in zip(ws, replies):
            v = exact_mll_values([rep], w.N)[0]
            if v is None:
                case.discard = "singular-in-Q"
                return
            vals.append(v)
        line = f"sum {len(vals)} " + " ".join(C.rat_str(v) for v in vals)
        case.lines2 = [line]

        def finish2(rep2):
            spec = float(Fraction(rep2[0]))
            if not _close(impl, spec, 1e-9, cond=max(conds)):
                case.fail("sum-mll" + (":params" if cfg.get("params") else ""), f"SumMarginalLogLikelihood = {impl!r}; mean of the {len(vals)} members' exact MLLs "
                                     f"{vals} = {spec!r}")
        case.finish2 = finish2
    case.finish = finish
    return case


# ------------------------------------------------------------------ stochastic path (assumption monitoring)

def stochastic_monitor(ctx, cfgs):
    import torch
    import gpytorch
    from props import _c02models as Mz
    ok = tot = 0
    for cfg in cfgs:
        w = Mz.build(cfg)
        with warnings.catch_warnings(), torch.no_grad():
            warnings.simplefilter("ignore")
            out, A, m, y = dense_parts(w)
            if A.dim() != 2:
                continue
            mll = gpytorch.mlls.ExactMarginalLogLikelihood(w.lik, w.model)
            ref = float(dense_value(w))
            k = 4000
            torch.manual_seed(cfg["seed"])
            try:
                with gpytorch.settings.max_cholesky_size(0), gpytorch.settings.num_trace_samples(k), \
                        gpytorch.settings.cg_tolerance(1e-10), gpytorch.settings.max_cg_iterations(200), \
                        gpytorch.settings.max_lanczos_quadrature_iterations(64), \
                        gpytorch.settings.skip_logdet_forward(False):
                    got = float(mll(w.model(*w.model.train_inputs), w.train_y))
            except Exception as e:
                ctx.assumption(f"ASSUMPTION linear_operator stochastic inv_quad_logdet raised {type(e).__name__} on {cfg}")
                continue
            ev = torch.linalg.eigvalsh(A)
            sigma = math.sqrt(2.0 / k) * float(ev.log().norm()) / (2 * w.N)
            tot += 1
            if abs(got - ref) <= 6 * sigma + 1e-6 * (1 + abs(ref)):
                ok += 1
            else:
                ctx.assumption(f"ASSUMPTION stochastic MLL path outside 6 sigma: got {got!r}, exact {ref!r}, sigma {sigma:.3e} "
                               f"(linear_operator CG/Lanczos accuracy; not a gpytorch violation) cfg={cfg}")
    ctx.notes["stochastic_path"] = {"cases": tot, "within_6_sigma": ok, "trace_samples": 4000}


# ------------------------------------------------------------------ generator / runner

def gen_cfgs(ctx):
    from props import _c02models as Mz
    rng = ctx.rng("cases")
    quick = ctx.tier == "quick"
    cfgs = []
    n_mll = 64 if quick else 1400
    fams = ["single"] * 5 + ["multitask"] * 2 + ["sgpr"]
    HOPS = ["raw", "load_state_dict", "partial_state_dict", "setter", "targets", "deepcopy", "load_priors"]

    def decorate(c, p_hist=0.35):
        """op-then-use history, settings cell and call-time kwargs on top of a model configuration"""
        if rng.random() < p_hist:
            c["history"] = rng.sample(HOPS, rng.randint(1, 3))
        if rng.random() < 0.2:
            c["lazy"] = False
        if c["lik"] in ("fixed", "fixed+learned") and rng.random() < 0.3:
            c["call_noise"] = True
        return c
    for k in range(n_mll):
        c = Mz.random_cfg(rng, family=fams[k % len(fams)])
        cfgs.append(("mll", decorate(c)))
    # every way an added-loss-registering module can sit in the module tree (directly, under a gpytorch module, only
    # below the torch ModuleList of a sum / product kernel), with and without batch
    for _ in range(1 if quick else 10):
        for nest in ("plain", "scale", "sum", "product", "scale(sum)"):
            c = Mz.random_cfg(rng, family="sgpr", n_max=8)
            c.update(nest=nest, batch=rng.choice(["none", "none", "model", "data"]))
            c["b"] = 0 if c["batch"] == "none" else rng.randint(2, 3)
            cfgs.append(("mll", decorate(c, 0.2)))
    # task-major (interleaved=False) multitask models: rank-0 (distinct task noises) and rank > 0 task noise
    for _ in range(1 if quick else 10):
        for lrank in (0, 0, 1, "t"):
            for ilform in ("dense", "kron"):
                c = Mz.random_cfg(rng, family="multitask")
                c.update(batch="none", b=0, il=False, ilform=ilform, lrank=c["t"] if lrank == "t" else lrank,
                         n=rng.randint(1, 4))
                c["priors"] = [p_ for p_ in c["priors"] if p_[0] != "task_noises" or c["lrank"] == 0]
                cfgs.append(("mll", decorate(c, 0.2)))
    # several batch dimensions
    for _ in range(1 if quick else 8):
        for batch, bshape in (("model", [2, 2]), ("data", [2, 2]), ("data", [2, 1, 2]), ("model", [1, 2, 2])):
            c = Mz.random_cfg(rng, family="single", n_max=5)
            c.update(batch=batch, b=bshape[0], bshape=bshape)
            # (SmoothedBox on a batched scalar parameter is the known finding; with several batch dimensions its
            #  effect is a different, transposed shift — not generated here)
            c["priors"] = [p_ for p_ in c["priors"] if not (p_[1] == "smoothedbox" and p_[0] in ("outputscale", "constant"))]
            cfgs.append(("mll", decorate(c, 0.3)))
    # histories: each op on its own, on every likelihood family
    for _ in range(1 if quick else 6):
        for op in HOPS:
            for fam in ("single", "multitask", "sgpr"):
                c = Mz.random_cfg(rng, family=fam, n_max=7)
                c["history"] = [op]
                cfgs.append(("mll", c))
    # fixed-noise likelihoods: evaluate, replace the fixed noise through a documented setter, evaluate again
    for _ in range(2 if quick else 8):
        for lk in ("fixed", "fixed+learned"):
            c = Mz.random_cfg(rng, family="single", n_max=6)
            c["lik"] = lk
            c["history"] = ["setter"] + ([rng.choice(["raw", "targets"])] if rng.random() < 0.4 else [])
            cfgs.append(("mll", c))
    # batched models with every prior kind on every site (covers the per-batch reduction cells deliberately)
    for site in Mz.PRIOR_SITES:
        for kind in (Mz.PRIOR_KINDS if site != "constant" else ["normal", "smoothedbox"]):
            for batch in (("model",) if quick else ("model", "data")):
                c = Mz.random_cfg(rng, family="single", n_max=6)
                c.update(batch=batch, b=rng.randint(2, 3), kernel="scale(rbf)" if site != "lengthscale" else "ard-rbf",
                         mean="constant", lik="gaussian",
                         priors=[[site, kind, round(rng.uniform(0.3, 1.5), 3), round(rng.uniform(0.4, 2.0), 3)]])
                cfgs.append(("mll", c))
    # multitask models under a data batch with the built-in task-noise prior (b = t and b != t)
    for _ in range(1 if quick else 6):
        for (b, t) in ((2, 2), (3, 2), (2, 3), (3, 3)):
            c = Mz.random_cfg(rng, family="multitask")
            c.update(batch="data", b=b, t=t, krank=min(c["krank"], t), lrank=0,
                     priors=[["task_noises", rng.choice(["gamma", "lognormal", "normal"]), round(rng.uniform(0.3, 1.5), 3),
                              round(rng.uniform(0.4, 2.0), 3)]])
            cfgs.append(("mll", c))
    # ONE Prior instance shared by 2-3 registrations (same module / different modules); the dense reference counts
    # every registration, and named_priors() must enumerate every registration exactly once
    def shared_cfg(batch=None):
        kern, sites = rng.choice([("rq", ["lengthscale", "alpha"]), ("periodic", ["lengthscale", "period_length"]),
                                  ("scale(rbf)", ["lengthscale", "outputscale"]),
                                  ("scale(matern2.5)", ["lengthscale", "outputscale", "noise"]),
                                  ("sum", ["lengthscale", "outputscale"]), ("scale(sum)", ["lengthscale", "outputscale", "noise"])])
        c = Mz.random_cfg(rng, family="single", n_max=7)
        kind = rng.choice(["gamma", "lognormal", "normal"])
        a, bb = round(rng.uniform(0.3, 1.5), 3), round(rng.uniform(0.4, 2.0), 3)
        c.update(kernel=kern, lik="gaussian", n=max(c["n"], 2), priors=[[site, kind, a, bb, "g"] for site in sites])
        if batch is not None:
            c.update(batch=batch, b=0 if batch == "none" else rng.randint(2, 3))
        if rng.random() < 0.4:   # plus an unshared prior
            c["priors"].append(["constant", "normal", 0.5, 1.0])
            c["mean"] = "constant"
        return c
    for _ in range(2 if quick else 24):
        for batch in ("none", "model", "data"):
            cfgs.append(("mll", shared_cfg(batch)))
    for _ in range(3 if quick else 30):
        cfgs.append(("loo", shared_cfg()))
    for _ in range(2 if quick else 20):
        members = [shared_cfg("none") for _k in range(rng.randint(2, 3))]
        for mcfg in members[1:]:    # the same instance also across the member models
            for e, e0 in zip(mcfg["priors"], members[0]["priors"]):
                if len(e) > 4:
                    e[1:4] = members[0]["priors"][0][1:4]
        cfgs.append(("sum", {"members": members, "seed": members[0]["seed"]}))
    for _ in range(16 if quick else 400):
        c = Mz.random_cfg(rng, family="single", n_max=8)
        c["n"] = max(c["n"], 2)
        if rng.random() < 0.35:
            c["history"] = rng.sample(HOPS, rng.randint(1, 2))
        cfgs.append(("loo", c))
    for _ in range(6 if quick else 120):
        members = []
        for _k in range(rng.randint(2, 3)):
            c = Mz.random_cfg(rng, family="single", n_max=7)
            c.update(batch="none", b=0)
            members.append(c)
        cfgs.append(("sum", {"members": members, "seed": members[0]["seed"]}))
    # training-mode calls at other inputs of the same shape under debug(False)
    for _ in range(6 if quick else 60):
        c = Mz.random_cfg(rng, family=rng.choice(["single", "single", "multitask"]), n_max=7)
        cfgs.append(("mll_other", c))
    # SumMLL called with the documented per-model `params`, members with fixed noise and different n
    for _ in range(4 if quick else 40):
        members = []
        for _k in range(rng.randint(2, 3)):
            c = Mz.random_cfg(rng, family="single", n_max=7)
            c.update(batch="none", b=0, lik=rng.choice(["fixed", "fixed+learned", "fixed"]), n=2 + _k + rng.randint(0, 2))
            members.append(c)
        cfgs.append(("sum", {"members": members, "seed": members[0]["seed"], "params": True}))
    # checkpoints that carry other prior hyper-parameters, loaded through the model
    for _ in range(6 if quick else 48):
        c = Mz.random_cfg(rng, family=rng.choice(["single", "sgpr", "multitask"]), n_max=7)
        # every loadable prior kind is present, in particular a TransformedDistribution prior (lognormal), whose base
        # distribution must follow the loaded buffers
        have = {p_[1] for p_ in c["priors"]}
        used = {p_[0] for p_ in c["priors"]}
        for kind_, site_ in (("lognormal", "lengthscale"), ("normal", "noise"), ("gamma", "lengthscale")):
            if kind_ not in have and site_ not in used:
                c["priors"].append([site_, kind_, 0.8, 1.1])
                used.add(site_)
        c["history"] = ["load_priors"] + ([rng.choice(["raw", "setter"])] if rng.random() < 0.5 else [])
        c["nocast"] = _ % 2 == 0      # priors never cast / moved after construction (built in the default dtype float64)
        cfgs.append(("mll", c))
    return cfgs


RUN = {"mll": run_mll, "loo": run_loo, "sum": run_sum, "mll_other": run_mll_other}


def run_cases(ctx, cfgs, oracle):
    import torch
    torch.set_num_threads(2)
    torch.set_default_dtype(torch.float64)
    cases = []
    for what, cfg in cfgs:
        try:
            cases.append(RUN[what](cfg))
        except Exception as e:
            import traceback
            ctx.broke("correspondence", f"harness:{what}", f"{type(e).__name__}: {e} on {cfg}\n{traceback.format_exc()[-800:]}")
    lines = [l for c in cases for l in c.lines]
    rep = oracle(lines)
    p = 0
    for c in cases:
        k = len(c.lines)
        if c.finish is not None and not c.discard:
            try:
                c.finish(rep[p:p + k])
            except Exception as e:
                c.fail(f"raises:{c.what}:output", f"evaluating the implementation's result raised {type(e).__name__}: {str(e)[:200]}")
        p += k
    second = [c for c in cases if getattr(c, "lines2", None)]
    rep2 = oracle([l for c in second for l in c.lines2])
    p = 0
    for c in second:
        k = len(c.lines2)
        c.finish2(rep2[p:p + k])
        p += k
    return cases


def correspondence(ctx, use_driver=True):
    cfgs = gen_cfgs(ctx)
    cases = run_cases(ctx, cfgs, Oracle(ctx, use_driver))
    cells = {}
    for c in cases:
        cfg = c.cfg
        if c.what == "sum":
            cell = f"sum:{len(cfg['members'])}"
        else:
            cell = f"{c.what}:{cfg['family']}:{cfg['lik']}:{cfg['batch']}:priors{len(cfg['priors'])}"
        cells[cell] = cells.get(cell, 0) + 1
        if c.discard:
            ctx.count("discarded:" + c.discard)
            ctx.case({"what": c.what, "cfg": cfg}, nontrivial=False)
            continue
        ctx.case({"what": c.what, "cfg": cfg}, nontrivial=c.nontrivial,
                 sample={"what": c.what, "cfg": cfg, "driver_lines": len(c.lines)})
        for key, msg in sorted(c.fails, key=lambda km: "grad" in km[0]):
            ctx.fail(key, msg, {"what": c.what, "cfg": cfg})
        if c.notes.get("grad_params"):
            ctx.count("gradient_parameter_tensors_checked", c.notes["grad_params"])
        for k in ("registrations", "shared_instance_registrations"):
            if c.notes.get(k):
                ctx.count("prior_" + k, c.notes[k])
        if c.notes.get("added_loss_registrations"):
            ctx.count("added_loss_registrations", c.notes["added_loss_registrations"])
        if c.notes.get("exact_grad_components"):
            ctx.count("exact_gradient_components_checked", c.notes["exact_grad_components"])
            ctx.notes["exact_gradient_worst_error_over_tolerance"] = max(ctx.notes.get("exact_gradient_worst_error_over_tolerance", 0.0),
                                                                         c.notes["exact_grad_worst_ratio"])
        if c.notes.get("exact_grad_skipped"):
            ctx.count("exact_gradient_skipped:" + str(c.notes["exact_grad_skipped"])[:40])
        if c.notes.get("twin_checked"):
            ctx.count("history_twin_prior_checked")
        if c.notes.get("twin_skipped"):
            ctx.count("history_twin_skipped:" + str(c.notes["twin_skipped"])[:40])
        if c.notes.get("fd_unstable"):
            ctx.count("finite_difference_unstable_skipped", c.notes["fd_unstable"])
    ctx.notes["cells"] = cells
    if use_driver:
        rng = ctx.rng("stochastic")
        from props import _c02models as Mz
        sc = []
        for _ in range(3 if ctx.tier == "quick" else 20):
            c = Mz.random_cfg(rng, family="single", n_max=8)
            c.update(batch="none", b=0, n=max(c["n"], 3))
            sc.append(c)
        try:
            stochastic_monitor(ctx, sc)
        except Exception as e:
            ctx.notes["stochastic_path"] = f"skipped: {type(e).__name__}: {e}"


def search(ctx, broken):
    if ctx.failures:
        return
    correspondence(ctx, use_driver=False)


def replay(ctx, payload):
    try:    # the driver must run the definitions of the tree being replayed, not a stale generated file
        generate(ctx)
        C.lake_build(["GPVerif.Gen.MLLAssembly"])
    except Exception:
        pass
    case = payload["case"]
    what, cfg = case["what"], case["cfg"]
    try:
        cases = run_cases(ctx, [(what, cfg)], Oracle(ctx, True))
    except RuntimeError:
        cases = run_cases(ctx, [(what, cfg)], Oracle(ctx, False))
    for c in cases:
        for key, msg in c.fails:
            print(f"  {key}: {msg}"[:500])
    return not any(c.fails for c in cases) and not ctx.broken

"""C05 stream `generated_axes` — translator test for `Gen/KernelAxes.lean` (harness/translate/g5_axes.py):
every axis-aware regenerated `forward` (SpectralMixture, HammingIMQ in its five configurations, GaussianSymmetrizedKL,
Arc with default / custom delta_func, Cylindrical; full and diag) is driven
 (a) against the hand-written `Spec` in Lean (both in `Float`; the theorems `*_gen_eq_spec` say they are equal over ℝ), and
 (b) against the real kernel object it was generated from.
A disagreement is a broken tie (`ctx.broke`); the plain streams judge the implementation by the Spec."""
import math
import warnings


def generated_axes(ctx, M, rng, q):
    import numpy as np
    import torch
    reps = 3 if ctx.quick else 20
    work = []

    def ball(r, n, d):
        rows = []
        for _ in range(n):
            v = [r.uniform(0.05, 1.0) * r.choice([-1, 1]) for _ in range(d)]
            s = r.uniform(0.1, 0.95) / math.sqrt(sum(x * x for x in v))
            rows.append([x * s for x in v])
        return rows

    def add(name, spec, head_full, head_diag, x1, x2, aug=None, same_head=None, diag_other=None):
        """head_* : GA request heads; x2 None = x1-only call (x1 is x2)"""
        k = M.build([spec], False)
        A = aug or (lambda X: X)
        X1t = torch.tensor(x1, dtype=torch.float64)
        X2t = None if x2 is None else torch.tensor(x2, dtype=torch.float64)
        try:
            with warnings.catch_warnings():
                warnings.simplefilter("ignore")
                real = (k(X1t, X2t) if X2t is not None else k(X1t)).to_dense().detach().numpy()
                real_d = k(X1t, diag=True).detach().numpy()
        except Exception as e:      # the plain streams report this as a failure of the implementation; here: no tie
            ctx.broke("correspondence", f"generated `{name}` term (Gen/KernelAxes) vs the real kernel",
                      f"the real kernel raises {type(e).__name__}: {str(e)[:160]}")
            return
        tk = M.tokens(spec, k, 0, False)
        xx2 = x2 if x2 is not None else x1
        hf = head_full(k) if x2 is not None or same_head is None else same_head(k)
        hs = q.ask(f"K {tk} {M.mat(A(x1))} {M.mat(A(xx2))}")
        hg = q.ask(f"GA {hf} {M.mat(A(x1))} {M.mat(A(xx2))}")
        hsd = q.ask(f"K {tk} {M.mat(A(x1))} {M.mat(A(x1))}")
        hgd = q.ask(f"GA {head_diag(k)} {M.mat(A(x1))} {M.mat(A(x1))}")
        ctx.case({"ga": name, "spec": spec, "x1": x1, "x2": x2}, sample={"generated": hf.split()[0], "d": len(x1[0])})
        work.append((name, hf.split()[0], hs, hg, real, False, M.slack(spec, x1, xx2, x2 is None)))
        work.append((name, head_diag(k).split()[0], hsd, hgd, real_d, True, M.slack(spec, x1, x1, True)))

    g = lambda x: M.getp(x, 0, False)  # noqa: E731
    for rep in range(reps):
        # ---- SpectralMixture (module layout [mixture][dimension] is shipped to the generated term)
        _B, d, n1, n2 = M.distinct_sizes(rng)
        spec = M.rand_leaf(rng, "sm", d)

        def smhead(tag):
            def h(k):
                mm, ms = k.mixture_means.detach(), k.mixture_scales.detach()
                return (f"{tag} {M.vec(g(k.mixture_weights))} {M.mat(mm[:, 0, :].tolist())} {M.mat(ms[:, 0, :].tolist())}")
            return h
        for x2 in (M.rand_x(rng, n2, d), None):
            add("sm", spec, smhead("sm"), smhead("smdiag"), M.rand_x(rng, n1, d), x2)
        # ---- Hamming
        V, Tn = rng.randint(2, 4), rng.randint(1, 4)
        spec = dict(M.rand_leaf(rng, "hamming", V * Tn), vocab=V)

        def onehot(n):
            rows = []
            for _ in range(n):
                row = []
                for _t in range(Tn):
                    c = rng.randrange(V)
                    row += [1.0 if i == c else 0.0 for i in range(V)]
                rows.append(row)
            return rows

        def hh(tag):
            return lambda k: f"{tag} {V} {M.num(g(k.alpha)[0])} {M.num(g(k.beta)[0])}"
        x1 = onehot(n1)
        shared = onehot(n2)
        shared[0] = list(x1[-1])
        for x2 in (onehot(n2), shared, None):
            add("hamming", spec, hh("hamming"), hh("hammingdiagsame"), x1, x2, same_head=hh("hammingsame"))
        # diag=True with x1 != x2 (forward's own branch): compared with the Spec entries (a_i, b_i)
        xo = onehot(n1)
        k = M.build([spec], False)
        try:
            with warnings.catch_warnings():
                warnings.simplefilter("ignore")
                real = k.forward(torch.tensor(x1, dtype=torch.float64), torch.tensor(xo, dtype=torch.float64),
                                 diag=True).detach().numpy()
            hs = q.ask(f"K {M.tokens(spec, k, 0, False)} {M.mat(x1)} {M.mat(xo)}")
            hg = q.ask(f"GA {hh('hammingdiagother')(k)} {M.mat(x1)} {M.mat(xo)}")
            work.append(("hamming", "hammingdiagother", hs, hg, real, True, M.slack(spec, x1, xo, False)))
        except Exception as e:
            ctx.broke("correspondence", "generated `hammingdiagother` term vs the real kernel", f"{type(e).__name__}: {e}")
        ctx.case({"ga": "hamming-diag-other", "x1": x1, "x2": xo}, sample=None)
        # ---- symmetrised KL
        dd = rng.randint(1, 3)
        spec = M.rand_leaf(rng, "gskl", 2 * dd)
        gh = lambda tag: (lambda k: f"{tag} {M.num(g(k.lengthscale)[0])}")  # noqa: E731
        for x2 in (M.rand_x(rng, n2, 2 * dd, -1.5, 1.5), None):
            add("gskl", spec, gh("gskl"), gh("gskldiag"), M.rand_x(rng, n1, 2 * dd, -1.5, 1.5), x2)
        # ---- Arc (default and custom delta_func)
        d = rng.randint(1, 3)
        ardflag = d > 1 and rng.random() < 0.5
        L = d if ardflag else 1
        base = {"t": rng.choice(["matern", "rbf"]), "ls": [1.0]}
        if base["t"] == "matern":
            base["nu2"] = rng.choice([1, 3, 5])
        spec = {"t": "arc", "base": base, "ls": [M.logu(rng, 0.5, 4.0) for _ in range(L)],
                "angle": [rng.uniform(0.12, 0.88) for _ in range(L)], "radius": [M.logu(rng, 0.2, 3.0) for _ in range(L)]}

        def ah(tag, sp):
            return lambda k: (f"{tag} {M.tokens(sp['base'], k.base_kernel, 0, False)} {M.vec(g(k.lengthscale))} "
                              f"{M.vec(g(k.angle))} {M.vec(g(k.radius))}")
        for x2 in (M.rand_x(rng, n2, d), None):
            add("arc", spec, ah("arc", spec), ah("arcdiag", spec), M.rand_x(rng, n1, d), x2)
        spm = dict(spec, t="arcm", thr=[rng.uniform(-1.0, 1.0) for _ in range(d)])
        aug = lambda X, thr=spm["thr"]: [list(r) + [1.0 if v > t_ else 0.0 for v, t_ in zip(r, thr)] for r in X]  # noqa: E731
        for x2 in (M.rand_x(rng, n2, d), None):
            add("arcm", spm, ah("arcm", spm), ah("arcmdiag", spm), M.rand_x(rng, n1, d), x2, aug=aug)
        # ---- Cylindrical
        d = rng.randint(2, 4)
        radial = M.rand_leaf(rng, rng.choice(["matern5", "rbf", "matern3"]), 1, False)
        spec = {"t": "cyl", "radial": radial, "w": [M.logu(rng, 0.05, 2.0) for _ in range(rng.randint(1, 4))],
                "alpha": M.logu(rng, 0.3, 3.0), "beta": M.logu(rng, 0.3, 3.0), "eps": 1e-6}

        def ch(tag, sp=spec):
            return lambda k: (f"{tag} {M.tokens(sp['radial'], k.radial_base_kernel, 0, False)} {M.vec(g(k.angular_weights))} "
                              f"{M.num(g(k.alpha)[0])} {M.num(g(k.beta)[0])} {M.num(sp['eps'])}")
        for x2 in (ball(rng, n2, d), None):
            add("cyl", spec, ch("cyl"), ch("cyldiag"), ball(rng, n1, d), x2)
    # ---- derivative kernels: the WHOLE generated matrix (block assembly + perfect shuffle, `x1` not `x2`) against the Lean
    #      entry formulas in the interleaved layout (`G …`) and against the real kernel
    import gpytorch.kernels as GK
    gwork = []
    for rep in range(reps):
        for kind, cls, head in (("rbfgrad", GK.RBFKernelGrad, "rbfgradm"), ("m52grad", GK.Matern52KernelGrad, "m52gradm")):
            _B, d, n1, n2 = M.distinct_sizes(rng, 3)
            ardflag = d > 1 and rng.random() < 0.5
            ls = [M.logu(rng, 0.5, 3.0) for _ in range(d if ardflag else 1)]
            x1, x2 = M.rand_x(rng, n1, d, -1.5, 1.5), M.rand_x(rng, n2, d, -1.5, 1.5)
            k = cls(ard_num_dims=d if ardflag else None).double()
            k.lengthscale = torch.tensor([ls], dtype=torch.float64)
            lsv = M.vec(k.lengthscale.detach().reshape(-1).tolist())
            hs = q.ask(f"G {kind} {lsv} {M.mat(x1)} {M.mat(x2)}")
            hg = q.ask(f"GA {head} {lsv} {M.mat(x1)} {M.mat(x2)}")
            try:
                with warnings.catch_warnings():
                    warnings.simplefilter("ignore")
                    real = k(torch.tensor(x1, dtype=torch.float64), torch.tensor(x2, dtype=torch.float64)).to_dense().detach().numpy()
            except Exception as e:
                ctx.broke("correspondence", f"generated `{head}` matrix vs the real kernel", f"real kernel raises {type(e).__name__}: {e}")
                continue
            ctx.case({"ga": head, "x1": x1, "x2": x2, "ls": ls}, sample={"generated": head, "d": d, "n1": n1, "n2": n2})
            gwork.append((head, hs, hg, real))
    # ---- MultitaskKernel: generated Kronecker layout (full matrix and diag path) vs the Lean Spec (`MT`) and the real kernel,
    #      data kernels with a NON-constant diagonal, n != T
    for rep in range(reps):
        T, rank = rng.randint(2, 4), rng.randint(1, 2)
        d = rng.randint(1, 3)
        n1, n2 = rng.sample([x for x in range(2, 7) if x not in (T, d)], 2)
        spec = M.rand_leaf(rng, rng.choice(["linear", "poly2", "rbf"]), d, False)
        mk = GK.MultitaskKernel(M.build([spec], False), num_tasks=T, rank=rank).double()
        mk.task_covar_module.initialize(covar_factor=torch.tensor([[rng.gauss(0, 1) for _ in range(rank)] for _ in range(T)],
                                                                  dtype=torch.float64))
        mk.task_covar_module.var = torch.tensor([M.logu(rng, 0.05, 2.0) for _ in range(T)], dtype=torch.float64)
        x1, x2 = M.rand_x(rng, n1, d), M.rand_x(rng, n2, d)
        tk = M.tokens(spec, mk.data_covar_module, 0, False)
        KT = mk.task_covar_module.covar_matrix.to_dense().detach().tolist()
        part = (f"{tk} {M.mat(mk.task_covar_module.covar_factor.detach().tolist())} "
                f"{M.vec(mk.task_covar_module.var.detach().tolist())}")
        X1t, X2t = torch.tensor(x1, dtype=torch.float64), torch.tensor(x2, dtype=torch.float64)
        try:
            with warnings.catch_warnings():
                warnings.simplefilter("ignore")
                real = mk(X1t, X2t).to_dense().detach().numpy()
                real_d = mk(X1t, diag=True).detach().numpy()
        except Exception as e:
            ctx.broke("correspondence", "generated `mt` matrix vs the real kernel", f"real kernel raises {type(e).__name__}: {e}")
            continue
        ctx.case({"ga": "mt", "x1": x1, "x2": x2, "spec": spec, "T": T}, sample={"generated": "mt", "T": T, "n1": n1})
        gwork.append(("mt", q.ask(f"MT 1 {part} {M.mat(x1)} {M.mat(x2)}"), q.ask(f"GA mt {tk} {M.mat(KT)} {M.mat(x1)} {M.mat(x2)}"), real))
        gwork.append(("mtdiag", q.ask(f"MT 1 {part} {M.mat(x1)} {M.mat(x1)}"), q.ask(f"GA mtdiag {tk} {M.mat(KT)} {M.mat(x1)} {M.mat(x1)}"),
                      real_d))
    ctx.count("generated_axes_comparisons", len(work) + len(gwork))

    def finish():
        for head, hs, hg, real in gwork:
            if q[hs] == "bad-request" or q[hg] == "bad-request":
                ctx.broke("correspondence", f"driver rejected a generated-axes request ({head})", q.lines[hg][:200])
                continue
            spec, gen = M.parse_bits(q[hs])[0], M.parse_bits(q[hg])[0]
            if head == "mtdiag":
                spec, gen = np.diagonal(spec), gen[0]
            sc = max(1.0, float(np.abs(spec).max()))
            if gen.shape != spec.shape or not np.allclose(gen, spec, rtol=1e-10, atol=1e-12 * sc):
                ctx.broke("correspondence", f"generated `{head}` matrix (Gen/KernelAxes) vs the Lean entry formulas in the "
                          "interleaved layout", f"max diff {np.abs(gen - spec).max() if gen.shape == spec.shape else (gen.shape, spec.shape)}")
            if real.shape != gen.shape or not np.allclose(real, gen, rtol=1e-9, atol=1e-11 * sc):
                ctx.broke("correspondence", f"generated `{head}` matrix (Gen/KernelAxes) vs the real kernel",
                          f"max diff {np.abs(real - gen).max() if real.shape == gen.shape else (real.shape, gen.shape)}")
        for name, head, hs, hg, real, is_diag, sl in work:
            if q[hs] == "bad-request" or q[hg] == "bad-request":
                ctx.broke("correspondence", f"driver rejected a generated-axes request ({head})", q.lines[hg][:200])
                continue
            spec = M.parse_bits(q[hs])[0]
            gen = M.parse_bits(q[hg])[0]
            if is_diag:
                spec = np.diagonal(spec)
                gen = gen[0]
                extra = np.diagonal(sl[1])
            else:
                extra = sl[1]
            if gen.shape != spec.shape or not np.allclose(gen, spec, rtol=1e-11, atol=1e-13 * max(1.0, np.abs(spec).max())):
                ctx.broke("correspondence", f"generated `{head}` term (Gen/KernelAxes) vs hand-written Spec (Lean)",
                          f"{name}: max diff {np.abs(gen - spec).max() if gen.shape == spec.shape else 'shape'}")
            tol = M.RTOL * np.abs(gen) + M.ATOL * max(1.0, sl[0]) + extra
            if real.shape != gen.shape or (np.abs(real - gen) > tol).any():
                ctx.broke("correspondence", f"generated `{head}` term (Gen/KernelAxes) vs the real kernel",
                          f"{name}: max diff {np.abs(real - gen).max() if real.shape == gen.shape else (real.shape, gen.shape)}")
    return finish

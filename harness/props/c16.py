"""C16 — missing observations under observation_nan_policy 'mask' / 'fill' behave as if deleted.

Tie: translator G7 (the mask / fill branches of _mean_cache, exact_predictive_mean, exact_predictive_covar and
_exact_predictive_covar_missing_obs are regenerated into lean/GPVerif/Gen/ExactAlgebra.lean on every run, proved equal
to the deleted-data closed form in Props/C16.lean and executed by the driver) AND correspondence.  For every (model, NaN pattern) the harness evaluates the model's own prior densely, ships it
with the observation mask as exact rationals to `lean/drivers/C16.lean` (GPVerif/Model/ExactGP.lean at ℚ: the
`mask` / `fill` code paths and, by the theorems of GPVerif/Props/C16.lean, the deleted-data closed form), and compares
with the real `model(x*)` under the policy — for every order of switching policies on one model object —, with the
exact MLL (rescaled by the observed count), with `expected_log_prob` / `log_marginal`, and with a fresh model built
on the observed subset.  No NaN may appear in any output.
"""
import contextlib
import copy
import itertools
import math
import os
import re
import time
import warnings
from fractions import Fraction

from lib import common as C
from props import _gpmodels as G
from props import c01 as _c01
from props.c01 import _lines_parallel, _np, _absmax, _norm_inf, EPS

_T0 = time.time()          # the module is imported when the run starts: origin of the wall-clock budget of `search`

ID = "C16"
PROP_MODULES = ["GPVerif.Props.C16"]
BUILD_TARGETS = ["GPVerif.Props.C16", "GPVerif.Gen.ExactAlgebra", "GPVerif.Model.ExactGP", "GPVerif.Model.LDL",
                 "GPVerif.Model.Proto"]
RULE = ("random exact GPs (single-output Gaussian / FixedNoise likelihood, model-batch b=2 with per-element patterns, "
        "Kronecker multitask t=2 with per-task patterns) x NaN patterns of the training targets (none, every single "
        "missing, every all-but-one, random; thorough: all 2^n-1 patterns for n<=6) x policy sequences on ONE model "
        "object (mask, fill, mask>fill, fill>mask, mask>fill>mask, fill>mask>fill, ignore>mask, ignore>fill) x "
        "fast_pred_var on/off; one case = (model, pattern, sequence, step); distinct = distinct (model, pattern, "
        "sequence, fast); non-trivial = at least one target missing and at least one observed")
TRUSTED = ["translator harness/translate/g7_exact_algebra.py (Python AST of _mean_cache mask/fill, exact_predictive_mean, "
           "exact_predictive_covar, _exact_predictive_covar_missing_obs -> lean/GPVerif/Gen/ExactAlgebra.lean, executed "
           "by the driver and compared with the real code on every case)",
           "torch / linear_operator primitives (Cholesky, MaskedLinearOperator)",
           "harness/props/_gpmodels.py (dense evaluation of the model's own prior; documented noise covariance)",
           "float64 <-> exact comparison with tolerance max(64 n kappa 2^-52, 1e-9) * scale + 1e-12; log of the exact "
           "determinant taken in float64"]
ASSUMPTIONS = ["'mask' on a batch of targets masks an entry for the whole batch when it is NaN in any batch element "
               "(documented): the deleted-data reference for 'mask' deletes the union of the missing entries",
               "kernel matrices are Gram matrices of a covariance function (hypothesis of mask_eq_delete)"]
EXHAUSTIVE = False

def fill_value():
    """The fill value the implementation uses under 'fill' (read from the settings class at run time; the theorems hold
    for every fill value, the driver is simply given the same one)."""
    from gpytorch import settings
    return float(settings.observation_nan_policy._fill_value)

SEQS_QUICK = [("mask",), ("fill",), ("mask", "fill"), ("fill", "mask"), ("mask", "fill", "mask"),
              ("fill", "mask", "fill")]
SEQS_THOROUGH = SEQS_QUICK + [("ignore", "mask"), ("ignore", "fill"), ("ignore", "fill", "mask")]


# ------------------------------------------------------------------ generation

def patterns(rng, size, quick, k_random=4):
    """Observation masks (tuples of bool, at least one observed) over `size` targets."""
    full = tuple([True] * size)
    if not quick and size <= 6:
        pats = [p for p in itertools.product([True, False], repeat=size) if any(p)]
        return pats
    pats = [full]
    pats += [tuple(i != j for i in range(size)) for j in range(size)]           # single missing
    if size > 2:
        pats += [tuple(i == j for i in range(size)) for j in range(size)]       # all but one missing
    for _ in range(k_random):
        p = tuple(rng.random() < 0.6 for _ in range(size))
        if any(p):
            pats.append(p)
    out = list(dict.fromkeys(pats))
    if quick:
        # covering subset: none, 2 single, 2 all-but-one, the random ones
        singles = [p for p in out if sum(p) == size - 1 and size > 1]
        lones = [p for p in out if sum(p) == 1 and size > 2]
        rest = [p for p in out if p not in singles and p not in lones and p != full]
        rng.shuffle(singles)
        rng.shuffle(lones)
        out = [full] + singles[:2] + lones[:2] + rest
    return list(dict.fromkeys(out))


def build_model(ctx, kind, idx, thorough=False):
    rng = ctx.rng(f"c16:model:{kind}:{idx}")
    with warnings.catch_warnings():
        warnings.simplefilter("ignore")
        if kind == "single":
            model, lik, tx, ty, desc = G.build_exact_gp(
                rng, n=rng.randint(2, 6), batch_kind="none", lik_kind=rng.choice(["gaussian", "gaussian", "fixed"]))
        elif kind == "batch":
            model, lik, tx, ty, desc = G.build_exact_gp(rng, n=rng.randint(2, 5), batch_kind="model", b=2,
                                                        lik_kind="gaussian")
        else:
            model, lik, tx, ty, desc = G.build_multitask_gp(rng, n=rng.randint(2, 3), t=2, lik_rank=rng.choice([0, 0, 1]))
        test_x = G.random_test_x(rng, desc, s_max=3)
    desc["s"] = test_x.shape[-2]
    # OBSERVED targets that are exactly equal to a sentinel: 0.0 and the NaN fill value itself (integer / centred /
    # count data).  A value test instead of an isnan test would drop or corrupt them.
    flat = ty.view(-1)
    sent = []
    if idx % 2 == 0:
        flat[rng.randrange(flat.numel())] = 0.0
        sent.append("0.0")
    if idx % 3 != 1:
        flat[rng.randrange(flat.numel())] = fill_value()
        sent.append("fill-value")
    if idx % 4 == 3:
        flat[rng.randrange(flat.numel())] = -0.0
        sent.append("-0.0")
    desc["sentinel_targets"] = sent
    return model, lik, tx, ty, desc, test_x, rng


def dense(model, lik, tx, ty_clean, desc, test_x):
    import torch
    n, s, t = desc["n"], desc["s"], desc["tasks"]
    N, Sx = n * t, s * t
    mj, J, B = G.dense_prior(model, tx, test_x)
    S = G.spec_noise(lik, desc, n, train=True)
    yflat = ty_clean.reshape(*ty_clean.shape[:ty_clean.dim() - (2 if t > 1 else 1)], N)
    B = torch.broadcast_shapes(B, S.shape[:-2], yflat.shape[:-1])
    nb = 1
    for k in B:
        nb *= k
    ex = lambda a, tail: _np(a.expand(*B, *a.shape[-tail:]).reshape(nb, *a.shape[-tail:]))
    return {"B": tuple(B), "nb": nb, "N": N, "S": Sx, "J": ex(J, 2), "mj": ex(mj, 1), "Strain": ex(S, 2),
            "y": ex(yflat, 1)}


def nan_line(P, b, obs):
    N, Sx = P["N"], P["S"]
    return " ".join(["nan", str(N), str(Sx), C.mat_tokens(P["J"][b]), C.vec_tokens(P["mj"][b]),
                     C.mat_tokens(P["Strain"][b]), C.vec_tokens(P["y"][b]),
                     f"{N} 1 " + " ".join("1" if o else "0" for o in obs), f"1 1 {C.rat_str(fill_value())}",
                     f"1 1 {C.rat_str(fill_value())}",
                     # branch configuration of the generated code: eager split (joint <= 512), dim()==2 iff unbatched
                     str((8 if N + Sx <= 512 else 0) + (16 if tuple(P["B"]) == () else 0))])


def parse_nan(rep):
    import numpy as np
    if not rep.startswith("ok "):
        return None
    parts = rep[3:].split(" | ")
    mat = lambda p: np.array(C.fmat_to_float(C.parse_mat(p.split())[0]), dtype=float)
    det = None if parts[7] == "nodet" else Fraction(parts[7])
    g = [None if p.strip() == "nogen" else mat(p) for p in parts[8:12]]
    gen = {"mask": (g[0], g[1]), "fill": (g[2], g[3])} if len(g) == 4 else {}
    return {"gen": gen, "cnt": int(parts[0]), "meanMask": mat(parts[1])[:, 0], "covMask": mat(parts[2]),
            "meanFill": mat(parts[3])[:, 0], "covFill": mat(parts[4]), "covIgn": mat(parts[5]),
            "quad": Fraction(parts[6]), "det": det}


def log_frac(f):
    """log of a positive exact rational without overflow."""
    return math.log(f.numerator) - math.log(f.denominator)


# ------------------------------------------------------------------ real side

def predict(model, test_x, policy, fast, desc):
    """One prediction on the (un-reset) model object under `policy`."""
    import torch
    from gpytorch import settings as S
    t, Sx = desc["tasks"], desc["s"] * desc["tasks"]
    with warnings.catch_warnings(), S.observation_nan_policy(policy), S.fast_pred_var(fast):
        warnings.simplefilter("ignore")
        p = model(test_x)
        mean, cov, var = p.mean.detach(), p.covariance_matrix.detach(), p.variance.detach()
        keys = sorted({k[1][0] for k in getattr(model.prediction_strategy, "_memoize_cache", {})
                       if isinstance(k, tuple) and k[0] == "mean_cache" and len(k[1]) == 1})
    tail = 2 if t > 1 else 1
    nb = 1
    for k in p.batch_shape:
        nb *= k
    return {"mean": _np(mean.reshape(nb, Sx)), "cov": _np(cov.reshape(nb, Sx, Sx)), "var": _np(var.reshape(nb, Sx)),
            "keys": keys, "tail": tail}


# ------------------------------------------------------------------ correspondence

def correspondence(ctx, extra=False):
    import numpy as np
    import torch
    torch.set_num_threads(2)
    thorough = ctx.tier == "thorough" or extra
    quick = not thorough
    counts = {"single": 14, "batch": 5, "multi": 5} if quick else {"single": 24, "batch": 8, "multi": 8}
    if os.environ.get("VERIF_C16_CASES"):
        a, b_, c_ = [int(v) for v in os.environ["VERIF_C16_CASES"].split(",")]
        counts = {"single": a, "batch": b_, "multi": c_}
    seqs = SEQS_QUICK if quick else SEQS_THOROUGH
    work, lines = [], []
    T = C.Timer()
    for kind, cnt in counts.items():
        for idx in range(cnt):
            model, lik, tx, ty, desc, test_x, rng = build_model(ctx, kind, idx, thorough)
            P = dense(model, lik, tx, ty, desc, test_x)
            N = P["N"]
            ysize = ty.numel()
            pats = patterns(rng, ysize, quick, k_random=3 if quick else 6)
            if quick and kind != "single":
                pats = pats[:6]
            if not quick and ysize > 6:
                rng.shuffle(pats)
                pats = pats[:40]
            for pat in pats:
                obs_full = np.array(pat, dtype=bool).reshape(P["nb"], N) if kind == "batch" else \
                    np.array(pat, dtype=bool).reshape(1, N)
                if not obs_full.any(axis=0).any():
                    continue
                union = obs_full.all(axis=0)          # 'mask': observed iff observed in every batch element
                if not union.any():
                    ctx.count("skipped:mask-union-empty")
                    continue
                item = {"kind": kind, "idx": idx, "pat": [bool(v) for v in pat], "desc": desc, "P": P,
                        "obs_full": obs_full, "union": union, "lines_mask": [], "lines_fill": []}
                for b in range(P["nb"]):
                    item["lines_mask"].append(nan_line(P, b, union))
                    item["lines_fill"].append(nan_line(P, b, obs_full[b]))
                lines += item["lines_mask"] + item["lines_fill"]
                item["real"] = run_real(ctx, model, lik, tx, ty, desc, test_x, obs_full, union, seqs, rng, quick)
                work.append(item)
            ctx.count("models")
    ctx.notes["phase1_s"] = round(T(), 1)
    replies = _lines_parallel("C16", lines, 4 if quick else 10)
    ctx.notes["phase2_s"] = round(T(), 1)
    dist = {"missing_count": {}, "kind": {}}
    for item in work:
        compare(ctx, item, replies)
        k = str(int((~item["obs_full"]).sum()))
        dist["missing_count"][k] = dist["missing_count"].get(k, 0) + 1
        dist["kind"][item["kind"]] = dist["kind"].get(item["kind"], 0) + 1
    ctx.notes["distribution"] = dist
    ctx.notes["driver_requests"] = len(set(lines))
    ctx.notes["phase3_s"] = round(T(), 1)


def run_real(ctx, model, lik, tx, ty, desc, test_x, obs_full, union, seqs, rng, quick):
    """Everything observed on the real code for one (model, pattern)."""
    import numpy as np
    import torch
    import gpytorch
    from gpytorch import settings as S
    t = desc["tasks"]
    y_nan = ty.clone()
    mask_t = torch.as_tensor(obs_full.reshape(ty.shape))
    y_nan[~mask_t] = float("nan")
    model.set_train_data(tx, y_nan, strict=False)
    out = {"seq": [], "rejected": []}
    fasts = [False, True]
    seq_list = list(seqs)
    if quick:
        rng.shuffle(seq_list)
        seq_list = sorted(seq_list[:4], key=len)
    first = True
    for seq in seq_list:
        for fast in fasts:
            # the very first sequence after `set_train_data(new NaN pattern)` runs WITHOUT resetting anything: whatever the
            # previous pattern's predictions cached on this object must have been invalidated by set_train_data itself
            if not first:
                G.reset_caches(model)
            first = False
            steps = []
            used = []
            for pol in seq:
                used.append(pol)
                try:
                    r = predict(model, test_x, pol, fast, desc)
                    r["expected_keys"] = sorted(set(used))
                    steps.append((pol, r))
                except Exception as e:
                    steps.append((pol, {"error": f"{type(e).__name__}: {str(e)[:200]}"}))
            out["seq"].append({"seq": list(seq), "fast": fast, "steps": steps})
    # ---- MLL (training mode), expected_log_prob, log_marginal
    model.train()
    lik.train()
    mll = gpytorch.mlls.ExactMarginalLogLikelihood(lik, model)
    with warnings.catch_warnings():
        warnings.simplefilter("ignore")
        for pol in ("mask", "fill"):
            with S.observation_nan_policy(pol):
                try:
                    v = mll(model(tx), y_nan)
                    out["mll_" + pol] = _np(v.detach().reshape(-1))
                except ValueError as e:
                    out["rejected"].append(f"mll:{pol}:{str(e)[:80]}")
                except Exception as e:
                    out["mll_" + pol + "_error"] = f"{type(e).__name__}: {str(e)[:200]}"
                prior = model(tx)
                for fn in ("expected_log_prob", "log_marginal"):
                    try:
                        v = getattr(lik, fn)(y_nan, prior)
                        out[f"{fn}_{pol}"] = _np(v.detach())
                    except Exception as e:
                        out[f"{fn}_{pol}_error"] = f"{type(e).__name__}: {str(e)[:200]}"
    model.eval()
    lik.eval()
    # ---- fresh model on the observed subset (single-output, whole points deleted)
    if t == 1 and obs_full.shape[0] == 1 and desc["batch"] == "none":
        o = torch.as_tensor(obs_full[0])
        try:
            fresh = copy.deepcopy(model)
            if desc["lik"] == "fixed":
                fresh.likelihood.noise = lik.noise_covar.noise.detach()[o]
            fresh.set_train_data(tx[o], ty[o], strict=False)
            fresh.eval()
            fresh.likelihood.eval()
            with warnings.catch_warnings():
                warnings.simplefilter("ignore")
                p = fresh(test_x)
                out["fresh"] = {"mean": _np(p.mean.detach()), "cov": _np(p.covariance_matrix.detach())}
                fresh.train()
                fresh.likelihood.train()
                fm = gpytorch.mlls.ExactMarginalLogLikelihood(fresh.likelihood, fresh)
                out["fresh"]["mll"] = float(fm(fresh(tx[o]), ty[o]).detach())
        except Exception as e:
            out["fresh_error"] = f"{type(e).__name__}: {str(e)[:200]}"
    model.set_train_data(tx, ty, strict=False)
    return out


def _slim(desc):
    return {k: v for k, v in desc.items() if k != "kernel_spec"}


def compare(ctx, item, replies):
    import numpy as np
    desc, P, real = item["desc"], item["P"], item["real"]
    N, Sx, nb = P["N"], P["S"], P["nb"]
    obs_full, union = item["obs_full"], item["union"]
    nmiss = int((~obs_full).sum())
    where = f"{desc['kernel']} lik={desc['lik']} {item['kind']}{item['idx']} n={N} s={Sx} observed={obs_full.astype(int).tolist()}"
    exM = [parse_nan(replies[l]) for l in item["lines_mask"]]
    exF = [parse_nan(replies[l]) for l in item["lines_fill"]]
    if any(e is None for e in exM + exF):
        ctx.count("discarded_singular")
        return

    def rp(extra):
        d = {"kind": item["kind"], "idx": item["idx"], "pattern": item["pat"], "desc": _slim(desc)}
        d.update(extra)
        if len(item["lines_fill"][0]) < 20000:
            d["nan_request"] = item["lines_fill"][0]
        return d

    def tol_for(b, obs):
        A = P["J"][b][:N, :N] + P["Strain"][b]
        Aoo = A[np.ix_(obs, obs)]
        Ai = np.linalg.inv(Aoo)
        kappa = _norm_inf(Aoo) * _norm_inf(Ai)
        rel = max(64 * N * EPS * kappa, 1e-9)
        Kts = np.abs(P["J"][b][N:, :N][:, obs])
        r = np.abs((P["y"][b] - P["mj"][b][:N])[obs])
        sc_mean = _absmax(P["mj"][b][N:]) + _absmax(Kts @ np.abs(Ai) @ r)
        sc_cov = _absmax(P["J"][b][N:, N:]) + _absmax(Kts @ np.abs(Ai) @ Kts.T)
        return kappa, rel, sc_mean, sc_cov

    def check(key, what, got, exp, tol, extra=None):
        got, exp = np.asarray(got, dtype=float), np.asarray(exp, dtype=float)
        ctx.count("comparisons")
        if np.isnan(got).any():
            ctx.fail("nan-in-output:" + key, f"NaN in {what} on {where}", rp(dict(extra or {}, observable=key)))
            return False
        if got.shape != exp.shape:
            ctx.fail("shape:" + key, f"{what}: shape {got.shape} != {exp.shape} on {where}", rp(dict(extra or {}, observable=key)))
            return False
        err = _absmax(got - exp)
        if err <= tol:
            return True
        ctx.fail(key, f"{what}: |impl - deleted-data value| = {err:.3e} > tol {tol:.2e} on {where}",
                 rp(dict(extra or {}, observable=key, err=err, tol=tol, got=got.tolist(), expected=exp.tolist())))
        return False

    tols = {}
    for b in range(nb):
        tols[("mask", b)] = tol_for(b, union)
        tols[("fill", b)] = tol_for(b, obs_full[b])
    if max(v[0] for v in tols.values()) > 1e6:
        ctx.count("discarded_cond>1e6")
        return
    # ---- predictions along every policy sequence on one object
    for run in real["seq"]:
        seqname = ">".join(run["seq"]) + (":fast" if run["fast"] else ":exact")
        for step, (pol, r) in enumerate(run["steps"]):
            ctx.case(f"{item['kind']}{item['idx']}|{''.join('1' if v else '0' for v in item['pat'])}|{seqname}|{step}",
                     nontrivial=nmiss > 0,
                     sample={"model": _slim(desc), "observed": obs_full.astype(int).tolist(), "sequence": seqname,
                             "step": step, "policy": pol})
            extra = {"sequence": run["seq"], "fast": run["fast"], "step": step, "policy": pol}
            if pol == "ignore":
                continue   # with NaN targets and no policy the outputs are NaN by design; only its cache effect matters
            if "error" in r:
                ctx.fail(f"exception:{pol}", f"model(x*) under policy {pol} raised {r['error']} on {where} seq={seqname}",
                         rp(extra))
                continue
            if r["keys"] != r["expected_keys"]:
                ctx.broke("correspondence", "policy-keyed mean_cache entries",
                          f"memo keys {r['keys']} != policies used {r['expected_keys']} on {where} seq={seqname}")
            for b in range(nb):
                ex = exM[b] if pol == "mask" else exF[b]
                em, ec = (ex["meanMask"], ex["covMask"]) if pol == "mask" else (ex["meanFill"], ex["covFill"])
                kappa, rel, sc_mean, sc_cov = tols[(pol, b)]
                check(f"posterior-mean:{pol}", f"model(x*).mean under '{pol}' (seq {seqname}, step {step})",
                      r["mean"][b], em, rel * sc_mean + 1e-12, extra)
                tol_c = rel * sc_cov + 1e-12
                got_c = r["cov"][b]
                # tie: the implementation vs what the translator says the code is (GENERATED exact_prediction)
                gm, gc = ex.get("gen", {}).get(pol, (None, None))
                ctx.count("generated-vs-impl")
                if gm is None or gc is None:
                    ctx.broke("correspondence", "generated algebra returned no value", f"policy {pol} on {where}")
                else:
                    for nm, got_, exp_, tl in (("mean", r["mean"][b], gm[:, 0], rel * sc_mean + 1e-12), ("covar", got_c, gc, tol_c)):
                        if np.isnan(np.asarray(got_, dtype=float)).any() or _absmax(np.asarray(got_) - exp_) > tl:
                            ctx.broke("correspondence", f"generated algebra (Gen/ExactAlgebra.lean) vs implementation: {nm}:{pol}",
                                      f"|impl - generated| = {_absmax(np.asarray(got_) - exp_):.3e} > {tl:.1e} on {where} seq={seqname}")
                if not np.isnan(got_c).any() and _absmax(got_c - ec) > tol_c and \
                        _absmax(got_c - ex["covIgn"]) <= tol_c + rel * sc_cov:
                    # the signature of the known defect: the covariance conditions on the rows of the missing targets
                    ctx.count("comparisons")
                    ctx.fail("exact_predictive_covar/nan_policy",
                             f"posterior covariance under '{pol}' equals the covariance conditioned on ALL training "
                             f"inputs (policy ignored): |impl - deleted| = {_absmax(got_c - ec):.3e}, "
                             f"|impl - ignoring-policy model| = {_absmax(got_c - ex['covIgn']):.1e} on {where} seq={seqname}",
                             rp(dict(extra, observable="covariance", got=got_c.tolist(), expected=ec.tolist())))
                else:
                    check(f"posterior-covar:{pol}", f"model(x*).covariance_matrix under '{pol}' (seq {seqname}, step {step})",
                          got_c, ec, tol_c, extra)
                    check(f"posterior-variance:{pol}", f"model(x*).variance under '{pol}' (seq {seqname})",
                          r["var"][b], np.diag(ec), tol_c, extra)
    # ---- MLL under mask, rescaled by the observed count
    for e in real["rejected"]:
        ctx.count("rejected:" + e.split(":")[0] + ":" + e.split(":")[1])
    if "mll_mask_error" in real:
        ctx.fail("exception:mll:mask", f"ExactMarginalLogLikelihood under 'mask' raised {real['mll_mask_error']} on {where}", rp({}))
    if "mll_fill" in real or "mll_fill_error" in real:
        # documented as unsupported: must be rejected with the explicit ValueError
        ctx.fail("mll:fill-not-rejected", f"ExactMarginalLogLikelihood under 'fill' did not raise the documented ValueError on {where}", rp({}))
    if "mll_mask" in real:
        for b in range(nb):
            ex = exM[b]
            if ex["det"] is None or ex["det"] <= 0:
                ctx.count("mll:no-certified-det")
                continue
            cnt = ex["cnt"]
            logp = -0.5 * (float(ex["quad"]) + log_frac(ex["det"]) + cnt * math.log(2 * math.pi))
            kappa, rel, _, _ = tols[("mask", b)]
            scale = abs(float(ex["quad"])) + abs(log_frac(ex["det"])) + cnt * 1.84 + 1.0
            got = real["mll_mask"][b] if len(real["mll_mask"]) == nb else real["mll_mask"][0]
            # documented scaling: the value is divided by the FULL number of targets N
            check("mll:mask:rescaled", "N * ExactMarginalLogLikelihood('mask') vs log N(y_o; m_o, A_oo)",
                  [got * N], [logp], rel * scale + 1e-12, {"n_obs": cnt, "N": N})
            ctx.case(f"mll|{item['kind']}{item['idx']}|{''.join('1' if v else '0' for v in item['pat'])}|{b}",
                     nontrivial=nmiss > 0)
    # ---- expected_log_prob / log_marginal
    for b in range(nb):
        mu = P["mj"][b][:N]
        v = np.diag(P["J"][b][:N, :N])
        s2 = np.diag(P["Strain"][b])
        y = P["y"][b]
        lik_rank = desc.get("lik_rank", 0)
        if lik_rank != 0:
            continue   # non-diagonal task noise: the per-point formulas are C12's subject
        elp = -0.5 * (((y - mu) ** 2 + v) / s2 + np.log(s2) + math.log(2 * math.pi))
        lm = -0.5 * ((y - mu) ** 2 / (v + s2) + np.log(v + s2) + math.log(2 * math.pi))
        t = desc["tasks"]
        for fn, ref in (("expected_log_prob", elp), ("log_marginal", lm)):
            for pol in ("mask", "fill"):
                key = f"{fn}_{pol}"
                if key + "_error" in real:
                    ctx.fail(f"exception:{fn}:{pol}", f"{fn} under '{pol}' raised {real[key + '_error']} on {where}", rp({}))
                    continue
                if key not in real:
                    continue
                got = np.asarray(real[key], dtype=float)
                if pol == "mask":
                    exp = ref[union]
                    got_b = got.reshape(nb, -1)[b] if got.size == nb * int(union.sum()) else got.reshape(-1)
                else:
                    per = np.where(obs_full[b], ref, 0.0)
                    exp = per.reshape(-1, t).sum(axis=1) if t > 1 else per
                    got_b = got.reshape(nb, -1)[b]
                tol = 1e-10 * (_absmax(ref) + 1.0)
                check(f"{fn}:{pol}", f"likelihood.{fn} under '{pol}' vs the per-point terms of the observed entries",
                      got_b, exp, tol, {"batch_element": b})
    # ---- fresh model on the observed subset
    if "fresh_error" in real:
        ctx.count("fresh-model-not-built")
    if "fresh" in real:
        ex = exM[0]
        kappa, rel, sc_mean, sc_cov = tols[("mask", 0)]
        check("fresh-model:mean", "fresh model on the observed subset: mean vs closed form", real["fresh"]["mean"],
              ex["meanMask"], rel * sc_mean + 1e-12)
        check("fresh-model:covar", "fresh model on the observed subset: covariance vs closed form", real["fresh"]["cov"],
              ex["covMask"], rel * sc_cov + 1e-12)
        if ex["det"] is not None and ex["det"] > 0 and "mll_mask" in real:
            cnt = ex["cnt"]
            # N * mll_mask == n_obs * mll_deleted   (mll_mask_rescaled)
            scale = abs(float(ex["quad"])) + abs(log_frac(ex["det"])) + cnt * 1.84 + 1.0
            check("mll:mask-vs-fresh", "N * mll('mask') vs n_obs * mll(fresh model on the observed subset)",
                  [real["mll_mask"][0] * N], [real["fresh"]["mll"] * cnt], 2 * rel * scale + 1e-12)


# ------------------------------------------------------------------ search / replay

def search(ctx, broken):
    if not ctx.failures:
        correspondence(ctx, extra=True)


def replay(ctx, payload):
    import numpy as np
    import torch
    torch.set_num_threads(2)
    case = payload.get("case", payload)
    os.environ["VERIF_SEED"] = str(payload.get("seed", C.seed()))
    thorough = payload.get("tier") == "thorough"
    model, lik, tx, ty, desc, test_x, rng = build_model(ctx, case["kind"], case["idx"], thorough)
    P = dense(model, lik, tx, ty, desc, test_x)
    N = P["N"]
    pat = case["pattern"]
    obs_full = np.array(pat, dtype=bool).reshape(P["nb"], N) if case["kind"] == "batch" else np.array(pat, dtype=bool).reshape(1, N)
    union = obs_full.all(axis=0)
    item = {"kind": case["kind"], "idx": case["idx"], "pat": pat, "desc": desc, "P": P, "obs_full": obs_full,
            "union": union, "lines_mask": [nan_line(P, b, union) for b in range(P["nb"])],
            "lines_fill": [nan_line(P, b, obs_full[b]) for b in range(P["nb"])]}
    seqs = [tuple(case["sequence"])] if "sequence" in case else SEQS_THOROUGH
    item["real"] = run_real(ctx, model, lik, tx, ty, desc, test_x, obs_full, union, seqs, rng, quick=False)
    replies = _lines_parallel("C16", item["lines_mask"] + item["lines_fill"])
    compare(ctx, item, replies)
    for f in ctx.failures[:5]:
        print("replay:", f["key"], f["what"][:300])
    return not ctx.failures and not ctx.broken

"""C16 — missing observations under observation_nan_policy 'mask' / 'fill' behave as if deleted.

Tie: translator G7 (the mask / fill branches of _mean_cache, exact_predictive_mean, exact_predictive_covar and
_exact_predictive_covar_missing_obs are regenerated into lean/GPVerif/Gen/ExactAlgebra.lean on every run, proved equal
to the deleted-data closed form in Props/C16.lean and executed by the driver) AND correspondence.  For every (model, NaN
pattern) the harness evaluates the model's own prior densely, ships it with the observation mask as exact rationals to
`lean/drivers/C16.lean` (GPVerif/Model/ExactGP.lean at ℚ: the `mask` / `fill` code paths and, by the theorems of
GPVerif/Props/C16.lean, the deleted-data closed form), and compares with the real `model(x*)` under the policy — for
every order of switching policies on one model object, for every way of ARRIVING at the pattern (fresh strategy, or a
model that already predicted under every policy with ANOTHER pattern / other target values and then received the
pattern through `set_train_data`), in every settings cell (`fast_pred_var`, `max_eager_kernel_size` below / at / above
the joint size, `detach_test_caches`) —, with the exact MLL (rescaled by the observed count), with `expected_log_prob` /
`log_marginal`, and with a fresh model built on the observed subset.  No NaN may appear in any output.

When a proof about the generated code, the translator or the driver breaks, `search` derives from WHAT broke which
settings cells / histories to try first (new branch atoms of the generated function whose theorem failed; an exact probe
of the generated `exact_prediction` against the model over all branch configurations) and runs them under a wall-clock
budget; the specification side falls back to `drivers/C16spec.lean` (hand-written model only) when the main driver dies.
"""
import contextlib
import copy
import itertools
import math
import os
import re
import time
import warnings
from fractions import Fraction

from lib import common as C
from props import _gpmodels as G
from props import c01 as _c01
from props.c01 import _lines_parallel, _np, _absmax, _norm_inf, EPS

_T0 = time.time()          # the module is imported when the run starts: origin of the wall-clock budget of `search`

ID = "C16"
PROP_MODULES = ["GPVerif.Props.C16"]
BUILD_TARGETS = ["GPVerif.Props.C16", "GPVerif.Gen.ExactAlgebra", "GPVerif.Model.ExactGP", "GPVerif.Model.NanDriver",
                 "GPVerif.Model.LDL", "GPVerif.Model.Proto"]
RULE = ("random exact GPs (single-output Gaussian / FixedNoise likelihood, model-batch b=2 with per-element DIFFERENT "
        "patterns, Kronecker multitask t=2 with per-task patterns) x NaN patterns of the training targets (none, every "
        "single missing, every all-but-one, random; batches: one element fully observed next to one with missing "
        "entries, disjoint, equal; thorough: all 2^n-1 patterns for n<=6) x policy sequences on ONE model object (mask, "
        "fill, mask>fill, fill>mask, mask>fill>mask, fill>mask>fill, ignore>mask, ignore>fill, ignore>fill>mask) x how "
        "the pattern arrived (fresh strategy | the object predicted under ignore/mask/fill with ANOTHER pattern and other "
        "target values, then set_train_data(targets=...) / (inputs, targets) / strict=False | a deepcopy of the model) x per "
        "step: fast_pred_var "
        "on/off, max_eager_kernel_size in {default, 0, n, n+n*} (lazy / eager split), detach_test_caches; one case = "
        "(model, pattern, run, step); distinct = distinct (model, pattern, sequence, arrival, cells); non-trivial = at "
        "least one target missing and at least one observed; plus models OBTAINED from a model with missing targets: "
        "get_fantasy_model (1-2 fantasy points, fantasy targets with / without NaNs, made under mask / fill / ignore, source "
        "fresh or updated by set_train_data first; single-output and batched) judged against deletion of all missing "
        "observations (source + fantasy) on the joint [train; fantasy; test]")
TRUSTED = ["translator harness/translate/g7_exact_algebra.py (Python AST of _mean_cache mask/fill, exact_predictive_mean, "
           "exact_predictive_covar, _exact_predictive_covar_missing_obs -> lean/GPVerif/Gen/ExactAlgebra.lean, executed "
           "by the driver in the eager AND the lazy branch configuration and compared with the real code on every case)",
           "torch / linear_operator primitives (Cholesky, MaskedLinearOperator)",
           "harness/props/_gpmodels.py (dense evaluation of the model's own prior; documented noise covariance)",
           "float64 <-> exact comparison with tolerance max(64 n kappa 2^-52, 1e-9) * scale + 1e-12; log of the exact "
           "determinant taken in float64"]
ASSUMPTIONS = ["'mask' on a batch of targets masks an entry for the whole batch when it is NaN in any batch element "
               "(documented; ExactGP.obsUnion, theorem mask_batch_deletes_union): the deleted-data reference for 'mask' "
               "deletes the union of the missing entries; 'fill' is judged per batch element (fill_batch_elementwise)",
               "kernel matrices are Gram matrices of a covariance function (hypothesis of mask_eq_delete)"]
EXHAUSTIVE = False


def generate(ctx):
    """Translator G7 (shared with C01)."""
    try:
        _c01.generate(ctx)
    except Exception as e:
        ctx.notes["gen_error"] = f"{type(e).__name__}: {e}"[:600]
        raise


def fill_value():
    """The fill value the implementation uses under 'fill' (read from the settings class at run time; the theorems hold
    for every fill value, the driver is simply given the same one)."""
    from gpytorch import settings
    return float(settings.observation_nan_policy._fill_value)


SEQS_CORE = [("mask",), ("fill",), ("mask", "fill"), ("fill", "mask"), ("mask", "fill", "mask"),
             ("fill", "mask", "fill")]
SEQS_IGNORE_FIRST = [("ignore", "mask"), ("ignore", "fill"), ("ignore", "fill", "mask")]
SEQS_QUICK = SEQS_CORE                       # (kept for replays of older payloads)
SEQS_THOROUGH = SEQS_CORE + SEQS_IGNORE_FIRST

# how the NaN pattern under test arrives on the model object
ENTRIES = ("fresh", "upd:targets", "upd:inputs+targets", "upd:targets:nonstrict", "deepcopy")
ENTRY_WEIGHTS = (4, 3, 1, 1, 1)
# what the object did BEFORE the update (with another pattern and other target values): policies it predicted under
PRE_SEQS = [("mask",), ("fill",), ("mask",), ("fill",), ("ignore",), ("mask", "fill"), ("fill", "mask"),
            ("ignore", "fill", "mask")]
# settings.max_eager_kernel_size relative to the joint size N + S (default 512 = eager for every generated size)
EAGER_KINDS = ("default", "0", "n", "n+s")


def eager_limit(kind, N, Sx):
    return {"default": None, "0": 0, "n": N, "n+s": N + Sx}[kind]


def is_eager(kind, N, Sx):
    lim = eager_limit(kind, N, Sx)
    if lim is None:
        from gpytorch import settings
        lim = settings.max_eager_kernel_size.value()
    return N + Sx <= lim


def cfg_code(P, eager, fast=False, detach=False):
    """Branch configuration of the generated code (bit mask of drivers/C16.lean): the eager split hands dense tensors on
    (`ttIsTensor`), the lazy split LinearOperators; `dim() == 2` iff unbatched."""
    return (1 if fast else 0) + (4 if detach else 0) + ((8 + 32) if eager else 0) + (16 if tuple(P["B"]) == () else 0)


# ------------------------------------------------------------------ generation

def patterns(rng, size, quick, k_random=4):
    """Observation masks (tuples of bool, at least one observed) over `size` targets."""
    full = tuple([True] * size)
    if not quick and size <= 6:
        pats = [p for p in itertools.product([True, False], repeat=size) if any(p)]
        return pats
    pats = [full]
    pats += [tuple(i != j for i in range(size)) for j in range(size)]           # single missing
    if size > 2:
        pats += [tuple(i == j for i in range(size)) for j in range(size)]       # all but one missing
    for _ in range(k_random):
        p = tuple(rng.random() < 0.6 for _ in range(size))
        if any(p):
            pats.append(p)
    out = list(dict.fromkeys(pats))
    if quick:
        # covering subset: none, 2 single, 2 all-but-one, the random ones
        singles = [p for p in out if sum(p) == size - 1 and size > 1]
        lones = [p for p in out if sum(p) == 1 and size > 2]
        rest = [p for p in out if p not in singles and p not in lones and p != full]
        rng.shuffle(singles)
        rng.shuffle(lones)
        out = [full] + singles[:2] + lones[:2] + rest
    return list(dict.fromkeys(out))


def batch_patterns(rng, nb, n):
    """Per-batch-element patterns (flattened (nb, n), row-major) that DIFFER between the elements: 'fill' must condition
    element b on its own pattern, 'mask' on the entries observed in every element."""
    full = [True] * n
    out = []

    def one_missing():
        j = rng.randrange(n)
        return [i != j for i in range(n)]

    def some_missing():
        while True:
            p = [rng.random() < 0.55 for _ in range(n)]
            if any(p) and not all(p):
                return p
    for b in range(nb):                       # one element with missing entries, all others fully observed
        rows = [list(full) for _ in range(nb)]
        rows[b] = one_missing() if rng.random() < 0.5 else some_missing()
        out.append(rows)
    rows = [one_missing() for _ in range(nb)]  # every element misses something (mostly different entries)
    out.append(rows)
    rows = [some_missing() for _ in range(nb)]
    out.append(rows)
    same = some_missing()                      # control: the same pattern in every element
    out.append([list(same) for _ in range(nb)])
    flat = [tuple(v for row in rows for v in row) for rows in out]
    return list(dict.fromkeys(flat))


def build_model(ctx, kind, idx, thorough=False, label="model"):
    rng = ctx.rng(f"c16:{label}:{kind}:{idx}")
    with warnings.catch_warnings():
        warnings.simplefilter("ignore")
        # two models out of three get a guaranteed NON-ZERO prior mean (constant / linear): centring bugs need one
        mk = ("constant", "linear", None)[idx % 3]
        if kind == "single":
            model, lik, tx, ty, desc = G.build_exact_gp(
                rng, n=rng.randint(2, 6), batch_kind="none", lik_kind=rng.choice(["gaussian", "gaussian", "fixed"]),
                mean_kind=mk)
        elif kind == "batch":
            model, lik, tx, ty, desc = G.build_exact_gp(rng, n=rng.randint(2, 5), batch_kind="model", b=2,
                                                        lik_kind="gaussian", mean_kind=mk)
        else:
            model, lik, tx, ty, desc = G.build_multitask_gp(rng, n=rng.randint(2, 3), t=2, lik_rank=rng.choice([0, 0, 1]))
        test_x = G.random_test_x(rng, desc, s_max=3)
    desc["s"] = test_x.shape[-2]
    # OBSERVED targets that are exactly equal to a sentinel: 0.0 and the NaN fill value itself (integer / centred /
    # count data).  A value test instead of an isnan test would drop or corrupt them.
    flat = ty.view(-1)
    sent = []
    if idx % 2 == 0:
        flat[rng.randrange(flat.numel())] = 0.0
        sent.append("0.0")
    if idx % 3 != 1:
        flat[rng.randrange(flat.numel())] = fill_value()
        sent.append("fill-value")
    if idx % 4 == 3:
        flat[rng.randrange(flat.numel())] = -0.0
        sent.append("-0.0")
    desc["sentinel_targets"] = sent
    return model, lik, tx, ty, desc, test_x, rng


def dense(model, lik, tx, ty_clean, desc, test_x, noise=None):
    import torch
    n, s, t = desc["n"], desc["s"], desc["tasks"]
    N, Sx = n * t, s * t
    mj, J, B = G.dense_prior(model, tx, test_x)
    S = G.spec_noise(lik, desc, n, train=True) if noise is None else noise
    yflat = ty_clean.reshape(*ty_clean.shape[:ty_clean.dim() - (2 if t > 1 else 1)], N)
    B = torch.broadcast_shapes(B, S.shape[:-2], yflat.shape[:-1])
    nb = 1
    for k in B:
        nb *= k
    ex = lambda a, tail: _np(a.expand(*B, *a.shape[-tail:]).reshape(nb, *a.shape[-tail:]))
    return {"B": tuple(B), "nb": nb, "N": N, "S": Sx, "J": ex(J, 2), "mj": ex(mj, 1), "Strain": ex(S, 2),
            "y": ex(yflat, 1)}


def line_codes(P, all_codes=False):
    """Branch configurations the driver evaluates the generated `exact_prediction` under: the eager and the lazy split
    (fast_pred_var / detach_test_caches do not change the generated value under mask / fill — that they do not is part
    of what `search` probes with `all_codes`)."""
    if all_codes:
        return [c for c in range(64) if not (c // 2) % 2]        # every configuration with skip off
    return [cfg_code(P, True), cfg_code(P, False)]


def nan_line(P, b, obs, all_codes=False):
    N, Sx = P["N"], P["S"]
    return " ".join(["nan", str(N), str(Sx), C.mat_tokens(P["J"][b]), C.vec_tokens(P["mj"][b]),
                     C.mat_tokens(P["Strain"][b]), C.vec_tokens(P["y"][b]),
                     f"{N} 1 " + " ".join("1" if o else "0" for o in obs), f"1 1 {C.rat_str(fill_value())}",
                     f"1 1 {C.rat_str(fill_value())}"] + [str(c) for c in line_codes(P, all_codes)])


def union_line(obs_full):
    nb, N = obs_full.shape
    return f"union {nb} {N} {nb} {N} " + " ".join("1" if v else "0" for v in obs_full.reshape(-1))


def parse_nan(rep, codes):
    import numpy as np
    if not rep.startswith("ok "):
        return None
    parts = rep[3:].split(" | ")
    mat = lambda p: np.array(C.fmat_to_float(C.parse_mat(p.split())[0]), dtype=float)
    det = None if parts[7] == "nodet" else Fraction(parts[7])
    g = [None if p.strip() == "nogen" else mat(p) for p in parts[8:]]
    gen = {}
    for k, code in enumerate(codes):
        if len(g) >= 4 * k + 4:
            gen[("mask", code)] = (g[4 * k], g[4 * k + 1])
            gen[("fill", code)] = (g[4 * k + 2], g[4 * k + 3])
    return {"gen": gen, "cnt": int(parts[0]), "meanMask": mat(parts[1])[:, 0], "covMask": mat(parts[2]),
            "meanFill": mat(parts[3])[:, 0], "covFill": mat(parts[4]), "covIgn": mat(parts[5]),
            "quad": Fraction(parts[6]), "det": det}


def log_frac(f):
    """log of a positive exact rational without overflow."""
    return math.log(f.numerator) - math.log(f.denominator)


_DRIVER = {"name": "C16"}


def drive(ctx, lines, workers=4):
    """Run the request lines through drivers/C16.lean; when that driver no longer builds / dies (regenerated file
    broken) fall back to drivers/C16spec.lean — the hand-written, theorem-backed model only — so that every case is
    still judged against the specification."""
    if _DRIVER["name"] == "C16":
        try:
            return _lines_parallel("C16", lines, workers)
        except RuntimeError as e:
            ctx.broke("driver", "drivers/C16.lean (imports the regenerated Gen/ExactAlgebra.lean)", str(e)[-1500:])
            ctx.notes["driver_fallback"] = "drivers/C16spec.lean (hand-written model only; generated values = nogen)"
            _DRIVER["name"] = "C16spec"
    return _lines_parallel("C16spec", lines, workers)


# ------------------------------------------------------------------ real side

_MUTATIONS = []        # drained by run_real / derived_fantasy: inputs that an evaluation changed


def _snap(named):
    return [(nm, t, t.detach().clone()) for nm, t in named if t is not None]


def _same(a, b):
    import torch
    if a.shape != b.shape:
        return False
    if a.is_floating_point():
        return bool(torch.equal(torch.isnan(a), torch.isnan(b)) and
                    torch.equal(torch.nan_to_num(a.detach(), nan=0.0), torch.nan_to_num(b, nan=0.0)))
    return bool(torch.equal(a.detach(), b))


def _model_tensors(model, extra=()):
    named = [("model.train_targets", getattr(model, "train_targets", None))]
    for i, t in enumerate(getattr(model, "train_inputs", None) or ()):
        named.append((f"model.train_inputs[{i}]", t))
    return named + list(extra)


def _check_unchanged(snap, policy, what):
    """Invariant: an evaluation under any policy leaves the training data and every tensor handed in bit-identical."""
    for nm, t, before in snap:
        if not _same(t, before):
            diff = float((torch_nan0(t) - torch_nan0(before)).abs().max()) if t.shape == before.shape else float("inf")
            _MUTATIONS.append({"policy": policy, "tensor": nm, "during": what, "max_change": diff})


def torch_nan0(t):
    import torch
    return torch.nan_to_num(t.detach().to(torch.float64), nan=0.0)


def predict(model, test_x, cell, desc, light=False):
    """One prediction on the (un-reset) model object under the cell {policy, fast, eager, detach}.
    `light`: only run the call and evaluate the covariance (predictions whose values nobody reads: they fill caches)."""
    from gpytorch import settings as S
    t = desc["tasks"]
    Sx = desc["s"] * t
    N = desc["n"] * t
    lim = eager_limit(cell.get("eager", "default"), N, Sx)
    with warnings.catch_warnings(), contextlib.ExitStack() as st:
        warnings.simplefilter("ignore")
        st.enter_context(S.observation_nan_policy(cell["policy"]))
        st.enter_context(S.fast_pred_var(bool(cell.get("fast"))))
        if lim is not None:
            st.enter_context(S.max_eager_kernel_size(lim))
        if cell.get("detach") is not None:
            st.enter_context(S.detach_test_caches(bool(cell["detach"])))
        snap = _snap(_model_tensors(model, [("test inputs", test_x)]))
        p = model(test_x)
        if light:
            p.covariance_matrix
            _check_unchanged(snap, cell["policy"], "model(x*)")
            return None
        mean, cov, var = p.mean.detach(), p.covariance_matrix.detach(), p.variance.detach()
        _check_unchanged(snap, cell["policy"], "model(x*) + covariance_matrix + variance")
        keys = sorted({k[1][0] for k in getattr(model.prediction_strategy, "_memoize_cache", {})
                       if isinstance(k, tuple) and k[0] == "mean_cache" and len(k[1]) == 1})
    tail = 2 if t > 1 else 1
    nb = 1
    for k in p.batch_shape:
        nb *= k
    return {"mean": _np(mean.reshape(nb, Sx)), "cov": _np(cov.reshape(nb, Sx, Sx)), "var": _np(var.reshape(nb, Sx)),
            "keys": keys, "tail": tail}


def _drain():
    out = list(_MUTATIONS)
    del _MUTATIONS[:]
    return out


def make_runs(rng, seqs, quick, force=None):
    """The runs (one = arrival + policy sequence with a settings cell per step) of one (model, pattern).
    `force` restricts the cells (used by `search`): dict with optional lists `entries`, `fast`, `eager`, `detach`."""
    force = force or {}
    runs = []
    seq_list = list(seqs)
    if quick and not force.get("all_seqs"):
        core = [s for s in seq_list if s[0] != "ignore"]
        ign = [s for s in seq_list if s[0] == "ignore"]
        rng.shuffle(core)
        rng.shuffle(ign)
        seq_list = sorted(core[:4], key=len) + ign[:1]
    for seq in seq_list:
        fasts = force.get("fast", [False, True])
        if quick and seq[0] == "ignore" and len(fasts) > 1:
            fasts = [rng.choice(fasts)]
        for fast in fasts:
            if "entries" in force:
                entry = rng.choice(force["entries"])
            else:
                entry = rng.choices(ENTRIES, weights=ENTRY_WEIGHTS)[0]
            cells = []
            for pol in seq:
                cells.append({"policy": pol, "fast": fast, "eager": rng.choice(force.get("eager", EAGER_KINDS)),
                              "detach": rng.choice(force.get("detach", [None, None, None, False, True]))})
            run = {"seq": list(seq), "fast": fast, "entry": entry, "cells": cells}
            if entry != "fresh":
                pre = rng.choice(PRE_SEQS)
                run["pre"] = [{"policy": pol, "fast": rng.random() < 0.5, "eager": rng.choice(EAGER_KINDS)} for pol in pre]
                run["prev"] = rng.randrange(1 << 30)     # selects the previous pattern / target values
            runs.append(run)
    return runs


def previous_targets(ty, pat, prev_pats, sel, shape_mask):
    """Another NaN pattern (same shape) with OTHER target values: the state of the object before the update."""
    import random
    import torch
    r = random.Random(sel + 1)                 # target values: independent of how many candidate patterns there are
    cands = [list(p) for p in prev_pats if list(p) != list(pat)]
    if cands:
        prev = random.Random(sel).choice(cands)
    else:
        prev = list(pat[1:]) + [pat[0]]
        if prev == list(pat):
            prev = [not v for v in pat]
    delta = torch.tensor([r.uniform(-1.0, 1.0) for _ in range(ty.numel())], dtype=ty.dtype).reshape(ty.shape)
    y_prev = ty.clone() + delta
    y_prev[~shape_mask(prev)] = float("nan")
    return prev, y_prev


def run_real(ctx, model, lik, tx, ty, desc, test_x, obs_full, union, runs, prev_pats, extras=True):
    """Everything observed on the real code for one (model, pattern)."""
    import numpy as np
    import torch
    import gpytorch
    from gpytorch import settings as S
    t = desc["tasks"]
    y_nan = ty.clone()
    shape_mask = lambda pat: torch.as_tensor(np.array(pat, dtype=bool).reshape(tuple(ty.shape)))
    mask_t = torch.as_tensor(obs_full.reshape(ty.shape))
    y_nan[~mask_t] = float("nan")
    pat = [bool(v) for v in obs_full.reshape(-1)]
    model.set_train_data(tx, y_nan, strict=False)
    out = {"seq": [], "rejected": []}
    for run in runs:
        entry = run["entry"]
        rec = dict(run)
        target = model
        if entry == "fresh":
            G.reset_caches(model)
        elif entry == "deepcopy":
            # a COPY of a model with missing targets (that has predicted before) is judged like the model itself
            G.reset_caches(model)
            for cell in run["pre"]:
                try:
                    predict(model, test_x, cell, desc, light=True)
                except Exception:
                    ctx.count("pre-update-prediction-raised")
            try:
                target = copy.deepcopy(model)
                target.eval()
                target.likelihood.eval()
            except Exception as e:
                rec["steps"] = [(c["policy"], {"error": f"copy.deepcopy(model): {type(e).__name__}: {str(e)[:200]}"})
                                for c in run["cells"]]
                rec["mutations"] = _drain()
                out["seq"].append(rec)
                continue
        else:
            # the object has ANOTHER pattern (and other target values), predicts under some policies, and only then
            # receives the pattern under test: whatever it cached before must not survive in any output
            if run.get("prev_pattern"):
                prev, y_prev = previous_targets(ty, pat, [run["prev_pattern"]], run["prev"], shape_mask)
            else:
                prev, y_prev = previous_targets(ty, pat, prev_pats, run["prev"], shape_mask)
            rec["prev_pattern"] = [bool(v) for v in prev]
            model.set_train_data(tx, y_prev, strict=False)
            G.reset_caches(model)
            for cell in run["pre"]:
                try:
                    predict(model, test_x, cell, desc, light=True)
                except Exception:
                    ctx.count("pre-update-prediction-raised")
            try:
                if entry == "upd:targets":
                    model.set_train_data(targets=y_nan)
                elif entry == "upd:targets:nonstrict":
                    model.set_train_data(targets=y_nan, strict=False)
                else:
                    model.set_train_data(inputs=tx, targets=y_nan)
            except Exception as e:
                rec["steps"] = [(c["policy"], {"error": f"set_train_data: {type(e).__name__}: {str(e)[:200]}"})
                                for c in run["cells"]]
                rec["mutations"] = _drain()
                out["seq"].append(rec)
                model.set_train_data(tx, y_nan, strict=False)
                continue
        steps = []
        used = []
        for cell in run["cells"]:
            pol = cell["policy"]
            used.append(pol)
            try:
                r = predict(target, test_x, cell, desc)
                r["expected_keys"] = sorted(set(used))
                steps.append((pol, r))
            except Exception as e:
                steps.append((pol, {"error": f"{type(e).__name__}: {str(e)[:200]}"}))
        rec["steps"] = steps
        rec["mutations"] = _drain()
        out["seq"].append(rec)
    if not extras:
        model.set_train_data(tx, ty, strict=False)
        out["predictions_only"] = True
        return out
    # ---- MLL (training mode), expected_log_prob, log_marginal
    model.set_train_data(tx, y_nan, strict=False)
    model.train()
    lik.train()
    mll = gpytorch.mlls.ExactMarginalLogLikelihood(lik, model)
    with warnings.catch_warnings():
        warnings.simplefilter("ignore")
        for pol in ("mask", "fill"):
            with S.observation_nan_policy(pol):
                snap = _snap(_model_tensors(model, [("targets handed in", y_nan), ("inputs handed in", tx)]))
                try:
                    v = mll(model(tx), y_nan)
                    out["mll_" + pol] = _np(v.detach().reshape(-1))
                except ValueError as e:
                    out["rejected"].append(f"mll:{pol}:{str(e)[:80]}")
                except Exception as e:
                    out["mll_" + pol + "_error"] = f"{type(e).__name__}: {str(e)[:200]}"
                _check_unchanged(snap, pol, "ExactMarginalLogLikelihood")
                prior = model(tx)
                for fn in ("expected_log_prob", "log_marginal"):
                    try:
                        v = getattr(lik, fn)(y_nan, prior)
                        out[f"{fn}_{pol}"] = _np(v.detach())
                    except Exception as e:
                        out[f"{fn}_{pol}_error"] = f"{type(e).__name__}: {str(e)[:200]}"
                    _check_unchanged(snap, pol, f"likelihood.{fn}")
    out["mutations"] = _drain()
    model.eval()
    lik.eval()
    # ---- fresh model on the observed subset (single-output, whole points deleted)
    if t == 1 and obs_full.shape[0] == 1 and desc["batch"] == "none":
        o = torch.as_tensor(obs_full[0])
        try:
            fresh = copy.deepcopy(model)
            if desc["lik"] == "fixed":
                fresh.likelihood.noise = lik.noise_covar.noise.detach()[o]
            fresh.set_train_data(tx[o], ty[o], strict=False)
            fresh.eval()
            fresh.likelihood.eval()
            with warnings.catch_warnings():
                warnings.simplefilter("ignore")
                p = fresh(test_x)
                out["fresh"] = {"mean": _np(p.mean.detach()), "cov": _np(p.covariance_matrix.detach())}
                fresh.train()
                fresh.likelihood.train()
                fm = gpytorch.mlls.ExactMarginalLogLikelihood(fresh.likelihood, fresh)
                out["fresh"]["mll"] = float(fm(fresh(tx[o]), ty[o]).detach())
        except Exception as e:
            out["fresh_error"] = f"{type(e).__name__}: {str(e)[:200]}"
    model.set_train_data(tx, ty, strict=False)
    return out


# ------------------------------------------------------------------ models OBTAINED from a model with missing targets

def derived_fantasy(ctx, model, lik, tx, ty, desc, test_x, item, sel, quick):
    """`model.get_fantasy_model(x_f, y_f)` of a model whose targets carry the NaN pattern of `item` (fantasy targets with
    and without NaNs): the fantasy model's predictions under 'mask' / 'fill' must equal deletion of ALL missing
    observations (source + fantasy) from the combined data.  Returns a new item (own driver lines on the joint
    [train; fantasy; test]) with the real-side runs attached, or None."""
    import random
    import numpy as np
    import torch
    from gpytorch import settings as S
    if desc["tasks"] != 1 or item["kind"] not in ("single", "batch"):
        return None          # multitask fantasies with f >= 2 are rejected by the real code (C04)
    r = random.Random(sel)
    n, d, nb = desc["n"], tx.shape[-1], item["P"]["nb"]
    ybatch = tuple(ty.shape[:-1])
    f = r.choice([1, 2])
    rnd = lambda shape: torch.tensor([r.uniform(-1.5, 1.5) for _ in range(int(np.prod(shape)))], dtype=ty.dtype).reshape(shape)
    xf = rnd((*ybatch, f, d))
    yf = rnd((*ybatch, f))
    obs_src = item["obs_full"]
    mode = r.choice(["none", "some", "some"]) if not obs_src.all() else "some"
    obsf = np.ones((nb, f), dtype=bool)
    if mode == "some":
        obsf = np.array([[r.random() < 0.5 for _ in range(f)] for _ in range(nb)], dtype=bool)
        if obsf.all():
            obsf[r.randrange(nb), r.randrange(f)] = False
    kw, noise = {}, None
    if desc["lik"] == "fixed":
        nf = torch.tensor([r.uniform(0.05, 0.6) for _ in range(f)], dtype=ty.dtype)
        kw = {"noise": nf}
        noise = torch.diag_embed(torch.cat([lik.noise_covar.noise.detach(), nf]))
    tx2 = torch.cat([tx.expand(*ybatch, n, d), xf], dim=-2)
    ty2 = torch.cat([ty, yf], dim=-1)
    desc2 = dict(desc, n=n + f)
    P2 = dense(model, lik, tx2, ty2, desc2, test_x, noise=noise)
    pat2 = [bool(v) for b in range(nb) for v in list(obs_src[b]) + list(obsf[b])]
    item2 = make_item(ctx, item["kind"], item["idx"], pat2, desc2, P2)
    if item2 is None:
        return None
    item2["keyprefix"] = "fantasy-model:"
    item2["derived"] = {"type": "fantasy", "sel": sel, "quick": bool(quick), "source_pattern": item["pat"], "f": f,
                        "fantasy_observed": obsf.astype(int).tolist()}
    if item.get("label"):
        item2["label"] = item["label"]
    # ---- real side
    y_nan = ty.clone()
    y_nan[~torch.as_tensor(obs_src.reshape(ty.shape))] = float("nan")
    yf_nan = yf.clone()
    yf_nan[~torch.as_tensor(obsf.reshape(yf.shape))] = float("nan")
    other = {"mask": "fill", "fill": "mask"}
    plans = []
    for pol in ("mask", "fill"):
        fasts = [r.random() < 0.5] if quick else [False, True]
        for fast in fasts:
            plans.append((pol, pol, [pol] if r.random() < 0.5 else [pol, other[pol]], fast))
    cross = r.choice(["mask", "fill"])
    plans.append(("ignore", "ignore", [cross], r.random() < 0.5))          # made while no policy is active
    plans.append((cross, cross, [other[cross]], r.random() < 0.5))         # made under one policy, used under the other
    out = {"seq": [], "rejected": [], "predictions_only": True}
    shape_mask = lambda pat: torch.as_tensor(np.array(pat, dtype=bool).reshape(tuple(ty.shape)))
    for src_pol, fant_pol, seq, fast in plans:
        src_entry = "fresh" if r.random() < 0.6 else "upd:targets"
        pre = [{"policy": src_pol, "fast": fast, "eager": r.choice(EAGER_KINDS)}]
        cells = [{"policy": p, "fast": fast, "eager": r.choice(EAGER_KINDS), "detach": r.choice([None, None, False, True])}
                 for p in seq]
        rec = {"seq": list(seq), "fast": fast, "entry": "fantasy", "src_entry": src_entry, "fant_policy": fant_pol,
               "pre": pre, "cells": cells}
        try:
            if src_entry == "fresh":
                model.set_train_data(tx, y_nan, strict=False)
                G.reset_caches(model)
            else:      # set_train_data-then-fantasy: the source got its pattern through a targets-only update
                _, y_prev = previous_targets(ty, item["pat"], [], r.randrange(1 << 30), shape_mask)
                model.set_train_data(tx, y_prev, strict=False)
                G.reset_caches(model)
                predict(model, test_x, pre[0], desc, light=True)
                model.set_train_data(targets=y_nan)
            for cell in pre:
                predict(model, test_x, cell, desc, light=True)
            with warnings.catch_warnings(), S.observation_nan_policy(fant_pol), S.fast_pred_var(fast):
                warnings.simplefilter("ignore")
                snap = _snap(_model_tensors(model, [("fantasy inputs", xf), ("fantasy targets", yf_nan)]))
                fant = model.get_fantasy_model(xf, yf_nan, **kw)
                _check_unchanged(snap, fant_pol, "get_fantasy_model")
        except Exception as e:
            rec["steps"] = [(c["policy"], {"error": f"get_fantasy_model: {type(e).__name__}: {str(e)[:200]}"}) for c in cells]
            rec["mutations"] = _drain()
            out["seq"].append(rec)
            continue
        steps, used = [], []
        for cell in cells:
            used.append(cell["policy"])
            try:
                res = predict(fant, test_x, cell, desc2)
                res["expected_keys"] = sorted(set(used))
                steps.append((cell["policy"], res))
            except Exception as e:
                steps.append((cell["policy"], {"error": f"{type(e).__name__}: {str(e)[:200]}"}))
        rec["steps"] = steps
        rec["mutations"] = _drain()
        out["seq"].append(rec)
    model.set_train_data(tx, ty.clone(), strict=False)
    G.reset_caches(model)
    item2["real"] = out
    return item2


def derived_selection(items, quick):
    """Which (model, pattern) items get a fantasy model: quick 2 per model (one of the first with a missing target, the
    last one), thorough up to 6 spread over the patterns."""
    if not items:
        return []
    missing = [i for i, it in enumerate(items) if not it["obs_full"].all()]
    if quick:
        return sorted(set(missing[:1] + [len(items) - 1]))
    step = max(1, len(items) // 6)
    return sorted(set(missing[:1] + list(range(0, len(items), step))[:6]))


# ------------------------------------------------------------------ correspondence

def model_patterns(rng, kind, P, ysize, quick):
    pats = patterns(rng, ysize, quick, k_random=3 if quick else 6)
    if quick and kind != "single":
        pats = pats[:6]
    if not quick and ysize > 6:
        rng.shuffle(pats)
        pats = pats[:40]
    if kind == "batch":
        # deliberately different patterns per batch element (first, so that every tier has them)
        pats = list(dict.fromkeys(batch_patterns(rng, P["nb"], P["N"]) + [tuple(p) for p in pats[:3 if quick else None]]))
    return pats


def make_item(ctx, kind, idx, pat, desc, P):
    import numpy as np
    N = P["N"]
    obs_full = np.array(pat, dtype=bool).reshape(P["nb"], N) if kind == "batch" else \
        np.array(pat, dtype=bool).reshape(1, N)
    if not obs_full.any(axis=0).any():
        return None
    union = obs_full.all(axis=0)          # 'mask': observed iff observed in every batch element
    if not union.any():
        ctx.count("skipped:mask-union-empty")
        return None
    item = {"kind": kind, "idx": idx, "pat": [bool(v) for v in pat], "desc": desc, "P": P,
            "obs_full": obs_full, "union": union, "lines_mask": [], "lines_fill": [], "codes": line_codes(P)}
    for b in range(P["nb"]):
        item["lines_mask"].append(nan_line(P, b, union))
        item["lines_fill"].append(nan_line(P, b, obs_full[b]))
    item["line_union"] = union_line(obs_full) if P["nb"] > 1 else None
    return item


def item_lines(item):
    return item["lines_mask"] + item["lines_fill"] + ([item["line_union"]] if item["line_union"] else [])


def correspondence(ctx, extra=False):
    import torch
    torch.set_num_threads(2)
    thorough = ctx.tier == "thorough" or extra
    quick = not thorough
    counts = {"single": 14, "batch": 5, "multi": 5} if quick else {"single": 24, "batch": 8, "multi": 8}
    if os.environ.get("VERIF_C16_CASES"):
        a, b_, c_ = [int(v) for v in os.environ["VERIF_C16_CASES"].split(",")]
        counts = {"single": a, "batch": b_, "multi": c_}
    seqs = SEQS_THOROUGH
    work, lines = [], []
    T = C.Timer()
    for kind, cnt in counts.items():
        for idx in range(cnt):
            model, lik, tx, ty, desc, test_x, rng = build_model(ctx, kind, idx, thorough)
            P = dense(model, lik, tx, ty, desc, test_x)
            pats = model_patterns(rng, kind, P, ty.numel(), quick)
            items = [it for it in (make_item(ctx, kind, idx, pat, desc, P) for pat in pats) if it is not None]
            valid = [it["pat"] for it in items]
            chosen = derived_selection(items, quick)
            for k, item in enumerate(items):
                lines += item_lines(item)
                # pattern "none" (a policy active, nothing missing): EVERY policy sequence, in every tier
                runs = make_runs(rng, seqs, quick, {"all_seqs": True} if item["obs_full"].all() else None)
                try:
                    item["real"] = run_real(ctx, model, lik, tx, ty, desc, test_x, item["obs_full"], item["union"], runs, valid)
                except Exception as e:
                    del _MUTATIONS[:]
                    ctx.broke("correspondence", "harness-error:run_real", f"{type(e).__name__}: {str(e)[:300]} on {kind}{idx}")
                    model.set_train_data(tx, ty.clone(), strict=False)
                    continue
                work.append(item)
                if k in chosen:
                    d = derived_fantasy(ctx, model, lik, tx, ty, desc, test_x, item, rng.randrange(1 << 30), quick)
                    if d is not None:
                        lines += item_lines(d)
                        work.append(d)
                        ctx.count("derived:fantasy-models")
            ctx.count("models")
    ctx.notes["phase1_s"] = round(T(), 1)
    replies = drive(ctx, lines, 4 if quick else 10)
    ctx.notes["phase2_s"] = round(T(), 1)
    dist = {"missing_count": {}, "kind": {}, "batch_items_with_different_patterns_per_element": 0}
    for item in work:
        compare(ctx, item, replies)
        k = str(int((~item["obs_full"]).sum()))
        dist["missing_count"][k] = dist["missing_count"].get(k, 0) + 1
        kd = item["kind"] + (":fantasy-model" if item.get("derived") else "")
        dist["kind"][kd] = dist["kind"].get(kd, 0) + 1
        if item["obs_full"].shape[0] > 1 and (item["obs_full"] != item["obs_full"][0]).any():
            dist["batch_items_with_different_patterns_per_element"] += 1
    ctx.notes["distribution"] = dist
    _fold_cells(ctx)
    ctx.notes["driver_requests"] = len(set(lines))
    ctx.notes["phase3_s"] = round(T(), 1)


def _fold_cells(ctx):
    """Move the per-cell counters (policy x fast x max_eager_kernel_size x arrival) into the notes."""
    cells = dict(ctx.notes.get("cells", {}))
    for k in [k for k in ctx.counters if k.startswith("cell:")]:
        cells[k[5:]] = cells.get(k[5:], 0) + ctx.counters.pop(k)
    ctx.notes["cells"] = dict(sorted(cells.items()))


def _slim(desc):
    return {k: v for k, v in desc.items() if k != "kernel_spec"}


def compare(ctx, item, replies):
    import numpy as np
    desc, P, real = item["desc"], item["P"], item["real"]
    N, Sx, nb = P["N"], P["S"], P["nb"]
    obs_full, union = item["obs_full"], item["union"]
    nmiss = int((~obs_full).sum())
    where = f"{desc['kernel']} lik={desc['lik']} {item['kind']}{item['idx']} n={N} s={Sx} observed={obs_full.astype(int).tolist()}"
    exM = [parse_nan(replies[l], item["codes"]) for l in item["lines_mask"]]
    exF = [parse_nan(replies[l], item["codes"]) for l in item["lines_fill"]]
    if any(e is None for e in exM + exF):
        ctx.count("discarded_singular")
        return
    if item.get("line_union"):
        # the model's reduction of a batch of patterns (ExactGP.obsUnion) is what the 'mask' reference deletes
        ru = replies[item["line_union"]]
        if ru.strip() != "ok " + " ".join("1" if v else "0" for v in union):
            ctx.broke("correspondence", "ExactGP.obsUnion vs the harness' batch reduction", f"{ru} on {where}")

    kp = item.get("keyprefix", "")

    def rp(extra):
        d = {"kind": item["kind"], "idx": item["idx"], "pattern": item["pat"], "desc": _slim(desc)}
        if item.get("label"):
            d["label"] = item["label"]
        if item.get("derived"):
            d["derived"] = item["derived"]
        d.update(extra)
        if len(item["lines_fill"][0]) < 20000:
            d["nan_request"] = item["lines_fill"][0]
        return d

    def tol_for(b, obs):
        A = P["J"][b][:N, :N] + P["Strain"][b]
        Aoo = A[np.ix_(obs, obs)]
        Ai = np.linalg.inv(Aoo)
        kappa = _norm_inf(Aoo) * _norm_inf(Ai)
        rel = max(64 * N * EPS * kappa, 1e-9)
        Kts = np.abs(P["J"][b][N:, :N][:, obs])
        r = np.abs((P["y"][b] - P["mj"][b][:N])[obs])
        sc_mean = _absmax(P["mj"][b][N:]) + _absmax(Kts @ np.abs(Ai) @ r)
        sc_cov = _absmax(P["J"][b][N:, N:]) + _absmax(Kts @ np.abs(Ai) @ Kts.T)
        return kappa, rel, sc_mean, sc_cov

    def check(key, what, got, exp, tol, extra=None):
        key = kp + key
        got, exp = np.asarray(got, dtype=float), np.asarray(exp, dtype=float)
        ctx.count("comparisons")
        if np.isnan(got).any():
            ctx.fail("nan-in-output:" + key, f"NaN in {what} on {where}", rp(dict(extra or {}, observable=key)))
            return False
        if got.shape != exp.shape:
            ctx.fail("shape:" + key, f"{what}: shape {got.shape} != {exp.shape} on {where}", rp(dict(extra or {}, observable=key)))
            return False
        err = _absmax(got - exp)
        if err <= tol:
            return True
        ctx.fail(key, f"{what}: |impl - deleted-data value| = {err:.3e} > tol {tol:.2e} on {where}",
                 rp(dict(extra or {}, observable=key, err=err, tol=tol, got=got.tolist(), expected=exp.tolist())))
        return False

    tols = {}
    for b in range(nb):
        tols[("mask", b)] = tol_for(b, union)
        tols[("fill", b)] = tol_for(b, obs_full[b])
    if max(v[0] for v in tols.values()) > 1e6:
        ctx.count("discarded_cond>1e6")
        return
    patname = "".join("1" if v else "0" for v in item["pat"])
    # ---- invariant: no evaluation under any policy changes the training data or a tensor handed in
    for m in real.get("mutations", []):
        ctx.fail(f"{kp}mutates-train-targets:{m['policy']}",
                 f"{m['during']} under '{m['policy']}' changed {m['tensor']} in place (max change {m['max_change']:.3e}) on {where}",
                 rp({"observable": "mutation", **m}))
    for run in real["seq"]:
        seqname = ">".join(run["seq"]) + (":fast" if run["fast"] else ":exact")
        seqname += arrival_text(run)
        for m in run.get("mutations", []):
            ctx.fail(f"{kp}mutates-train-targets:{m['policy']}",
                     f"{m['during']} under '{m['policy']}' changed {m['tensor']} in place (max change {m['max_change']:.3e}) "
                     f"on {where} seq={seqname}",
                     rp({"observable": "mutation", "sequence": run["seq"], "fast": run["fast"], "run": _run_payload(run), **m}))
        runkey = run["entry"] + "|" + ",".join(c["eager"] + {None: "", False: "a", True: "d"}[c.get("detach")]
                                                for c in run["cells"])
        for step, (pol, r) in enumerate(run["steps"]):
            cell = run["cells"][step]
            eager = is_eager(cell["eager"], N, Sx)
            ctx.case(f"{item.get('label', '')}{item['kind']}{item['idx']}|{patname}|{seqname}|{runkey}|{step}",
                     nontrivial=nmiss > 0,
                     sample={"model": _slim(desc), "observed": obs_full.astype(int).tolist(), "sequence": seqname,
                             "step": step, "cell": cell, "arrival": run["entry"]})
            extra = {"sequence": run["seq"], "fast": run["fast"], "step": step, "policy": pol, "run": _run_payload(run)}
            if pol == "ignore":
                continue   # with NaN targets and no policy the outputs are NaN by design; only its cache effect matters
            ctx.count(f"cell:{pol}:{'fast' if cell['fast'] else 'exact'}:max_eager={cell['eager']}"
                      f"({'eager' if eager else 'lazy'}):{ARRIVAL_CLASS.get(run['entry'], 'after-update')}")
            if "error" in r:
                ctx.fail(f"{kp}exception:{pol}", f"model(x*) under policy {pol} raised {r['error']} on {where} seq={seqname}",
                         rp(extra))
                continue
            if r["keys"] != r["expected_keys"]:
                ctx.broke("correspondence", "policy-keyed mean_cache entries",
                          f"memo keys {r['keys']} != policies used {r['expected_keys']} on {where} seq={seqname}")
            for b in range(nb):
                ex = exM[b] if pol == "mask" else exF[b]
                em, ec = (ex["meanMask"], ex["covMask"]) if pol == "mask" else (ex["meanFill"], ex["covFill"])
                kappa, rel, sc_mean, sc_cov = tols[(pol, b)]
                check(f"posterior-mean:{pol}", f"model(x*).mean under '{pol}' (seq {seqname}, step {step}, "
                      f"max_eager_kernel_size={cell['eager']})", r["mean"][b], em, rel * sc_mean + 1e-12, extra)
                tol_c = rel * sc_cov + 1e-12
                got_c = r["cov"][b]
                # tie: the implementation vs what the translator says the code is (GENERATED exact_prediction in the
                # branch configuration of this step)
                gm, gc = ex.get("gen", {}).get((pol, cfg_code(P, eager)), (None, None))
                ctx.count("generated-vs-impl")
                if gm is None or gc is None:
                    if _DRIVER["name"] == "C16":
                        ctx.broke("correspondence", "generated algebra returned no value", f"policy {pol} on {where}")
                else:
                    for nm, got_, exp_, tl in (("mean", r["mean"][b], gm[:, 0], rel * sc_mean + 1e-12), ("covar", got_c, gc, tol_c)):
                        if np.isnan(np.asarray(got_, dtype=float)).any() or _absmax(np.asarray(got_) - exp_) > tl:
                            ctx.broke("correspondence", f"generated algebra (Gen/ExactAlgebra.lean) vs implementation: {nm}:{pol}",
                                      f"|impl - generated| = {_absmax(np.asarray(got_) - exp_):.3e} > {tl:.1e} on {where} seq={seqname}")
                if not np.isnan(got_c).any() and _absmax(got_c - ec) > tol_c and \
                        _absmax(got_c - ex["covIgn"]) <= tol_c + rel * sc_cov:
                    # the signature of the known defect: the covariance conditions on the rows of the missing targets
                    ctx.count("comparisons")
                    ctx.fail(kp + "exact_predictive_covar/nan_policy",
                             f"posterior covariance under '{pol}' equals the covariance conditioned on ALL training "
                             f"inputs (policy ignored): |impl - deleted| = {_absmax(got_c - ec):.3e}, "
                             f"|impl - ignoring-policy model| = {_absmax(got_c - ex['covIgn']):.1e} on {where} seq={seqname}",
                             rp(dict(extra, observable="covariance", got=got_c.tolist(), expected=ec.tolist())))
                else:
                    check(f"posterior-covar:{pol}", f"model(x*).covariance_matrix under '{pol}' (seq {seqname}, step {step}, "
                          f"max_eager_kernel_size={cell['eager']})", got_c, ec, tol_c, extra)
                    check(f"posterior-variance:{pol}", f"model(x*).variance under '{pol}' (seq {seqname})",
                          r["var"][b], np.diag(ec), tol_c, extra)
    if real.get("predictions_only"):
        return
    # ---- MLL under mask, rescaled by the observed count
    for e in real["rejected"]:
        ctx.count("rejected:" + e.split(":")[0] + ":" + e.split(":")[1])
    if "mll_mask_error" in real:
        ctx.fail("exception:mll:mask", f"ExactMarginalLogLikelihood under 'mask' raised {real['mll_mask_error']} on {where}", rp({}))
    if "mll_fill" in real or "mll_fill_error" in real:
        # documented as unsupported: must be rejected with the explicit ValueError
        ctx.fail("mll:fill-not-rejected", f"ExactMarginalLogLikelihood under 'fill' did not raise the documented ValueError on {where}", rp({}))
    if "mll_mask" in real:
        for b in range(nb):
            ex = exM[b]
            if ex["det"] is None or ex["det"] <= 0:
                ctx.count("mll:no-certified-det")
                continue
            cnt = ex["cnt"]
            logp = -0.5 * (float(ex["quad"]) + log_frac(ex["det"]) + cnt * math.log(2 * math.pi))
            kappa, rel, _, _ = tols[("mask", b)]
            scale = abs(float(ex["quad"])) + abs(log_frac(ex["det"])) + cnt * 1.84 + 1.0
            got = real["mll_mask"][b] if len(real["mll_mask"]) == nb else real["mll_mask"][0]
            # documented scaling: the value is divided by the FULL number of targets N
            check("mll:mask:rescaled", "N * ExactMarginalLogLikelihood('mask') vs log N(y_o; m_o, A_oo)",
                  [got * N], [logp], rel * scale + 1e-12, {"n_obs": cnt, "N": N})
            ctx.case(f"mll|{item['kind']}{item['idx']}|{patname}|{b}", nontrivial=nmiss > 0)
    # ---- expected_log_prob / log_marginal
    for b in range(nb):
        mu = P["mj"][b][:N]
        v = np.diag(P["J"][b][:N, :N])
        s2 = np.diag(P["Strain"][b])
        y = P["y"][b]
        lik_rank = desc.get("lik_rank", 0)
        if lik_rank != 0:
            continue   # non-diagonal task noise: the per-point formulas are C12's subject
        elp = -0.5 * (((y - mu) ** 2 + v) / s2 + np.log(s2) + math.log(2 * math.pi))
        lm = -0.5 * ((y - mu) ** 2 / (v + s2) + np.log(v + s2) + math.log(2 * math.pi))
        t = desc["tasks"]
        for fn, ref in (("expected_log_prob", elp), ("log_marginal", lm)):
            for pol in ("mask", "fill"):
                key = f"{fn}_{pol}"
                if key + "_error" in real:
                    ctx.fail(f"exception:{fn}:{pol}", f"{fn} under '{pol}' raised {real[key + '_error']} on {where}", rp({}))
                    continue
                if key not in real:
                    continue
                got = np.asarray(real[key], dtype=float)
                if pol == "mask":
                    exp = ref[union]
                    got_b = got.reshape(nb, -1)[b] if got.size == nb * int(union.sum()) else got.reshape(-1)
                else:
                    per = np.where(obs_full[b], ref, 0.0)
                    exp = per.reshape(-1, t).sum(axis=1) if t > 1 else per
                    got_b = got.reshape(nb, -1)[b]
                tol = 1e-10 * (_absmax(ref) + 1.0)
                check(f"{fn}:{pol}", f"likelihood.{fn} under '{pol}' vs the per-point terms of the observed entries",
                      got_b, exp, tol, {"batch_element": b})
    # ---- fresh model on the observed subset
    if "fresh_error" in real:
        ctx.count("fresh-model-not-built")
    if "fresh" in real:
        ex = exM[0]
        kappa, rel, sc_mean, sc_cov = tols[("mask", 0)]
        check("fresh-model:mean", "fresh model on the observed subset: mean vs closed form", real["fresh"]["mean"],
              ex["meanMask"], rel * sc_mean + 1e-12)
        check("fresh-model:covar", "fresh model on the observed subset: covariance vs closed form", real["fresh"]["cov"],
              ex["covMask"], rel * sc_cov + 1e-12)
        if ex["det"] is not None and ex["det"] > 0 and "mll_mask" in real:
            cnt = ex["cnt"]
            # N * mll_mask == n_obs * mll_deleted   (mll_mask_rescaled)
            scale = abs(float(ex["quad"])) + abs(log_frac(ex["det"])) + cnt * 1.84 + 1.0
            check("mll:mask-vs-fresh", "N * mll('mask') vs n_obs * mll(fresh model on the observed subset)",
                  [real["mll_mask"][0] * N], [real["fresh"]["mll"] * cnt], 2 * rel * scale + 1e-12)


def _run_payload(run):
    """JSON-able description of one run (arrival + cells), enough for `replay` to re-execute it."""
    return {k: v for k, v in run.items() if k != "steps"}


ARRIVAL_CLASS = {"fresh": "fresh", "deepcopy": "deepcopy", "fantasy": "fantasy-model"}


def arrival_text(run):
    e = run["entry"]
    if e == "fresh":
        return ""
    pre = ">".join(c["policy"] for c in run.get("pre", []))
    if e == "deepcopy":
        return f" on a deepcopy of the model [which predicted {pre}]"
    if e == "fantasy":
        src = f"{run['src_entry']} source predicted {pre}" if run["src_entry"] == "fresh" else \
            f"source predicted on another pattern, got the targets by set_train_data, predicted {pre}"
        return f" on get_fantasy_model(...) made under '{run['fant_policy']}' [{src}]"
    return f" after [{pre} on another pattern, {e[4:]} update]"


# ------------------------------------------------------------------ failing-input search (targeted, bounded)

# which generated functions a corollary of Props/C16.lean is about
THEOREM_FUNCS = {"gen_mean_cache_eq": ["mean_cache_ignore", "mean_cache_mask", "mean_cache_fill"],
                 "gen_mean_missing_obs_eq_delete": ["exact_predictive_mean", "mean_cache_mask", "mean_cache_fill"],
                 "gen_covar_missing_obs_eq_delete": ["exact_predictive_covar_missing_obs", "exact_predictive_covar"]}
# branch atoms of the generated decision trees of the source as it was when the proofs were written
BASE_ATOMS = {"split": ["eager"], "mean_cache_ignore": [], "mean_cache_mask": [], "mean_cache_fill": [],
              "exact_predictive_mean": ["policy=ignore", "policy=mask"],
              "exact_predictive_covar": ["fast", "skip", "policy=ignore", "ttIsTensor", "policy=mask", "ttDim2"],
              "exact_predictive_covar_missing_obs": ["policy=mask"],
              "exact_prediction": ["eager", "policy=ignore", "fast", "skip", "ttDim2", "policy=mask"]}
# settings axis of the real code behind a branch atom
ATOM_AXIS = {"eager": "eager", "ttIsTensor": "eager", "fast": "fast", "detach": "detach", "ttDim2": "batch",
             "cache4d": "batch", "skip": "skip"}


def broken_theorems(broken):
    """Names of the theorems of Props/C16.lean inside which `lake build` reported an error."""
    path = C.module_file(PROP_MODULES[0])
    try:
        src = open(path).read().split("\n")
    except OSError:
        return []
    starts = [(i + 1, m.group(1)) for i, l in enumerate(src)
              for m in [re.match(r"\s*(?:private\s+)?theorem\s+([\w.']+)", l)] if m]
    names = []
    for kind, _, detail in broken:
        if kind != "proof":
            continue
        for m in re.finditer(r"Props/C16\.lean:(\d+):", detail):
            ln = int(m.group(1))
            owner = [nm for s, nm in starts if s <= ln]
            if owner and owner[-1] not in names:
                names.append(owner[-1])
    return names


def search_plan(ctx, broken):
    """Derive from what broke which settings axes / arrivals to try first."""
    thms = broken_theorems(broken)
    summary = ctx.notes.get("gen_summary") or {}
    funcs = [f for t in thms for f in THEOREM_FUNCS.get(t, [])] or list(BASE_ATOMS)
    new_atoms = []
    for f in funcs:
        for a in (summary.get(f) or {}).get("atoms", []):
            if a not in BASE_ATOMS.get(f, []) and a not in new_atoms:
                new_atoms.append(a)
    axes = [ATOM_AXIS[a] for a in new_atoms if a in ATOM_AXIS]
    history_first = any(k in ("translator", "driver") for k, _, _ in broken) or \
        any(k == "correspondence" and "mean_cache" in n for k, n, _ in broken)
    text = " ".join(str(d) for _, _, d in broken) + " " + str(ctx.notes.get("gen_error", ""))
    if "self." in text:
        history_first = True      # a new attribute of the strategy object: state that may survive an update
    return {"theorems": thms, "functions": list(dict.fromkeys(funcs)), "new_atoms": new_atoms,
            "axes": list(dict.fromkeys(axes)), "history_first": history_first}


def probe_generated(ctx):
    """Exact probe: generated `exact_prediction` vs the theorem-backed model under EVERY branch configuration (skip off)
    on two small inputs; returns the configurations (decoded) in which they differ."""
    import numpy as np
    out = []
    if _DRIVER["name"] != "C16":
        return out
    items = []
    for kind in ("single", "batch"):
        model, lik, tx, ty, desc, test_x, rng = build_model(ctx, kind, 0, False, label="probe")
        P = dense(model, lik, tx, ty, desc, test_x)
        N = P["N"]
        obs = np.array([i != 1 for i in range(N)], dtype=bool)
        items.append((kind, P, nan_line(P, 0, obs, all_codes=True)))
    try:
        replies = drive(ctx, [l for _, _, l in items], 1)
    except RuntimeError:
        return out
    codes = line_codes(None, all_codes=True)
    for kind, P, line in items:
        ex = parse_nan(replies[line], codes)
        if ex is None:
            continue
        for (pol, code), (gm, gc) in ex["gen"].items():
            em, ec = (ex["meanMask"], ex["covMask"]) if pol == "mask" else (ex["meanFill"], ex["covFill"])
            bad = []
            if gm is None or _absmax(gm[:, 0] - em) > 1e-13 * (1 + _absmax(em)):
                bad.append("mean")
            if gc is None or _absmax(gc - ec) > 1e-13 * (1 + _absmax(ec)):
                bad.append("covar")
            if bad:
                out.append({"policy": pol, "code": code, "fast": bool(code % 2), "detach": bool((code // 4) % 2),
                            "eager": bool((code // 8) % 2), "ttDim2": bool((code // 16) % 2),
                            "ttIsTensor": bool((code // 32) % 2), "differs": bad})
    return out


def search(ctx, broken):
    """Targeted, bounded failing-input search (only when something broke and no failing input is known yet)."""
    if ctx.failures:
        return
    import torch
    torch.set_num_threads(2)
    quick = ctx.tier == "quick"
    deadline = max(_T0 + (80.0 if quick else 540.0), time.time() + (8.0 if quick else 60.0))
    plan = search_plan(ctx, broken)
    diffs = probe_generated(ctx)
    reach = [d for d in diffs if d["ttIsTensor"] == d["eager"]]       # exact_prediction hands tensors on iff eager
    plan["generated_differs_from_model_in"] = sorted({
        f"{d['policy']}:{'eager' if d['eager'] else 'lazy'}:{'fast' if d['fast'] else 'exact'}:"
        f"{'unbatched' if d['ttDim2'] else 'batched'}:{'+'.join(d['differs'])}" for d in reach})
    plan["unreachable_differences"] = len(diffs) - len(reach)
    # ---- cell order: configurations where the generated code provably leaves the model first, then the axes of the
    #      new branch atoms of the functions whose theorem broke, then everything else
    force_sets = []
    if reach:
        for eager in sorted({d["eager"] for d in reach}):
            sel = [d for d in reach if d["eager"] == eager]
            force_sets.append({"eager": ["default", "n+s"] if eager else ["0", "n"],
                               "fast": sorted({d["fast"] for d in sel}), "detach": sorted({d["detach"] for d in sel}),
                               "kinds": (["single", "multi"] if any(d["ttDim2"] for d in sel) else []) +
                                        (["batch"] if any(not d["ttDim2"] for d in sel) else [])})
    if "eager" in plan["axes"]:
        force_sets.append({"eager": ["0", "n"]})
    if "fast" in plan["axes"]:
        force_sets.append({"fast": [True]})
    if "detach" in plan["axes"]:
        force_sets.append({"detach": [True]})
    if "batch" in plan["axes"]:
        force_sets.append({"kinds": ["batch"]})
    if plan["history_first"]:
        force_sets.insert(0 if not reach else len(force_sets),
                          {"entries": ["upd:targets", "upd:inputs+targets", "upd:targets:nonstrict"]})
    force_sets.append({})                                             # finally: the unrestricted cell space
    plan["rounds"] = []
    ctx.notes["search_plan"] = plan
    rnd = 0
    size = 3
    while time.time() < deadline and not ctx.failures:
        force = dict(force_sets[min(rnd, len(force_sets) - 1)])
        kinds = force.pop("kinds", None) or ["single", "batch", "multi"]
        t0 = time.time()
        n_items = search_round(ctx, rnd, kinds, size, force, deadline)
        plan["rounds"].append({"round": rnd, "force": force, "kinds": kinds, "items": n_items,
                               "failures": len(ctx.failures), "s": round(time.time() - t0, 1)})
        rnd += 1
        if rnd >= len(force_sets):
            size = min(size + 3, 12)
    _fold_cells(ctx)
    plan["wall_s_at_end"] = round(time.time() - _T0, 1)
    print(f"C16 search: broken theorems {plan['theorems']} about {plan['functions'][:4]}; new branch atoms {plan['new_atoms']}; "
          f"generated != model in {len(reach)} reachable configuration(s) "
          f"{[(d['policy'], 'eager' if d['eager'] else 'lazy', 'fast' if d['fast'] else 'exact') for d in reach][:6]}; "
          f"history first: {plan['history_first']}; {len(plan['rounds'])} round(s), "
          f"{sum(r['items'] for r in plan['rounds'])} item(s), {len(ctx.failures)} failure(s), "
          f"t={plan['wall_s_at_end']}s"[:900])


def search_round(ctx, rnd, kinds, n_models, force, deadline):
    """One bounded round: a few small models of `kinds`, a few patterns each, predictions only, cells per `force`."""
    work, lines = [], []
    for j in range(n_models):
        if time.time() > deadline:
            break
        kind = kinds[j % len(kinds)]
        idx = 1000 * (rnd + 1) + j
        model, lik, tx, ty, desc, test_x, rng = build_model(ctx, kind, idx, False, label="search")
        P = dense(model, lik, tx, ty, desc, test_x)
        pats = model_patterns(rng, kind, P, ty.numel(), True)
        items = [it for it in (make_item(ctx, kind, idx, pat, desc, P) for pat in pats) if it is not None]
        valid = [it["pat"] for it in items]
        items = [it for it in items if not it["obs_full"].all()]
        rng.shuffle(items)
        for item in items[:3]:
            item["label"] = "search"
            lines += item_lines(item)
            runs = make_runs(rng, SEQS_THOROUGH, True, force)
            item["real"] = run_real(ctx, model, lik, tx, ty, desc, test_x, item["obs_full"], item["union"], runs,
                                    valid, extras=False)
            work.append(item)
            if item is items[0]:
                d = derived_fantasy(ctx, model, lik, tx, ty, desc, test_x, item, rng.randrange(1 << 30), True)
                if d is not None:
                    lines += item_lines(d)
                    work.append(d)
    if not work:
        return 0
    replies = drive(ctx, lines, 4)
    for item in work:
        compare(ctx, item, replies)
    ctx.count("search-items", len(work))
    return len(work)


# ------------------------------------------------------------------ replay

def replay(ctx, payload):
    import torch
    torch.set_num_threads(2)
    case = payload.get("case", payload)
    os.environ["VERIF_SEED"] = str(payload.get("seed", C.seed()))
    thorough = payload.get("tier") == "thorough"
    label = case.get("label") or "model"
    model, lik, tx, ty, desc, test_x, rng = build_model(ctx, case["kind"], case["idx"], thorough, label=label)
    P = dense(model, lik, tx, ty, desc, test_x)
    if case.get("derived"):
        src = make_item(ctx, case["kind"], case["idx"], case["derived"]["source_pattern"], desc, P)
        if src is None:
            return True
        item = derived_fantasy(ctx, model, lik, tx, ty, desc, test_x, src, case["derived"]["sel"],
                               case["derived"].get("quick", True))
        if item is None:
            return True
        replies = drive(ctx, item_lines(item))
        compare(ctx, item, replies)
        for f in ctx.failures[:5]:
            print("replay:", f["key"], f["what"][:300])
        return not ctx.failures and not ctx.broken
    item = make_item(ctx, case["kind"], case["idx"], case["pattern"], desc, P)
    if item is None:
        return True
    if case.get("label"):
        item["label"] = case["label"]
    if "run" in case:
        runs = [dict(case["run"])]
    else:
        seqs = [tuple(case["sequence"])] if "sequence" in case else SEQS_THOROUGH
        runs = [{"seq": list(s), "fast": f, "entry": "fresh",
                 "cells": [{"policy": p, "fast": f, "eager": "default"} for p in s]}
                for s in seqs for f in ([case["fast"]] if "fast" in case else [False, True])]
    item["real"] = run_real(ctx, model, lik, tx, ty, desc, test_x, item["obs_full"], item["union"], runs, [])
    replies = drive(ctx, item_lines(item))
    compare(ctx, item, replies)
    for f in ctx.failures[:5]:
        print("replay:", f["key"], f["what"][:300])
    return not ctx.failures and not ctx.broken

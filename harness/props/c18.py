"""C18 — persistence round trips (state_dict -> fresh model, pickle, deepcopy) reproduce the model exactly.

Tie:  translator G2p (`harness/translate/g2_persistence.py` -> `Gen/Persistence.lean`: class table audited by
`decide` theorems in Props/C18.lean)  AND  correspondence:

 (spec oracle, no model involved)  for every model family and every save point of a train/eval/predict history:
   state_dict -> torch.save/load -> load_state_dict into a FRESHLY constructed model of the same architecture whose
   parameters, bounds, prior parameters, random features … were initialised DIFFERENTLY; pickle; deepcopy.  The
   restored model must give the same prior / posterior / predictive / objective as the original, must be independent
   of it (no shared parameters/modules), must keep the internal aliasing, and every non-persisted `__dict__` entry
   that changed during the history must be carried, or be an audited cache/scratch entry.  Loading into a model that
   has already predicted must not leave the old caches in effect.
 (used-under phase)  the original's history runs inside a NON-DEFAULT instance of a global setting that the family
   consults (every setting read anywhere in the package, found by a spy on the settings classes; also: in float32),
   the environment is left, the mode is toggled (documented cache invalidation) and the object must then behave like a
   fresh model that loaded its state_dict and never saw the environment.
 (shared-argument phase)  two models are constructed from the SAME argument tensor objects (`V.arg` pool; families with
   non-default constructor flags such as learn_inducing_locations=False and tensor-valued bounds / prior parameters);
   loading a check-point into one and training it must move neither the other one nor the caller's tensors.
 (read sets)  a `__getattribute__` spy records every `self.<attr>` load executed by package methods on real instances:
   it must be listed in the static read table that theorem `reads_classified` is about.
 (model correspondence)  the Lean driver flattens / loads / copies the same module trees: key lists (exact order),
   which tensor sits under which key after a load, and which caches are alive afterwards are compared exactly.
"""
import copy
import inspect
import io
import os
import pickle
import re
import sys
import traceback
import warnings

from lib import common as C

ID = "C18"
PROP_MODULES = ["GPVerif.Props.C18"]
BUILD_TARGETS = ["GPVerif.Props.C18", "GPVerif.Gen.Persistence"]
RULE = ("model families (exact GP x kernels x likelihoods x priors/constraints, SGPR, KISS-GP, RFF, spectral mixture, "
        "multitask, variational x strategies x distributions, deep GP, model lists) x save points after prefixes of a "
        "train/eval/predict history x {state_dict->fresh model with different initialisation, pickle, deepcopy}; "
        "distinct = (family, history prefix, mechanism); non-trivial = the restored object differs from a plain "
        "fresh construction (parameters were changed by the history or by the different initialisation); "
        "+ USED-UNDER phase: (global setting consulted by the family | float32) x families that consult it — the history "
        "runs inside a non-default instance of the setting, everything is compared after leaving it; "
        "+ SHARED-ARGUMENT phase: every family, two models constructed from the same argument tensor objects, a "
        "check-point loaded into / training of one must move neither the other nor the caller's tensors; "
        "+ dynamic self-attribute reads (__getattribute__ spy) must lie inside the static read table")
EXHAUSTIVE = False
TRUSTED = ["translator harness/translate/g2_persistence.py (Python ast -> class table)",
           "modelled not verified: torch nn.Module.state_dict/load_state_dict, pickle, copy.deepcopy (Persist.Tree)",
           "harness/props/c18.py observation functions (prior / posterior / predictive / objective)"]
ASSUMPTIONS = ["training data, fixed observation noise and other constructor arguments are supplied again when the "
               "fresh model is constructed (they are not part of a state_dict by design)",
               "the mode (train/eval) is re-established by the caller after load_state_dict (not part of a state_dict)",
               "optimizer state is outside the property",
               "persistence_completeness_partial: that methods read only persisted / constructor-determined / audited "
               "state is PROVED for `self.<attr>` loads of the regenerated read table (reads_classified) and tied to the "
               "implementation by a __getattribute__ spy (dynamic reads must be in the table); state reachable otherwise "
               "(helper objects, process globals other than gpytorch.settings) is ENUMERATED over the families, not proved",
               "caches computed inside a non-default settings environment are legitimately kept until the documented "
               "invalidation points (train()/eval(), load_state_dict): the used-under phase toggles the mode after leaving "
               "the environment (C03 exclusion)",
               "constructor-time reads of global settings (ctorSettingsSnapshots: FixedGaussianNoise floor, default number "
               "of quadrature nodes, LMCVariationalStrategy.jitter_val) count as constructor arguments: models are "
               "constructed under default settings"]

GEN = os.path.join(C.LEAN_DIR, "GPVerif", "Gen", "Persistence.lean")
PROPS = os.path.join(C.LEAN_DIR, "GPVerif", "Props", "C18.lean")
_state = {}

TORCH_INTERNAL = {"_parameters", "_buffers", "_modules", "_non_persistent_buffers_set", "_backward_pre_hooks",
                  "_backward_hooks", "_is_full_backward_hook", "_forward_hooks", "_forward_hooks_with_kwargs",
                  "_forward_hooks_always_called", "_forward_pre_hooks", "_forward_pre_hooks_with_kwargs",
                  "_state_dict_hooks", "_state_dict_pre_hooks", "_load_state_dict_pre_hooks",
                  "_load_state_dict_post_hooks", "_compiled_call_impl", "_forward_pre_hooks_always_called"}
# attributes that the dynamic diff accepts although no `self.x = …` write outside __init__ exists for them
# (in-place mutation of a container created in __init__): reason per entry, printed in the evidence
DYNAMIC_ALLOW = {
    ("Module", "_added_loss_terms"): "dict filled by every training-mode forward (update_added_loss_term) before the "
                                     "objective reads it; never read in eval mode",
    ("_DeepGPVariationalStrategy", "_sub_variational_strategies_memo"): "list of the layers' strategies, derived from "
                                                                        "the module tree on first use",
}
# state_dict only: the mode is not state (re-established by train()/eval()); reported for pickle/deepcopy
MODE_ATTRS = {"training"}


def generate(ctx):
    sys.path.insert(0, os.path.join(C.VERIF, "harness"))
    from translate import g2_persistence
    tr, changed = g2_persistence.generate(C.REPO, GEN)
    _state["tr"] = tr
    _state["table"] = tr.table()
    ctx.notes["gen_changed"] = changed
    ctx.notes["module_classes_translated"] = len(_state["table"])


def _table():
    if "table" not in _state:
        sys.path.insert(0, os.path.join(C.VERIF, "harness"))
        from translate import g2_persistence
        try:
            tr = g2_persistence.Translator(C.REPO).run()
            tr.emit()
            _state["tr"], _state["table"] = tr, tr.table()
        except g2_persistence.TranslateError:
            # broken tie: the spec oracle below still runs (without class table: owners are resolved by class name)
            _state["table"] = {}
    return _state["table"]


def _allow_list():
    """(class, attr) -> (tag, guard) parsed from the Lean allow-list (single source of truth)."""
    if "allow" not in _state:
        src = open(PROPS).read()
        res = {}
        for m in re.finditer(r"⟨cid_(\w+),\s*aid_(\w+),\s*\.(\w+),\s*\.(\w+),", src):
            res[(m.group(1), "*" if m.group(2) == "STAR" else m.group(2))] = (m.group(3), m.group(4))
        _state["allow"] = res
    return _state["allow"]


# ====================================================================================================
# real-side helpers
# ====================================================================================================

def _import():
    import torch
    import gpytorch
    torch.set_num_threads(2)
    torch.set_default_dtype(torch.float64)
    warnings.simplefilter("ignore")
    return torch, gpytorch


def _class_index():
    """(relative file, class name) -> table name"""
    if "cindex" not in _state:
        _state["cindex"] = {(d["file"], d["pyname"]): n for n, d in _table().items()}
    return _state["cindex"]


_relcache = {}


def _table_name(cls):
    """Table entry of a Python class (None if it is not a class of the package)."""
    if cls in _relcache:
        return _relcache[cls]
    res = None
    try:
        f = inspect.getsourcefile(cls)
    except TypeError:
        f = None
    if f:
        root = os.path.realpath(C.REPO)
        f = os.path.realpath(f)
        if f.startswith(root + os.sep):
            res = _class_index().get((os.path.relpath(f, root), cls.__name__))
    _relcache[cls] = res
    return res


def _nearest(cls):
    for c in cls.__mro__:
        n = _table_name(c)
        if n is not None:
            return n
    return None


def _match(pat, name):
    from translate.g2_persistence import _match as m
    return m(pat, name)


def _owner_of_attr(mod, attr):
    """(ClassName, attr) of the class in the MRO whose methods write `attr` outside __init__, else the exact type."""
    tab = _table()
    for c in type(mod).__mro__:
        n = _table_name(c)
        if n is not None and any(_match(a, attr) or a == attr for a in tab[n]["mut_attrs"] if a != "*"):
            return n
    for c in type(mod).__mro__:        # no table (translator broke): by class name against the allow-list
        if (c.__name__, attr) in _allow_list():
            return c.__name__
    return type(mod).__name__


def _base_owner(mod, attr):
    """The base-most class of the MRO whose methods write `attr` (e.g. `_VariationalStrategy` for `_memoize_cache`)."""
    tab = _table()
    res = type(mod).__name__
    for c in type(mod).__mro__:
        n = _table_name(c)
        if n is not None and attr in tab[n]["mut_attrs"]:
            res = n
    return res


def _tensor_key(t):
    import torch
    t = t.detach()
    if t.is_sparse:
        t = t.to_dense()
    return ("T", tuple(t.shape), str(t.dtype), t.cpu().contiguous().numpy().tobytes() if t.numel() < 4096 else
            float(t.double().sum()))


def _canon(v, root_paths, depth=0):
    """Canonical, comparable description of an attribute value."""
    import torch
    if isinstance(v, torch.nn.Module):
        return ("module", type(v).__name__, root_paths.get(id(v), "<outside>"))
    if isinstance(v, torch.Tensor):
        return _tensor_key(v)
    if isinstance(v, (int, float, str, bool, type(None), torch.dtype, torch.device)):
        return v if not isinstance(v, float) or v == v else "nan"
    if isinstance(v, torch.Size):
        return ("size",) + tuple(v)
    if depth > 3:
        return ("deep", type(v).__name__)
    if isinstance(v, (list, tuple)):
        return (type(v).__name__,) + tuple(_canon(x, root_paths, depth + 1) for x in v)
    if isinstance(v, (set, frozenset)):
        return ("set",) + tuple(sorted(repr(_canon(x, root_paths, depth + 1)) for x in v))
    if isinstance(v, dict):
        return ("dict",) + tuple(sorted(((repr(k) if not isinstance(k, tuple) else repr(k[0])),
                                         repr(_canon(x, root_paths, depth + 1))) for k, x in v.items()))
    if callable(v) and hasattr(v, "__qualname__"):
        return ("fn", getattr(v, "__module__", ""), v.__qualname__)
    if hasattr(v, "func") and hasattr(v, "args"):   # functools.partial
        return ("partial", _canon(v.func, root_paths, depth + 1))
    # opaque objects (prediction strategies, added loss terms, distributions, linear operators): presence + class
    return ("obj", type(v).__name__)


def _module_paths(top):
    """id(module) -> first path; list of (path, module) without duplicates removed (as state_dict walks them)."""
    first, allp = {}, []
    for p, m in top.named_modules(remove_duplicate=False):
        allp.append((p, m))
        first.setdefault(id(m), p)
    return first, allp


def _attr_snapshot(top):
    """path -> {attr: canonical value} for every distinct module below `top` (plain attributes only)."""
    first, allp = _module_paths(top)
    snap, seen = {}, set()
    for p, m in allp:
        if id(m) in seen:
            continue
        seen.add(id(m))
        d = {}
        for k, v in m.__dict__.items():
            if k in TORCH_INTERNAL:
                continue
            d[k] = _canon(v, first)
        snap[p] = (m, d)
    return snap


def _aliasing(top):
    """partition of module paths and of tensor keys by object identity"""
    mods, tens = {}, {}
    for p, m in top.named_modules(remove_duplicate=False):
        mods.setdefault(id(m), []).append(p)
    for p, t in list(top.named_parameters(remove_duplicate=False)) + list(top.named_buffers(remove_duplicate=False)):
        tens.setdefault(id(t), []).append(p)
    return (sorted(tuple(sorted(v)) for v in mods.values() if len(v) > 1),
            sorted(tuple(sorted(v)) for v in tens.values() if len(v) > 1))


def _dist_tensors(d, name, out):
    """Flatten whatever a model / likelihood call returned into named float tensors."""
    import torch
    import gpytorch
    if isinstance(d, (list, tuple)):
        for i, x in enumerate(d):
            _dist_tensors(x, f"{name}[{i}]", out)
        return
    if isinstance(d, torch.Tensor):
        out[name] = d.detach().double().reshape(-1)
        return
    if isinstance(d, gpytorch.distributions.MultivariateNormal):
        out[name + ".mean"] = d.mean.detach().double().reshape(-1)
        out[name + ".cov"] = d.lazy_covariance_matrix.to_dense().detach().double().reshape(-1)
        return
    for attr in ("mean", "probs", "variance", "concentration1", "concentration0", "scale", "df"):
        try:
            v = getattr(d, attr)
        except Exception:
            continue
        if isinstance(v, torch.Tensor):
            out[f"{name}.{attr}"] = v.detach().double().reshape(-1)
    if not any(k.startswith(name + ".") for k in out):
        raise RuntimeError(f"cannot observe {type(d).__name__}")


# ====================================================================================================
# model families
# ====================================================================================================

class V:
    """Construction variant: i = 0 the original, i = 1 the freshly constructed target of load_state_dict (different
    random initialisation, bounds, prior parameters — everything that is supposed to travel in the state dict)."""

    def __init__(self, i, seed, pool=None):
        self.i, self.seed, self.pool = i, seed, pool

    def arg(self, key, make):
        """A tensor (or tuple of tensors) that the user script passes to constructors.  Normally `make()`; with a `pool`
        (the SHARED-ARGUMENT phase) the script creates each argument once and passes the SAME object to every model it
        builds — as `A = Model(Z); B = Model(Z)` does."""
        if self.pool is None:
            return make()
        if key not in self.pool:
            self.pool[key] = make()
        return self.pool[key]

    def pick(self, a, b):
        return a if self.i == 0 else b

    def torch_seed(self, salt=0):
        return (self.seed * 7919 + self.i * 104729 + salt) % (2 ** 31 - 1)


class Bundle:
    def __init__(self, top, model, likelihood, X, y, Xs, kind, extra=None):
        self.top, self.model, self.likelihood = top, model, likelihood
        self.X, self.y, self.Xs, self.kind = X, y, Xs, kind
        self.extra = extra or {}

    def rebind(self, top):
        """The same data around a restored `top`."""
        model, lik = _parts(top, self.kind)
        return Bundle(top, model, lik, self.X, self.y, self.Xs, self.kind, self.extra)


def _parts(top, kind):
    if kind == "deep":
        return top.base_mll.model if hasattr(top, "base_mll") else top.model, \
            top.base_mll.likelihood if hasattr(top, "base_mll") else top.likelihood
    return top.model, top.likelihood


def _define_models():
    """User-side model classes (module level, so that pickle finds them)."""
    torch, gpytorch = _import()
    g = globals()
    if "ExactModel" in g:
        return

    class ExactModel(gpytorch.models.ExactGP):
        def __init__(self, X, y, likelihood, mean, covar, multitask=False, interleaved=True):
            super().__init__(X, y, likelihood)
            self.mean_module = mean
            self.covar_module = covar
            self.multitask = multitask
            self.interleaved = interleaved

        def forward(self, *xs):
            x = xs[0]
            m, k = self.mean_module(x), self.covar_module(*xs) if len(xs) > 1 and self.multitask == "hadamard" \
                else self.covar_module(x)
            if self.multitask is True:
                return gpytorch.distributions.MultitaskMultivariateNormal(m, k, interleaved=self.interleaved)
            return gpytorch.distributions.MultivariateNormal(m, k)

    class HadamardModel(gpytorch.models.ExactGP):
        def __init__(self, X, idx, y, likelihood, mean, covar, task_covar):
            super().__init__((X, idx), y, likelihood)
            self.mean_module, self.covar_module, self.task_covar_module = mean, covar, task_covar

        def forward(self, x, i):
            return gpytorch.distributions.MultivariateNormal(self.mean_module(x),
                                                             self.covar_module(x).mul(self.task_covar_module(i)))

    class ApproxModel(gpytorch.models.ApproximateGP):
        def __init__(self, make_strategy, mean, covar):
            super().__init__(make_strategy(self))
            self.mean_module = mean
            self.covar_module = covar

        def forward(self, x):
            return gpytorch.distributions.MultivariateNormal(self.mean_module(x), self.covar_module(x))

    class DeepLayer(gpytorch.models.deep_gps.DeepGPLayer):
        def __init__(self, input_dims, output_dims, Z, seed_shift=0.0):
            batch = torch.Size([]) if output_dims is None else torch.Size([output_dims])
            m = Z.shape[-2]
            Zb = Z if output_dims is None else Z.unsqueeze(0).repeat(output_dims, 1, 1)
            vd = gpytorch.variational.CholeskyVariationalDistribution(m, batch_shape=batch)
            vs = gpytorch.variational.VariationalStrategy(self, Zb, vd, learn_inducing_locations=True)
            super().__init__(vs, input_dims, output_dims)
            self.mean_module = gpytorch.means.ConstantMean(batch_shape=batch)
            self.covar_module = gpytorch.kernels.ScaleKernel(
                gpytorch.kernels.RBFKernel(batch_shape=batch, ard_num_dims=input_dims), batch_shape=batch)

        def forward(self, x):
            return gpytorch.distributions.MultivariateNormal(self.mean_module(x), self.covar_module(x))

    class DeepModel(gpytorch.models.deep_gps.DeepGP):
        def __init__(self, Z1, Z2):
            super().__init__()
            self.hidden = DeepLayer(Z1.shape[-1], 2, Z1)
            self.last = DeepLayer(2, None, Z2)
            self.likelihood = gpytorch.likelihoods.GaussianLikelihood()

        def forward(self, x):
            return self.last(self.hidden(x))

    class DSPPLayerM(gpytorch.models.deep_gps.dspp.DSPPLayer):
        def __init__(self, input_dims, output_dims, Z, Q=3):
            batch = torch.Size([]) if output_dims is None else torch.Size([output_dims])
            m = Z.shape[-2]
            Zb = Z if output_dims is None else Z.unsqueeze(0).repeat(output_dims, 1, 1)
            vd = gpytorch.variational.MeanFieldVariationalDistribution(m, batch_shape=batch)
            vs = gpytorch.variational.VariationalStrategy(self, Zb, vd, learn_inducing_locations=True)
            super().__init__(vs, input_dims, output_dims, Q)
            self.mean_module = gpytorch.means.ConstantMean(batch_shape=batch)
            self.covar_module = gpytorch.kernels.ScaleKernel(
                gpytorch.kernels.MaternKernel(batch_shape=batch, ard_num_dims=input_dims), batch_shape=batch)

        def forward(self, x, **kwargs):
            return gpytorch.distributions.MultivariateNormal(self.mean_module(x), self.covar_module(x))

    class DSPPModel(gpytorch.models.deep_gps.dspp.DSPP):
        def __init__(self, Z1, Z2, Q=3):
            super().__init__(Q)
            self.hidden = DSPPLayerM(Z1.shape[-1], 2, Z1, Q)
            self.last = DSPPLayerM(2, None, Z2, Q)
            self.likelihood = gpytorch.likelihoods.GaussianLikelihood()

        def forward(self, x, **kwargs):
            return self.last(self.hidden(x, **kwargs), expand_for_quadgrid=False, **kwargs)

    class FeatureNet(torch.nn.Module):
        """A plain torch module inside a gpytorch model (deep kernel)."""

        def __init__(self, d):
            super().__init__()
            self.lin = torch.nn.Linear(d, 2)

        def forward(self, x):
            return torch.tanh(self.lin(x))

    class DKLModel(gpytorch.models.ExactGP):
        def __init__(self, X, y, likelihood, covar):
            super().__init__(X, y, likelihood)
            self.feature_extractor = FeatureNet(X.shape[-1])
            self.mean_module = gpytorch.means.ConstantMean()
            self.covar_module = covar

        def forward(self, x):
            z = self.feature_extractor(x)
            return gpytorch.distributions.MultivariateNormal(self.mean_module(z), self.covar_module(z))

    for c in (ExactModel, HadamardModel, ApproxModel, DeepLayer, DeepModel, DSPPLayerM, DSPPModel, FeatureNet, DKLModel):
        c.__module__ = __name__
        c.__qualname__ = c.__name__
        g[c.__name__] = c


def _d(v, **kw):
    """the data set of a family, as an argument of the user script (see `V.arg`)"""
    return v.arg(("data",) + tuple(sorted(kw.items())), lambda: _data(v.seed, **kw))


def _data(seed, n=10, d=2, ns=4, tasks=None):
    torch, _ = _import()
    gen = torch.Generator().manual_seed(1000 + seed)
    X = torch.rand(n, d, generator=gen)
    Xs = torch.rand(ns, d, generator=gen)
    f = torch.sin(3 * X[:, 0]) + X[:, 1] ** 2
    y = f + 0.05 * torch.randn(n, generator=gen)
    if tasks:
        y = torch.stack([y + 0.3 * t * torch.cos(2 * X[:, 0]) for t in range(tasks)], -1)
    return X, y, Xs


FAMILIES = {}      # name -> (builder, quick?)


def family(name, quick=False, **meta):
    def deco(fn):
        FAMILIES[name] = (fn, quick, meta)
        return fn
    return deco


def _exact(v, mean, covar, lik=None, mll="exact", **kw):
    torch, gpytorch = _import()
    _define_models()
    X, y, Xs = kw.pop("data", None) or _d(v)
    lik = lik or gpytorch.likelihoods.GaussianLikelihood(
        noise_constraint=gpytorch.constraints.GreaterThan(v.pick(1e-3, 2e-2)))
    model = ExactModel(X, y, lik, mean, covar, **kw)   # noqa: F821
    if mll == "loo":
        top = gpytorch.mlls.LeaveOneOutPseudoLikelihood(lik, model)
    else:
        top = gpytorch.mlls.ExactMarginalLogLikelihood(lik, model)
    return Bundle(top, model, lik, X, y, Xs, "exact")


def _kernel_zoo():
    """name -> (constructor taking the variant, quick?)  — single kernels used as ScaleKernel(base) in an exact GP."""
    torch, gpytorch = _import()
    K, P, Cn = gpytorch.kernels, gpytorch.priors, gpytorch.constraints
    return {
        "rbf_ard_prior": lambda v: K.RBFKernel(ard_num_dims=2, lengthscale_prior=P.GammaPrior(v.pick(3.0, 2.0), v.pick(6.0, 4.0)),
                                               lengthscale_constraint=Cn.Interval(v.pick(0.01, 0.05), v.pick(10.0, 6.0))),
        "matern15_active": lambda v: K.MaternKernel(nu=1.5, active_dims=[1], lengthscale_prior=P.LogNormalPrior(v.pick(0.0, 0.4), v.pick(1.0, 0.6))),
        "matern25": lambda v: K.MaternKernel(nu=2.5, lengthscale_constraint=Cn.GreaterThan(v.pick(1e-2, 5e-2))),
        "matern05": lambda v: K.MaternKernel(nu=0.5, lengthscale_constraint=Cn.LessThan(v.pick(20.0, 9.0))),
        "rq": lambda v: K.RQKernel(alpha_constraint=Cn.Interval(v.pick(0.1, 0.2), v.pick(30.0, 20.0))),
        "periodic": lambda v: K.PeriodicKernel(period_length_prior=P.NormalPrior(v.pick(1.0, 1.5), v.pick(0.5, 0.3)),
                                               period_length_constraint=Cn.Positive()),
        # cos(pi |x-x'| / p) is positive semi-definite in one dimension only
        "cosine": lambda v: K.CosineKernel(active_dims=[0], period_length_prior=P.HalfNormalPrior(v.pick(2.0, 1.0))) * K.RBFKernel(),
        "linear": lambda v: K.LinearKernel(variance_prior=P.HalfCauchyPrior(v.pick(1.0, 2.0)),
                                           variance_constraint=Cn.GreaterThan(v.pick(1e-4, 1e-3))),
        "poly2": lambda v: K.PolynomialKernel(power=2, offset_prior=P.UniformPrior(v.pick(0.0, 0.1), v.pick(5.0, 4.0))),
        "piecewise": lambda v: K.PiecewisePolynomialKernel(q=2, ard_num_dims=2),
        "specdelta": lambda v: K.SpectralDeltaKernel(num_dims=2, num_deltas=6),
    }


# (the family definitions follow in _register_families)

def _register_families():
    if FAMILIES:
        return
    torch, gpytorch = _import()
    _define_models()
    K, L, P, Cn, M, Vv = (gpytorch.kernels, gpytorch.likelihoods, gpytorch.priors, gpytorch.constraints,
                          gpytorch.means, gpytorch.variational)
    zoo = _kernel_zoo()

    def cmean(v):
        return M.ConstantMean(constant_prior=P.NormalPrior(v.pick(0.0, 0.5), v.pick(1.0, 2.0)),
                              constant_constraint=Cn.Interval(v.pick(-5.0, -4.0), v.pick(5.0, 6.0)))

    for kname, mk in zoo.items():
        def fam(v, mk=mk):
            return _exact(v, cmean(v), K.ScaleKernel(mk(v), outputscale_prior=P.GammaPrior(v.pick(2.0, 3.0), v.pick(0.15, 0.3)),
                                                     outputscale_constraint=Cn.GreaterThan(v.pick(1e-4, 1e-3))))
        FAMILIES["exact/" + kname] = (fam, kname in ("rbf_ard_prior", "periodic"), {})

    @family("exact/sum_product", quick=True)
    def _(v):
        k = K.ScaleKernel(K.RBFKernel(active_dims=[0]) * K.MaternKernel(nu=1.5, active_dims=[1])) \
            + K.ConstantKernel(constant_prior=P.SmoothedBoxPrior(v.pick(0.01, 0.02), v.pick(4.0, 3.0), sigma=v.pick(0.01, 0.02))) \
            + K.ScaleKernel(K.LinearKernel())
        return _exact(v, M.LinearMean(2), k)

    @family("exact/prior_by_name", quick=True)
    def _(v):
        # priors registered by parameter NAME (string form of Module.register_prior) on raw parameters, by user code
        k = K.ScaleKernel(K.RBFKernel(ard_num_dims=2))
        k.register_prior("raw_outputscale_prior", P.NormalPrior(v.pick(0.0, 0.2), v.pick(1.0, 0.8)), "raw_outputscale")
        k.base_kernel.register_prior("raw_lengthscale_prior", P.NormalPrior(v.pick(0.5, 0.1), v.pick(0.6, 0.9)), "raw_lengthscale")
        mean = M.ConstantMean()
        mean.register_prior("raw_constant_prior", P.NormalPrior(v.pick(0.1, 0.0), v.pick(0.5, 0.7)), "raw_constant")
        return _exact(v, mean, k)

    @family("exact/tensor_hyperargs")
    def _(v):
        # hyper-arguments given as TENSORS (bounds, prior parameters, active_dims): the script's tensors, see `V.arg`
        T_ = lambda key, *vals: v.arg(key, lambda: torch.tensor(list(vals)) if len(vals) > 1 else torch.tensor(vals[0]))  # noqa: E731
        base = K.RBFKernel(ard_num_dims=2, active_dims=v.arg("active_dims", lambda: torch.tensor([1, 0])),
                           lengthscale_constraint=Cn.Interval(T_("ls_lb", v.pick(0.01, 0.05)), T_("ls_ub", v.pick(10.0, 6.0))),
                           lengthscale_prior=P.LogNormalPrior(T_("ls_loc", v.pick(0.0, 0.3)), T_("ls_scale", v.pick(1.0, 0.7))))
        k = K.ScaleKernel(base, outputscale_constraint=Cn.GreaterThan(T_("os_lb", v.pick(1e-4, 1e-3))),
                          outputscale_prior=P.HorseshoePrior(T_("hs_scale", v.pick(0.3, 0.5))))
        mean = M.ConstantMean(constant_prior=P.SmoothedBoxPrior(T_("sb_a", v.pick(-2.0, -3.0)), T_("sb_b", v.pick(2.0, 3.0)),
                                                                sigma=T_("sb_sigma", v.pick(0.05, 0.1))),
                              constant_constraint=Cn.Interval(T_("c_lb", v.pick(-5.0, -4.0)), T_("c_ub", v.pick(5.0, 6.0))))
        lik = L.GaussianLikelihood(noise_prior=P.GammaPrior(T_("g_conc", v.pick(1.1, 1.3)), T_("g_rate", v.pick(0.05, 0.1))),
                                   noise_constraint=Cn.GreaterThan(T_("n_lb", v.pick(1e-3, 2e-2))))
        return _exact(v, mean, k, lik=lik)

    @family("exact/zero_mean_loo")
    def _(v):
        return _exact(v, M.ZeroMean(), K.ScaleKernel(K.RBFKernel()), mll="loo")

    @family("exact/horseshoe_mvnprior")
    def _(v):
        k = K.ScaleKernel(K.RBFKernel(ard_num_dims=2, lengthscale_prior=P.MultivariateNormalPrior(
            v.arg("mvn_loc", lambda: torch.tensor([v.pick(0.5, 0.8), 0.5])),
            covariance_matrix=v.arg("mvn_cov", lambda: torch.eye(2) * v.pick(1.0, 0.5)))),
            outputscale_prior=P.HorseshoePrior(v.pick(0.1, 0.2)))
        return _exact(v, M.ConstantMean(), k)

    @family("exact/fixed_noise", quick=True)
    def _(v):
        X, y, Xs = _d(v)
        noise = v.arg("noise", lambda: 0.01 + 0.02 * torch.rand(10, generator=torch.Generator().manual_seed(5 + v.seed)))
        lik = L.FixedNoiseGaussianLikelihood(noise, learn_additional_noise=True,
                                             noise_constraint=Cn.GreaterThan(v.pick(1e-4, 1e-3)))
        b = _exact(v, M.ConstantMean(), K.ScaleKernel(K.RBFKernel()), lik=lik, data=(X, y, Xs))
        b.extra["pred_noise"] = torch.full((4,), 0.02)
        return b

    @family("exact/fixed_noise_only")
    def _(v):
        X, y, Xs = _d(v)
        noise = v.arg("noise", lambda: 0.02 + 0.02 * torch.rand(10, generator=torch.Generator().manual_seed(6 + v.seed)))
        lik = L.FixedNoiseGaussianLikelihood(noise, learn_additional_noise=False)
        b = _exact(v, M.ConstantMean(), K.ScaleKernel(K.RBFKernel()), lik=lik, data=(X, y, Xs))
        b.extra["pred_noise"] = torch.full((4,), 0.02)
        return b

    @family("exact/missing_obs_lik")
    def _(v):
        lik = L.GaussianLikelihoodWithMissingObs(noise_prior=P.GammaPrior(v.pick(1.1, 1.3), v.pick(0.05, 0.1)))
        return _exact(v, M.ConstantMean(), K.ScaleKernel(K.RBFKernel()), lik=lik)

    @family("exact/heteroskedastic")
    def _(v):
        X, y, Xs = _d(v)
        nl = L.GaussianLikelihood()
        noise_model = ExactModel(X, v.arg("noise_targets", lambda: torch.log(0.05 + 0.02 * X[:, 0])), nl,  # noqa: F821
                                 M.ConstantMean(), K.ScaleKernel(K.RBFKernel()))
        lik = L._GaussianLikelihoodBase(noise_covar=L.HeteroskedasticNoise(noise_model))
        b = _exact(v, M.ConstantMean(), K.ScaleKernel(K.RBFKernel()), lik=lik, data=(X, y, Xs))
        b.extra["no_train_objective_args"] = True
        return b

    @family("exact/dirichlet_classification")
    def _(v):
        X, y, Xs = _d(v)
        labels = v.arg("labels", lambda: (y > y.median()).long())
        lik = L.DirichletClassificationLikelihood(labels, learn_additional_noise=True, dtype=torch.float64,
                                                  alpha_epsilon=0.05)
        bs = torch.Size([2])
        model = ExactModel(X, lik.transformed_targets, lik, M.ConstantMean(batch_shape=bs),  # noqa: F821
                           K.ScaleKernel(K.RBFKernel(batch_shape=bs), batch_shape=bs))
        top = gpytorch.mlls.ExactMarginalLogLikelihood(lik, model)
        return Bundle(top, model, lik, X, lik.transformed_targets, Xs, "exact", {"sum_objective": True})

    @family("exact/arc_cylindrical")
    def _(v):
        X, y, Xs = _d(v)
        X, Xs = v.arg("data06", lambda: (X * 0.6, Xs * 0.6))          # inside the unit ball
        k = K.ScaleKernel(K.ArcKernel(K.MaternKernel(nu=2.5), angle_prior=P.GammaPrior(v.pick(0.5, 0.7), 1.0),
                                      radius_prior=P.GammaPrior(3.0, v.pick(2.0, 1.5)), ard_num_dims=2)) \
            + K.CylindricalKernel(3, K.RBFKernel(), alpha_prior=P.LogNormalPrior(v.pick(0.0, 0.2), 1.0))
        return _exact(v, M.ConstantMean(), k, data=(X, y, Xs))

    @family("exact/hamming_imq")
    def _(v):
        X, y, Xs = _d(v, d=3)
        oh = lambda Z: torch.nn.functional.one_hot((Z * 4).floor().long().clamp(0, 3), 4).double().flatten(-2)  # noqa: E731
        k = K.ScaleKernel(K.HammingIMQKernel(vocab_size=4, alpha_prior=P.GammaPrior(v.pick(2.0, 3.0), 1.0)))
        return _exact(v, M.ConstantMean(), k, data=v.arg("onehot", lambda: (oh(X), y, oh(Xs))))

    @family("exact/distributional_input")
    def _(v):
        X, y, Xs = _d(v, d=2)
        Xd, Xsd = v.arg("distr", lambda: (torch.cat([X, -2.0 + 0.1 * X], -1), torch.cat([Xs, -2.0 + 0.1 * Xs], -1)))
        return _exact(v, M.ConstantMean(), K.ScaleKernel(K.GaussianSymmetrizedKLKernel()), data=(Xd, y, Xsd))

    @family("exact/additive_structure")
    def _(v):
        k = K.ScaleKernel(K.AdditiveStructureKernel(K.RBFKernel(), num_dims=2)) \
            + K.ProductStructureKernel(K.MaternKernel(nu=1.5), num_dims=2) \
            + K.NewtonGirardAdditiveKernel(K.RBFKernel(ard_num_dims=2), num_dims=2, max_degree=2)
        return _exact(v, M.ConstantMean(), k)

    @family("exact/spectral_mixture", quick=True)
    def _(v):
        k = K.SpectralMixtureKernel(num_mixtures=2, ard_num_dims=2,
                                    mixture_scales_prior=P.GammaPrior(v.pick(2.0, 2.5), 1.0))
        b = _exact(v, M.ConstantMean(), k)
        torch.manual_seed(v.torch_seed(3))
        k.initialize_from_data(b.X, b.y)
        return b

    @family("exact/rff", quick=True)
    def _(v):
        torch.manual_seed(v.torch_seed(4))      # the random features differ between original and fresh model
        return _exact(v, M.ConstantMean(), K.ScaleKernel(K.RFFKernel(num_samples=6, num_dims=2)))

    @family("exact/rff_lazy_weights", lazy=True)
    def _(v):
        torch.manual_seed(v.torch_seed(4))
        return _exact(v, M.ConstantMean(), K.ScaleKernel(K.RFFKernel(num_samples=6)))

    @family("exact/grid_kernel")
    def _(v):
        def mk():
            g = torch.linspace(0, 1, 6)
            Xg_ = gpytorch.utils.grid.create_data_from_grid([g, g])
            return torch.stack([g, g], -1), Xg_, torch.sin(3 * Xg_[:, 0]) + Xg_[:, 1]
        grid, Xg, yg = v.arg("grid", mk)
        _, _, Xs = _d(v)
        return _exact(v, M.ConstantMean(), K.GridKernel(K.RBFKernel(), grid=grid), data=(Xg, yg, Xs))

    @family("exact/kiss_gp", quick=True)
    def _(v):
        k = K.ScaleKernel(K.GridInterpolationKernel(K.RBFKernel(), grid_size=8, num_dims=2))
        return _exact(v, M.ConstantMean(), k)

    @family("exact/kiss_gp_fixed_bounds")
    def _(v):
        k = K.GridInterpolationKernel(K.ScaleKernel(K.MaternKernel(nu=2.5)), grid_size=[8, 7],
                                      grid_bounds=[(-0.3, 1.3), (-0.3, 1.3)])
        return _exact(v, M.ConstantMean(), k)

    @family("exact/sgpr", quick=True)
    def _(v):
        X, y, Xs = _d(v)
        lik = L.GaussianLikelihood(noise_constraint=Cn.GreaterThan(v.pick(1e-3, 1e-2)))
        Z = v.arg("Z", lambda: torch.rand(4, 2, generator=torch.Generator().manual_seed(v.torch_seed(5))))
        k = K.InducingPointKernel(K.ScaleKernel(K.RBFKernel()), inducing_points=Z, likelihood=lik)
        return _exact(v, M.ConstantMean(), k, lik=lik, data=(X, y, Xs))

    @family("exact/dkl")
    def _(v):
        X, y, Xs = _d(v)
        torch.manual_seed(v.torch_seed(6))
        lik = L.GaussianLikelihood()
        model = DKLModel(X, y, lik, K.ScaleKernel(K.RBFKernel()))      # noqa: F821
        return Bundle(gpytorch.mlls.ExactMarginalLogLikelihood(lik, model), model, lik, X, y, Xs, "exact")

    # ---------------------------------------------------------------- multitask exact
    @family("multitask/kronecker", quick=True)
    def _(v):
        X, y, Xs = _d(v, tasks=2)
        lik = L.MultitaskGaussianLikelihood(num_tasks=2, rank=1, noise_prior=P.GammaPrior(v.pick(1.1, 1.2), 0.05))
        mean = M.MultitaskMean(M.ConstantMean(), num_tasks=2)
        covar = K.MultitaskKernel(K.RBFKernel(), num_tasks=2, rank=1, task_covar_prior=P.LKJCovariancePrior(
            2, v.pick(1.0, 2.0), P.SmoothedBoxPrior(0.01, v.pick(2.0, 3.0))))
        return _exact(v, mean, covar, lik=lik, data=(X, y, Xs), multitask=True)

    @family("multitask/lcm_noninterleaved")
    def _(v):
        X, y, Xs = _d(v, tasks=2)
        lik = L.MultitaskGaussianLikelihood(num_tasks=2, rank=0, has_global_noise=False)
        mean = M.MultitaskMean([M.ConstantMean(), M.LinearMean(2)], num_tasks=2)
        covar = K.LCMKernel([K.RBFKernel(), K.MaternKernel(nu=1.5)], num_tasks=2, rank=1)
        return _exact(v, mean, covar, lik=lik, data=(X, y, Xs), multitask=True)

    @family("multitask/hadamard_index")
    def _(v):
        X, y, Xs = _d(v)
        idx = v.arg("idx", lambda: (torch.arange(10) % 2).long().unsqueeze(-1))
        lik = L.GaussianLikelihood()
        tk = K.IndexKernel(num_tasks=2, rank=1, prior=P.LKJCovariancePrior(2, v.pick(1.0, 1.5), P.SmoothedBoxPrior(0.01, 3.0)),
                           var_constraint=Cn.GreaterThan(v.pick(1e-4, 1e-3)))
        model = HadamardModel(X, idx, y, lik, M.ConstantMean(), K.RBFKernel(), tk)     # noqa: F821
        top = gpytorch.mlls.ExactMarginalLogLikelihood(lik, model)
        return Bundle(top, model, lik, X, y, Xs, "exact", {"idx": idx, "idx_s": torch.tensor([[0], [1], [1], [0]])})

    for gname, (mean_c, kern_c, width) in {
        # ConstantMeanGrad / ConstantMeanGradGrad register their prior by parameter NAME (string form of register_prior)
        "rbf_grad": (lambda: M.ConstantMeanGrad(prior=P.NormalPrior(0.3, 0.7)), lambda: K.RBFKernelGrad(ard_num_dims=2), 3),
        "poly_grad": (lambda: M.LinearMeanGrad(2), lambda: K.PolynomialKernelGrad(power=2), 3),
        "matern52_grad": (lambda: M.ConstantMeanGrad(), lambda: K.Matern52KernelGrad(), 3),
        "rbf_gradgrad": (lambda: M.ConstantMeanGradGrad(prior=P.NormalPrior(0.3, 0.7)), lambda: K.RBFKernelGradGrad(), 5),
        "linear_gradgrad": (lambda: M.LinearMeanGradGrad(2), lambda: K.RBFKernelGradGrad(), 5),
    }.items():
        def fam(v, mean_c=mean_c, kern_c=kern_c, width=width):
            X, y, Xs = _d(v, n=5)
            Y = v.arg(("Y", width), lambda: torch.cat([y.unsqueeze(-1), 0.3 * torch.randn(
                5, width - 1, generator=torch.Generator().manual_seed(77 + v.seed))], -1))
            lik = L.MultitaskGaussianLikelihood(num_tasks=width)
            b = _exact(v, mean_c(), K.ScaleKernel(kern_c()), lik=lik, data=(X, Y, Xs[:2]), multitask=True)
            if width == 5:      # RBFKernelGradGrad cannot be evaluated lazily on train x test blocks (not a C18 matter)
                b.extra["eager_kernels"] = True
            return b
        FAMILIES["multitask/" + gname] = (fam, False, {})

    # ---------------------------------------------------------------- model list
    @family("modellist/independent", quick=True)
    def _(v):
        X, y, Xs = _d(v)
        ms = []
        for j in range(2):
            lik = L.GaussianLikelihood(noise_constraint=Cn.GreaterThan(v.pick(1e-3, 1e-2)))
            ms.append(ExactModel(X, v.arg(("y", j), lambda: y + j), lik, M.ConstantMean(),  # noqa: F821
                                 K.ScaleKernel(K.RBFKernel() if j else K.MaternKernel())))
        model = gpytorch.models.IndependentModelList(*ms)
        lik = L.LikelihoodList(*[m.likelihood for m in ms])
        top = gpytorch.mlls.SumMarginalLogLikelihood(lik, model)
        return Bundle(top, model, lik, X, y, Xs, "list")

    # ---------------------------------------------------------------- variational
    def approx(v, strategy, dist="cholesky", lik=None, mll="elbo", m=5, batch=None, whiten_kw=None, y_fn=None,
               mean=None, covar=None, **skw):
        X, y, Xs = _d(v)
        if y_fn:
            y = v.arg("y_fn", lambda: y_fn(y))
        bs = torch.Size([]) if batch is None else torch.Size([batch])

        def mkZ():
            Z_ = torch.rand(m, 2, generator=torch.Generator().manual_seed(v.torch_seed(7)))
            return Z_ if batch is None else Z_.unsqueeze(0).repeat(batch, 1, 1)
        Z = v.arg("Z", mkZ)
        dcls = {"cholesky": Vv.CholeskyVariationalDistribution, "meanfield": Vv.MeanFieldVariationalDistribution,
                "delta": Vv.DeltaVariationalDistribution, "natural": Vv.NaturalVariationalDistribution,
                "trilnatural": Vv.TrilNaturalVariationalDistribution}[dist]
        torch.manual_seed(v.torch_seed(8))

        def mk(model):
            return strategy(model, Z, dcls(m, batch_shape=bs), **skw)
        mean = mean or M.ConstantMean(batch_shape=bs)
        covar = covar or K.ScaleKernel(K.RBFKernel(batch_shape=bs), batch_shape=bs)
        model = ApproxModel(mk, mean, covar)           # noqa: F821
        lik = lik or L.GaussianLikelihood(noise_constraint=Cn.GreaterThan(v.pick(1e-3, 1e-2)))
        if mll == "elbo":
            top = gpytorch.mlls.VariationalELBO(lik, model, num_data=10)
        elif mll == "pll":
            top = gpytorch.mlls.PredictiveLogLikelihood(lik, model, num_data=10)
        else:
            top = gpytorch.mlls.GammaRobustVariationalELBO(lik, model, num_data=10, gamma=1.03)
        return Bundle(top, model, lik, X, y, Xs, "approx")

    def std(model, Z, vd, **kw):
        return Vv.VariationalStrategy(model, Z, vd, learn_inducing_locations=True, **kw)

    for dname in ("cholesky", "meanfield", "delta", "natural", "trilnatural"):
        def fam(v, dname=dname):
            return approx(v, std, dist=dname)
        FAMILIES["svgp/whitened_" + dname] = (fam, dname in ("cholesky", "natural"), {})

    @family("svgp/unwhitened", quick=True)
    def _(v):
        return approx(v, lambda m, Z, vd: Vv.UnwhitenedVariationalStrategy(m, Z, vd, learn_inducing_locations=True), mll="pll")

    @family("svgp/fixed_inducing_jitter")
    def _(v):
        return approx(v, lambda m, Z, vd: Vv.VariationalStrategy(m, Z, vd, learn_inducing_locations=False, jitter_val=1e-5),
                      mll="robust")

    # non-default constructor flags that change what is registered (fixed inducing locations = a buffer holding the
    # caller's tensor values; no learned extra noise; no task noise): state dict keys are the same, ownership differs
    @family("svgp/unwhitened_fixed_inducing")
    def _(v):
        return approx(v, lambda m, Z, vd: Vv.UnwhitenedVariationalStrategy(m, Z, vd, learn_inducing_locations=False))

    @family("svgp/whitened_fixed_inducing")
    def _(v):
        return approx(v, lambda m, Z, vd: Vv.VariationalStrategy(m, Z, vd, learn_inducing_locations=False), dist="meanfield")

    @family("svgp/ciq_fixed_inducing")
    def _(v):
        return approx(v, lambda m, Z, vd: Vv.CiqVariationalStrategy(m, Z, vd, learn_inducing_locations=False), dist="natural")

    @family("svgp/batch_decoupled_fixed_inducing")
    def _(v):
        return approx(v, lambda m, Z, vd: Vv.BatchDecoupledVariationalStrategy(m, Z, vd, learn_inducing_locations=False,
                                                                               mean_var_batch_dim=-1),
                      mean=M.ConstantMean(batch_shape=torch.Size([2])),
                      covar=K.ScaleKernel(K.RBFKernel(batch_shape=torch.Size([2])), batch_shape=torch.Size([2])))

    @family("svgp/ciq")
    def _(v):
        return approx(v, lambda m, Z, vd: Vv.CiqVariationalStrategy(m, Z, vd, learn_inducing_locations=True), dist="natural")

    @family("svgp/batch_decoupled")
    def _(v):
        return approx(v, lambda m, Z, vd: Vv.BatchDecoupledVariationalStrategy(m, Z, vd, mean_var_batch_dim=-1),
                      mean=M.ConstantMean(batch_shape=torch.Size([2])),
                      covar=K.ScaleKernel(K.RBFKernel(batch_shape=torch.Size([2])), batch_shape=torch.Size([2])))

    @family("svgp/orthogonally_decoupled")
    def _(v):
        def mk(m, Z, vd):
            covar_vs = Vv.VariationalStrategy(m, Z, Vv.CholeskyVariationalDistribution(5), learn_inducing_locations=True)
            Z2 = v.arg("Z2", lambda: torch.rand(4, 2, generator=torch.Generator().manual_seed(v.torch_seed(9))))
            return Vv.OrthogonallyDecoupledVariationalStrategy(covar_vs, Z2, Vv.DeltaVariationalDistribution(4))
        b = approx(v, mk)
        b.extra["no_prior"] = True      # prior=True is not supported by this strategy (it forwards to the base strategy)
        return b

    @family("svgp/grid_interpolation")
    def _(v):
        def mk(m, Z, vd):
            return Vv.GridInterpolationVariationalStrategy(m, grid_size=6, grid_bounds=[(-0.2, 1.2), (-0.2, 1.2)],
                                                           variational_distribution=Vv.CholeskyVariationalDistribution(36))
        return approx(v, mk)

    @family("svgp/additive_grid_interpolation")
    def _(v):
        def mk(m, Z, vd):
            return Vv.AdditiveGridInterpolationVariationalStrategy(
                m, grid_size=6, grid_bounds=[(-0.2, 1.2)], num_dim=2,
                variational_distribution=Vv.CholeskyVariationalDistribution(6, batch_shape=torch.Size([2])))
        b = approx(v, mk)
        b.extra["sum_objective"] = True
        return b

    @family("svgp/nn")
    def _(v):
        # the inducing points of VNNGP are data (not learned): like training inputs they are supplied again when
        # the fresh model is constructed, and the neighbour structure is derived from them by the constructor
        Zd = v.arg("Zd", lambda: torch.rand(8, 2, generator=torch.Generator().manual_seed(91 + v.seed)))

        def mk(m, Z, vd):
            return Vv.NNVariationalStrategy(m, Zd, Vv.MeanFieldVariationalDistribution(8), k=3, training_batch_size=4,
                                            compute_full_kl=True)
        return approx(v, mk, m=8)

    @family("svgp/lmc", quick=True)
    def _(v):
        def mk(m, Z, vd):
            base = Vv.VariationalStrategy(m, Z, vd, learn_inducing_locations=True)
            return Vv.LMCVariationalStrategy(base, num_tasks=3, num_latents=2, latent_dim=-1)
        b = approx(v, mk, batch=2, lik=L.MultitaskGaussianLikelihood(num_tasks=3),
                   y_fn=lambda y: torch.stack([y, -y, 0.5 * y], -1))
        return b

    @family("svgp/independent_multitask")
    def _(v):
        def mk(m, Z, vd):
            base = Vv.VariationalStrategy(m, Z, vd, learn_inducing_locations=True)
            return Vv.IndependentMultitaskVariationalStrategy(base, num_tasks=2)
        return approx(v, mk, batch=2, lik=L.MultitaskGaussianLikelihood(num_tasks=2),
                      y_fn=lambda y: torch.stack([y, -y], -1))

    @family("svgp/multitask_alias")
    def _(v):
        def mk(m, Z, vd):
            base = Vv.VariationalStrategy(m, Z, vd, learn_inducing_locations=True)
            return Vv.MultitaskVariationalStrategy(base, num_tasks=2)
        return approx(v, mk, batch=2, lik=L.MultitaskGaussianLikelihood(num_tasks=2),
                      y_fn=lambda y: torch.stack([y, -y], -1))

    for lname, (mk_lik, y_fn) in {
        "bernoulli": (lambda v: L.BernoulliLikelihood(), lambda y: (y > y.median()).double()),
        "beta": (lambda v: L.BetaLikelihood(scale_prior=P.GammaPrior(v.pick(2.0, 3.0), 1.0)), lambda y: torch.sigmoid(y)),
        "laplace": (lambda v: L.LaplaceLikelihood(noise_constraint=Cn.GreaterThan(v.pick(1e-3, 1e-2))), None),
        "student_t": (lambda v: L.StudentTLikelihood(deg_free_constraint=Cn.GreaterThan(v.pick(2.0, 2.5))), None),
    }.items():
        def fam(v, mk_lik=mk_lik, y_fn=y_fn):
            return approx(v, std, lik=mk_lik(v), y_fn=y_fn)
        FAMILIES["svgp/lik_" + lname] = (fam, lname == "bernoulli", {})

    @family("svgp/lik_softmax")
    def _(v):
        def mk(m, Z, vd):
            base = Vv.VariationalStrategy(m, Z, vd, learn_inducing_locations=True)
            return Vv.IndependentMultitaskVariationalStrategy(base, num_tasks=2)
        torch.manual_seed(v.torch_seed(10))
        lik = L.SoftmaxLikelihood(num_features=2, num_classes=3, mixing_weights_prior=P.NormalPrior(0.0, v.pick(1.0, 2.0)))
        return approx(v, mk, batch=2, lik=lik, y_fn=lambda y: (y > y.median()).long() + (y > y.max() - 0.1).long())

    @family("deep/two_layer")
    def _(v):
        X, y, Xs = _d(v)
        g = torch.Generator().manual_seed(v.torch_seed(11))
        torch.manual_seed(v.torch_seed(12))
        Z1, Z2 = v.arg("Zs", lambda: (torch.rand(4, 2, generator=g), torch.rand(4, 2, generator=g)))
        model = DeepModel(Z1, Z2)    # noqa: F821
        top = gpytorch.mlls.DeepApproximateMLL(gpytorch.mlls.VariationalELBO(model.likelihood, model, num_data=10))
        return Bundle(top, model, model.likelihood, X, y, Xs, "deep")

    @family("deep/dspp_predictive_ll")
    def _(v):
        X, y, Xs = _d(v)
        g = torch.Generator().manual_seed(v.torch_seed(11))
        torch.manual_seed(v.torch_seed(12))
        Z1, Z2 = v.arg("Zs", lambda: (torch.rand(4, 2, generator=g), torch.rand(4, 2, generator=g)))
        model = DSPPModel(Z1, Z2)    # noqa: F821
        top = gpytorch.mlls.DeepPredictiveLogLikelihood(model.likelihood, model, num_data=10, beta=0.5)
        return Bundle(top, model, model.likelihood, X, y, Xs, "deep")


SKIPPED_CLASSES = {
    "MultiDeviceKernel": "needs several CUDA devices (DataParallel scatter); not constructible on this image",
    "keops": "not a class (sub-package); pykeops is not installed",
}

# ====================================================================================================
# history, observation
# ====================================================================================================

OPS = ("setp", "step", "fwd", "eval", "predict", "predict_ng", "train", "prior")
OP_LABEL = {"setp": "set-params", "step": "train-step", "fwd": "train-forward", "eval": "eval", "train": "train",
            "predict": "eval-predict", "predict_ng": "eval-predict-nograd", "prior": "prior-predict"}


def _call_model(b, X, extra_key=None):
    if "idx" in b.extra:
        return b.model(X, b.extra["idx"] if extra_key == "train" else b.extra["idx_s"])
    if b.kind == "list":
        return b.model(*([X] * len(b.model.models)))
    return b.model(X)


def _lik_call(b, out, train):
    torch, gpytorch = _import()
    if b.kind == "list":
        return b.likelihood(*out)
    if "pred_noise" in b.extra and not train:
        return b.likelihood(out, noise=b.extra["pred_noise"])
    if isinstance(b.likelihood, gpytorch.likelihoods.likelihood._Likelihood) and \
            type(b.likelihood).__name__ in ("_GaussianLikelihoodBase",):
        return b.likelihood(out, b.X if train else b.Xs)
    return b.likelihood(out)


def _objective(b):
    torch, gpytorch = _import()
    if b.kind == "exact":
        tin = b.model.train_inputs
        out = b.model(*tin)
        if b.extra.get("no_train_objective_args"):
            val = b.top(out, b.model.train_targets, *tin)
        else:
            val = b.top(out, b.model.train_targets)
        return val.sum() if b.extra.get("sum_objective") else val
    if b.kind == "list":
        out = b.model(*b.model.train_inputs)
        return b.top(out, b.model.train_targets)
    if b.kind == "deep":
        with gpytorch.settings.num_likelihood_samples(3):
            return b.top(b.model(b.X), b.y)
    out = b.model(b.X)
    val = b.top(out, b.y)
    return val.sum() if b.extra.get("sum_objective") else val


def _settings(b):
    import contextlib
    torch, gpytorch = _import()
    if b.extra.get("eager_kernels"):
        return gpytorch.settings.lazily_evaluate_kernels(False)
    return contextlib.nullcontext()


def apply_op(b, op, opseed):
    with _settings(b):
        return _apply_op(b, op, opseed)


def _apply_op(b, op, opseed):
    torch, gpytorch = _import()
    torch.manual_seed(opseed)
    if op == "setp":
        b.top.train()       # direct parameter edits in eval mode are outside the property (C03): edit in training mode
        with torch.no_grad():
            for n, p in b.top.named_parameters():
                scale = 0.02 if "natural" in n else 0.15
                p.add_(scale * torch.randn_like(p))
    elif op == "step":
        b.top.train()
        for p in b.top.parameters():
            p.grad = None
        loss = -_objective(b)
        loss.backward()
        with torch.no_grad():
            for p in b.top.parameters():
                if p.grad is not None:
                    p.add_(-0.02 * p.grad.clamp(-5, 5))
                    p.grad = None
    elif op == "fwd":
        b.top.train()
        _objective(b)
    elif op == "eval":
        b.top.eval()
    elif op == "train":
        b.top.train()
    elif op in ("predict", "predict_ng"):
        b.top.eval()
        ctxm = torch.no_grad() if op == "predict_ng" else torch.enable_grad()
        with ctxm, gpytorch.settings.num_likelihood_samples(3):
            out = _call_model(b, b.Xs)
            tmp = {}
            _dist_tensors(out, "o", tmp)
            _dist_tensors(_lik_call(b, out, False), "l", tmp)
    elif op == "prior":
        b.top.eval()
        with torch.no_grad():
            _prior(b)
    else:
        raise ValueError(op)


def _prior(b):
    torch, gpytorch = _import()
    if b.extra.get("no_prior"):
        return None
    if b.kind in ("approx",):
        return b.model(b.Xs, prior=True)
    if b.kind == "deep":
        return None
    with gpytorch.settings.prior_mode(True):
        return _call_model(b, b.Xs)


def observe(b, obs_seed=12345):
    """name -> tensor.  Stage 'asis' uses the mode and caches the object is in; the other stages set the mode."""
    torch, gpytorch = _import()
    out = {}
    stage = "asis"
    try:
        with torch.no_grad(), gpytorch.settings.num_likelihood_samples(3), _settings(b):
            torch.manual_seed(obs_seed)
            if b.top.training:
                if b.kind in ("exact", "list"):
                    _dist_tensors(b.model(*b.model.train_inputs), "asis", out)
                else:
                    _dist_tensors(b.model(b.X), "asis", out)
            else:
                _dist_tensors(_call_model(b, b.Xs), "asis", out)
            stage = "posterior"
            b.top.eval()
            torch.manual_seed(obs_seed)
            post = _call_model(b, b.Xs)
            _dist_tensors(post, "post", out)
            stage = "predictive"
            torch.manual_seed(obs_seed)
            _dist_tensors(_lik_call(b, post, False), "pred", out)
            stage = "prior"
            torch.manual_seed(obs_seed)
            pr = _prior(b)
            if pr is not None:
                _dist_tensors(pr, "prior", out)
            stage = "objective"
            b.top.train()
            torch.manual_seed(obs_seed)
            _dist_tensors(_objective(b), "objective", out)
            if b.kind == "approx":
                stage = "kl"
                torch.manual_seed(obs_seed)
                b.model(b.X)
                _dist_tensors(b.model.variational_strategy.kl_divergence(), "kl", out)
    except Exception as e:
        return out, (stage, f"{type(e).__name__}: {str(e)[:300]}", traceback.format_exc()[-1500:])
    return out, None


def _close(a, b, rtol=1e-9):
    import torch
    if a.shape != b.shape:
        return False, float("inf"), False
    if a.numel() == 0:
        return True, 0.0, True
    nan_a, nan_b = torch.isnan(a), torch.isnan(b)
    if not torch.equal(nan_a, nan_b):
        return False, float("nan"), False
    a2, b2 = a[~nan_a], b[~nan_b]
    bit = bool(torch.equal(a2, b2))
    err = float((a2 - b2).abs().max()) if a2.numel() else 0.0
    scale = 1.0 + float(a2.abs().max()) if a2.numel() else 1.0
    return err <= rtol * scale, err, bit


def canonical_history(tier):
    return ["setp", "step", "eval", "predict", "train", "step", "eval", "predict_ng", "predict"]


def random_history(rng, n):
    h = []
    for _ in range(n):
        h.append(rng.choice(OPS))
    return h


def build_original(fname, seed, ops, pool=None, env=None):
    """Construct the original (under default settings) and run the history — inside the settings environment `env`
    (a factory of context managers) when one is given: the object is first USED under non-default global settings."""
    import contextlib
    torch, gpytorch = _import()
    _register_families()
    fn = FAMILIES[fname][0]
    b = fn(V(0, seed, pool))
    b.top.train()
    t0 = _attr_snapshot(b.top)
    t0 = {p: d for p, (m, d) in t0.items()}
    if env is not None and getattr(env, "dtype", None) is not None:
        _history_in_dtype(b, ops, seed, env.dtype)
        return b, t0
    with contextlib.ExitStack() as st:
        for cm in (env() if env is not None else []):
            st.enter_context(cm)
        for i, op in enumerate(ops):
            apply_op(b, op, seed * 1000 + i)
    return b, t0


class DtypeEnv:
    """`environment` of the used-under phase that is not a setting: the object is first USED in another floating
    point type (model and data converted, torch's default dtype switched) and converted back afterwards."""

    def __init__(self, dtype):
        self.dtype = dtype

    def __call__(self):
        return []


def _history_in_dtype(b, ops, seed, dtype):
    torch, gpytorch = _import()

    def cast(t):
        return t.to(dtype) if isinstance(t, torch.Tensor) and t.is_floating_point() else t
    # `data` attributes (training data, fixed noise, quadrature nodes: constructor-supplied tensors that `_apply` moves)
    # are rounded by the conversion like everything else, but no state dict carries them: the caller supplies them
    # again (ASSUMPTIONS), so the originals are put back after the round trip
    allow = _allow_list()
    data_attrs = [(m, a, v) for m in b.top.modules() for a, v in list(m.__dict__.items())
                  if (allow.get((_owner_of_attr(m, a), a)) or ("",))[0] == "data"]
    torch.set_default_dtype(dtype)
    try:
        b.top.to(dtype)
        b2 = Bundle(b.top, b.model, b.likelihood, cast(b.X), cast(b.y), cast(b.Xs), b.kind,
                    {k: cast(x) for k, x in b.extra.items()})
        for i, op in enumerate(ops):
            apply_op(b2, op, seed * 1000 + i)
    finally:
        torch.set_default_dtype(torch.float64)
        b.top.to(torch.float64)
        for m, a, v in data_attrs:
            m.__dict__[a] = v


def build_fresh(fname, seed, salt=0, variant=1):
    variant = 0 if variant == "0p" else variant
    """A freshly constructed model with perturbed parameters; variant 1 = constructed DIFFERENTLY (other bounds, prior
    parameters, inducing points …), variant 0 = the original's constructor arguments supplied again."""
    torch, gpytorch = _import()
    fn = FAMILIES[fname][0]
    f = fn(V(variant, seed))
    f.top.train()
    torch.manual_seed(seed * 31 + 17 + salt)
    with torch.no_grad():
        for n, p in f.top.named_parameters():
            p.add_((0.02 if "natural" in n else 0.3) * torch.randn_like(p))
    return f


# ====================================================================================================
# mechanisms
# ====================================================================================================

MECHS = ("state_dict", "pickle", "deepcopy")


def restore(b, fname, seed, mech, variant=1):
    """-> (restored bundle, fresh-before-load bundle or None).  Raises on failure of the mechanism itself."""
    torch, gpytorch = _import()
    if mech == "state_dict":
        buf = io.BytesIO()
        torch.save(b.top.state_dict(), buf)
        buf.seek(0)
        sd = torch.load(buf)
        f = build_fresh(fname, seed, variant=variant)
        f.top.load_state_dict(sd)
        f.top.train(b.top.training)
        return f
    if mech == "pickle":
        return b.rebind(pickle.loads(pickle.dumps(b.top)))
    if mech == "deepcopy":
        return b.rebind(copy.deepcopy(b.top))
    raise ValueError(mech)


# ====================================================================================================
# the Lean side: tree serialisation
# ====================================================================================================

def _cache_names(mod):
    n = _nearest(type(mod))
    return [] if n is None else [c for c in _table()[n]["clears"]]


def _populated(mod, name):
    v = mod.__dict__.get(name, None)
    if v is None:
        return False
    if isinstance(v, dict) and not v:
        return False
    return True


def tree_tokens(mod, payload):
    """Serialise the real module tree for the driver.  payload: id(tensor) -> int."""
    n = _nearest(type(mod))
    cid = -1 if n is None else _table()[n]["id"]
    toks = ["M", str(cid)]
    ps = [(k, p) for k, p in mod._parameters.items() if p is not None]
    toks.append(str(len(ps)))
    for k, p in ps:
        toks += [k, str(payload(p))]
    bs = [(k, t) for k, t in mod._buffers.items() if t is not None]
    toks.append(str(len(bs)))
    for k, t in bs:
        toks += [k, "0" if k in mod._non_persistent_buffers_set else "1", str(payload(t))]
    cs = _cache_names(mod)
    toks.append(str(len(cs)))
    for c in cs:
        toks += [c, "1" if _populated(mod, c) else "0", "1"]
    ks = [(k, m) for k, m in mod._modules.items() if m is not None]
    toks.append(str(len(ks)))
    for k, m in ks:
        if " " in k or "." in k:
            raise RuntimeError(f"module name {k!r} not serialisable")
        toks.append(k)
        toks += tree_tokens(m, payload)
    return toks


def live_caches(top):
    out = []
    for p, m in top.named_modules(remove_duplicate=False):
        for c in _cache_names(m):
            if _populated(m, c):
                out.append((p + "." if p else "") + c)
    return out


def _frozen(pay):
    """Value snapshot of a payload table (the objects are changed later by the divergence phase)."""
    fz = Payloads(pay.base)
    fz.ids = dict(pay.ids)
    fz.tensors = [t.detach().clone() for t in pay.tensors]
    return fz


class Payloads:
    def __init__(self, base=0):
        self.ids, self.tensors, self.base = {}, [], base

    def __call__(self, t):
        k = id(t)
        if k not in self.ids:
            self.ids[k] = self.base + len(self.tensors)
            self.tensors.append(t)
        return self.ids[k]

    def tensor(self, i):
        return self.tensors[i - self.base]


# ====================================================================================================
# one save point
# ====================================================================================================

NUMERICAL = ("NotPSDError", "NanError", "not positive definite", "singular", "cholesky")


def _numerical(e):
    return any(t in type(e).__name__ or t in str(e) for t in NUMERICAL)


def check_savepoint(ctx, fname, seed, ops, mechs=MECHS, driver=None, stale=True, report=True, diverge=True):
    """Runs the history `ops` on a fresh original, applies the mechanisms, compares.  Returns list of failure keys."""
    torch, gpytorch = _import()
    fails = []

    def fail(key, what, **extra):
        fails.append(key)
        if report:
            ctx.fail(key, what, dict({"family": fname, "seed": seed, "ops": list(ops)}, **extra))

    try:
        b, t0 = build_original(fname, seed, ops)
    except Exception as e:
        if _numerical(e):
            ctx.count("discarded_numerical")      # ill-conditioned random instance: not a persistence matter
            return None
        ctx.broke("correspondence", f"family:{fname}", f"history {ops} failed on the original: {type(e).__name__}: {e}\n"
                  + traceback.format_exc()[-1200:])
        return None
    short = fname
    before = {p: d for p, (m, d) in _attr_snapshot(b.top).items()}
    alias0 = _aliasing(b.top)
    restored = {}
    for mech in mechs:
        try:
            restored[mech] = restore(b, fname, seed, mech)
        except Exception as e:
            where = "after-" + (OP_LABEL[ops[-1]] if ops else "construct")
            m_ = re.search(r"Can't pickle local object '(\w+)\.", str(e))
            if m_:
                fail(f"pickle-closure:{m_.group(1)}", f"{mech} of {short} raised {type(e).__name__}: {str(e)[:200]} "
                     f"(a prior registered with a local function / lambda makes the module unpicklable)",
                     mechanism=mech, error=str(e)[:500])
                continue
            cls = _blame_class(b.top, e)
            fail(f"{mech}:{cls}:{where}", f"{mech} of {short} after history {list(ops)} raised "
                 f"{type(e).__name__}: {str(e)[:200]}", mechanism=mech, error=str(e)[:500])
    # UNTOUCHED snapshots of a model that HAS PREDICTED (eval mode, caches alive): one deep copy is evaluated at once (the
    # reference), further copies are left alone until the original has gone on training (divergence phase)
    # (the reference is the original's own as-is prediction, first stage of `observe` below)
    untouched, sd_now, sd_loaded = None, None, None
    full = (not ctx.quick) or list(ops) == canonical_history(ctx.tier)[:4]
    if diverge and full and not b.top.training:        # (no use of the class table: this must also run when the tie broke)
        untouched = {}
        for mech_u, mk_u in (("deepcopy", lambda: copy.deepcopy(b.top)), ("pickle", lambda: pickle.loads(pickle.dumps(b.top)))):
            if mech_u == "pickle" and ctx.quick and not FAMILIES[fname][1]:
                continue
            try:
                untouched[mech_u] = b.rebind(mk_u())
            except Exception:
                pass                # a failing copy is reported by the mechanism loop above
    if diverge and full and "state_dict" in restored:
        sd_now = {k: v.detach().clone() for k, v in b.top.state_dict().items()}
        sd_loaded = {k: v.detach().clone() for k, v in restored["state_dict"].top.state_dict().items()}
    # the mechanisms must not have changed the original
    after = {p: d for p, (m, d) in _attr_snapshot(b.top).items()}
    mods_by_path = dict(b.top.named_modules(remove_duplicate=False))
    for p in before:
        if type(mods_by_path[p]).__module__.startswith("torch."):
            continue        # e.g. the process-wide `softplus` module shared by all constraints
        for a in before[p]:
            if before[p][a] != after.get(p, {}).get(a, "<gone>"):
                fail(f"original-mutated:{fname}:{a}", f"taking the snapshots changed {p}.{a} of the original")
    # stale cache after load: target has predicted before the load
    stale_pred, stale_tree = None, None
    pending_init = any(n.endswith("variational_params_initialized") and not bool(t.item())
                       for n, t in b.top.named_buffers())
    if pending_init:
        ctx.count("stale_skipped_lazy_init_pending")   # the next call draws the random initialisation: no fixed reference
    if stale and not pending_init and "state_dict" in mechs and "state_dict" in restored:
        try:
            f2 = build_fresh(fname, seed, salt=5)
            apply_op(f2, "eval", 1)
            apply_op(f2, "predict", 2)
            if driver is not None:      # the target as the model sees it: caches populated by its own old state
                payU = Payloads(100000)
                stale_tree = (tree_tokens(f2.top, payU), live_caches(f2.top))
            f2.top.load_state_dict(copy.deepcopy(b.top.state_dict()))
            if driver is not None:
                stale_tree += (f2.top.state_dict(), live_caches(f2.top))
            with torch.no_grad(), gpytorch.settings.num_likelihood_samples(3), _settings(f2):
                torch.manual_seed(12345)
                tmp = {}
                _dist_tensors(_call_model(f2, f2.Xs), "post", tmp)
            stale_pred = (tmp, live_caches(f2.top))
        except Exception as e:
            fail(f"stale-cache-after-load:{fname}:error", f"load_state_dict into an already-predicting {short} model / "
                 f"the next prediction raised {type(e).__name__}: {str(e)[:200]}")
    # driver lines (before observation changes modes / caches)
    if driver is not None:
        try:
            _driver_lines(driver, fname, seed, ops, b, restored, stale_tree)
        except Exception:
            ctx.count("driver_lines_skipped")
    # snapshots of attributes (before observation)
    snap_o = _attr_snapshot(b.top)
    snaps = {}
    for m, r in list(restored.items()):
        try:
            snaps[m] = _attr_snapshot(r.top)
            r.top.state_dict()
        except Exception as e:
            fail(f"{m}:{type(r.top).__name__}:restored-unusable:inspect", f"{short} restored by {m} after {list(ops)} cannot "
                 f"even be inspected: {type(e).__name__}: {str(e)[:200]}", mechanism=m)
            del restored[m]
    training_o = {p: m.training for p, (m, _) in snap_o.items()}
    # observations
    was_training = b.top.training
    obs_o, err_o = observe(b)
    if err_o is not None:
        if any(t in err_o[1] for t in NUMERICAL):
            ctx.count("discarded_numerical")
            return None
        ctx.broke("correspondence", f"family:{fname}", f"observing the ORIGINAL failed at {err_o[0]}: {err_o[1]}\n{err_o[2]}")
        return None
    nontriv = bool(ops)
    usable, obs_by_mech = {}, {}
    for mech, r in restored.items():
        desc = f"{fname}|{','.join(ops)}|{mech}"
        obs_r, err_r = observe(r)
        bitwise = 0
        bad, remaining = [], []
        if err_r is None:
            usable[mech] = r
            obs_by_mech[mech] = obs_r
        if err_r is not None:
            cls = _blame_class(r.top, None, err_r[2])
            fail(f"{mech}:{cls}:restored-unusable:{err_r[0]}", f"{short} restored by {mech} after {list(ops)}: "
                 f"{err_r[0]} raised {err_r[1]} (the original works)", mechanism=mech, stage=err_r[0])
        for k, a in obs_o.items():
            if k not in obs_r:
                continue
            ok, err, bit = _close(a, obs_r[k])
            bitwise += bit
            ctx.count("observations")
            ctx.count("observations_bitwise", int(bit))
            if not ok:
                bad.append((k, err))
        if bad:
            remaining = bad
            if mech == "state_dict":
                # attribution: numeric plain attributes that differ; transplant the original's values and observe again —
                # only what the transplant repairs is reported as `not-persisted:<Class>.<attr>`
                cands = _unpersisted_candidates(snap_o, snaps[mech])
                if cands:
                    saved = [(mr, a, mr.__dict__.get(a)) for _, mo, mr, a in cands]
                    for _, mo, mr, a in cands:
                        mr.__dict__[a] = copy.deepcopy(mo.__dict__[a])
                    r.top.train(was_training)
                    obs_t, err_t = observe(r)
                    for mr, a, old in saved:        # undo the transplant: the restored object stays what the mechanism made
                        mr.__dict__[a] = old
                    remaining = [(k, e_) for k, e_ in bad
                                 if err_t is not None or k not in obs_t or not _close(obs_o[k], obs_t[k])[0]]
                    if len(remaining) < len(bad):
                        kmax, emax = max(bad, key=lambda x: x[1] if x[1] == x[1] else float("inf"))
                        for name in sorted({c_[0] for c_ in cands}):
                            fail(f"not-persisted:{name}", f"{short} restored by state_dict after {list(ops)}: {kmax} differs "
                                 f"from the original by {emax:.3e}; {name} is a plain attribute (not a parameter/buffer), so "
                                 f"the value of the saved model does not reach the fresh one (transplanting it repairs "
                                 f"{len(bad) - len(remaining)} of {len(bad)} observables)", mechanism=mech, observable=kmax, err=emax)
            for k, err in remaining:
                fail(f"mismatch:{fname}:{mech}:{k}", f"{short} restored by {mech} after {list(ops)}: {k} differs from "
                     f"the original by {err:.3e}", mechanism=mech, observable=k, err=err)
        # structure: aliasing kept, independence of the copy
        if mech == "state_dict":
            # the freshly CONSTRUCTED model shares no argument with the original: a module / parameter / buffer object
            # that both contain lives in a process-global (a module-level default instance)
            shared = _shared_objects(b.top, r.top)
            if shared:
                fail(f"process-global:{_short_cls(r.top, shared[0])}:{shared[0].rsplit('.', 1)[-1]}",
                     f"{short}: the original and an independently constructed model of the same family (no common "
                     f"constructor argument) contain the SAME object at {shared[:3]} — a process-global default instance; "
                     f"load_state_dict / setters on one model rewrite the other", mechanism=mech, shared=shared[:6])
        if mech != "state_dict":
            al = _aliasing(r.top)
            if al != alias0:
                d = [x for x in alias0[0] + alias0[1] if x not in al[0] + al[1]] + \
                    [x for x in al[0] + al[1] if x not in alias0[0] + alias0[1]]
                grp0 = min(d, key=lambda g_: min(q.count(".") for q in g_)) if d else ()
                deepest = max(grp0, key=lambda q: q.count("."), default="")
                fail(f"aliasing:{_short_cls(b.top, deepest) if deepest else fname}:{mech}",
                     f"{mech} changed the sharing structure of {short}: {d[:3]}", mechanism=mech)
            ids_o = {id(t) for t in list(b.top.parameters()) + list(b.top.buffers())} | {id(m) for m in b.top.modules()}
            shared = [p for p, m in r.top.named_modules(remove_duplicate=False) if id(m) in ids_o] + \
                     [p for p, t in list(r.top.named_parameters(remove_duplicate=False))
                      + list(r.top.named_buffers(remove_duplicate=False)) if id(t) in ids_o]
            if shared:
                fail(f"not-independent:{_short_cls(r.top, shared[0])}:{mech}",
                     f"{mech} of {short}: the copy shares {shared[:3]} with the original", mechanism=mech, shared=shared[:6])
        # attribute diff
        _diff_attrs(fail, ctx, fname, ops, mech, snap_o, snaps[mech], t0, pred_ok=(err_r is None and not remaining))
        ctx.case(desc, nontrivial=nontriv, sample={"family": fname, "ops": list(ops), "mechanism": mech,
                                                    "observables": len(obs_o), "bitwise_equal": bitwise})
    if stale_pred is not None and not any(k.startswith(("mismatch:", "not-persisted:", "state_dict:")) for k in fails):
        tmp, live = stale_pred
        for k, a in tmp.items():
            ok, err, _ = _close(obs_o[k], a)
            ctx.count("stale_checks")
            if not ok:
                fail(f"stale-cache-after-load:{fname}:{k}", f"{short}: load_state_dict into a model that had already "
                     f"predicted; its next prediction differs from the loaded model's by {err:.3e} (old caches in effect)",
                     observable=k, err=err, live_caches=live)
    if sd_loaded is not None and not pending_init and not any(k.startswith("state_dict:") for k in fails):
        try:
            _check_mapping_forms(ctx, fail, fname, seed, ops, sd_now, sd_loaded, obs_by_mech.get("state_dict"),
                                 was_training, with_obs=not ctx.quick)
        except Exception as e:
            ctx.broke("correspondence", f"mapping-forms:{fname}", f"{type(e).__name__}: {e}\n" + traceback.format_exc()[-800:])
    if diverge and usable:
        _divergence(ctx, fail, fname, seed, ops, b, usable, obs_o, was_training, pending_init, untouched)
    return fails


def _shared_objects(top_a, top_b):
    """paths in `top_b` of modules / parameters / buffers that are the same OBJECT as one in `top_a` (state-less torch
    modules such as the process-wide `torch.nn.Softplus()` transform of the constraints do not count)"""
    ids = {id(t) for t in list(top_a.parameters()) + list(top_a.buffers())}
    ids |= {id(m) for m in top_a.modules()
            if not (type(m).__module__.startswith("torch.") and not list(m.parameters()) and not list(m.buffers()))}
    return [p for p, m in top_b.named_modules(remove_duplicate=False) if id(m) in ids] + \
           [p for p, t in list(top_b.named_parameters(remove_duplicate=False))
            + list(top_b.named_buffers(remove_duplicate=False)) if id(t) in ids]


def _asis(b):
    """prediction in the mode and with the caches the object is in — nothing is toggled, nothing is rebuilt first"""
    torch, gpytorch = _import()
    out = {}
    with torch.no_grad(), gpytorch.settings.num_likelihood_samples(3), _settings(b):
        torch.manual_seed(12345)
        _dist_tensors(_call_model(b, b.Xs), "asis", out)
    return out


MAPPING_FORMS = ("plain-dict", "ordered-no-metadata", "reversed-order", "torch-save-plain", "per-child")


def _mapping_form(form, sd, top):
    """the state dict `sd` in another LEGAL mapping form; -> list of (module to load into, mapping)"""
    import collections
    torch, _ = _import()
    items = [(k, v.detach().clone()) for k, v in sd.items()]
    if form == "plain-dict":
        return [(top, dict(items))]
    if form == "ordered-no-metadata":
        return [(top, collections.OrderedDict(items))]
    if form == "reversed-order":
        return [(top, dict(reversed(items)))]
    if form == "torch-save-plain":
        buf = io.BytesIO()
        torch.save(dict(items), buf)
        buf.seek(0)
        return [(top, torch.load(buf))]
    if form == "per-child":
        if any("." not in k for k, _ in items):
            return None
        return [(m, {k[len(c) + 1:]: v for k, v in items if k.startswith(c + ".")}) for c, m in top.named_children()]
    raise ValueError(form)


def _check_mapping_forms(ctx, fail, fname, seed, ops, sd, sd_loaded, obs_loaded, was_training, with_obs):
    """A state dict in every legal mapping form (no torch `_metadata`, other key order, a plain dict through torch.save,
    one sub-dict per child module) must load exactly like the `state_dict()` object itself."""
    torch, gpytorch = _import()
    k0 = (len(ops) + len(fname)) % len(MAPPING_FORMS)
    forms = MAPPING_FORMS[k0:] + MAPPING_FORMS[:k0]
    f2 = build_fresh(fname, seed)
    for form in forms:
        try:
            parts = _mapping_form(form, sd, f2.top)
            if parts is None:
                continue
            with warnings.catch_warnings():
                warnings.simplefilter("ignore")
                for m, d in parts:
                    m.load_state_dict(d)
        except Exception as e:
            fail(f"mapping-form:{form}:{fname}:error", f"{fname}: loading its state dict as {form} raised {type(e).__name__}: "
                 f"{str(e)[:200]} (the state_dict() object itself loads)", mechanism="state_dict", form=form)
            continue
        ctx.count("mapping_form_loads")
        now = f2.top.state_dict()
        for k, v in sd_loaded.items():
            w = now.get(k)
            if w is None or w.shape != v.shape or not torch.equal(torch.nan_to_num(w.detach().double()),
                                                                   torch.nan_to_num(v.double())):
                fail(f"mapping-form:{form}:{fname}:{k.rsplit('.', 1)[-1]}", f"{fname} after {list(ops)}: the state dict given as "
                     f"{form} loads differently from the state_dict() object: entry {k} is {_brief(_tensor_key(w)[3] if w is not None and w.numel() < 5 else w)} "
                     f"instead of {_brief(_tensor_key(v)[3] if v.numel() < 5 else v)}", mechanism="state_dict", form=form, entry=k)
                break
    if with_obs and obs_loaded is not None:
        f2.top.train(was_training)
        obs_f, err_f = observe(f2)
        if err_f is None:
            for k, err in _cmp_obs(obs_loaded, obs_f):
                fail(f"mapping-form:{forms[-1]}:{fname}:{k}", f"{fname} after {list(ops)}: loaded from the {forms[-1]} form of its "
                     f"state dict, {k} differs by {err:.3e} from the model loaded from the state_dict() object",
                     mechanism="state_dict", form=forms[-1], observable=k, err=err)


def _mutate(bundle, salt):
    """Make the object diverge: another state (parameter perturbation, as a load of different values would) and one
    optimiser step on its own objective."""
    apply_op(bundle, "setp", salt)
    apply_op(bundle, "step", salt + 1)


def _reference(fname, seed, variant, src):
    """An independent, newly constructed model carrying `src`'s CURRENT state (shares nothing with anybody)."""
    ref = build_fresh(fname, seed, salt=11, variant=variant) if variant in (1, "0p") else FAMILIES[fname][0](V(0, seed))
    ref.top.load_state_dict(copy.deepcopy(src.top.state_dict()))
    ref.top.train(src.top.training)
    return ref


def _cmp_obs(a, b_, rtol=1e-9):
    """-> list of (key, err) that differ"""
    out = []
    for k, v in a.items():
        if k in b_:
            ok, err, _ = _close(v, b_[k], rtol)
            if not ok:
                out.append((k, err))
    return out


def _divergence(ctx, fail, fname, seed, ops, b, usable, obs_o, was_training, pending_init=False, untouched=None):
    """DIVERGENCE phase.  Right after a round trip copy and original coincide, so state that the copy still reads from
    the original (a closure bound to the original module, a shared sub-module) is invisible.  Here (1) every restored
    object is changed (other parameter values + an optimiser step) and must then agree with an independent reference
    built for ITS OWN current state, while the original's outputs must not move; (2) the original is changed, must
    agree with its own reference, and the restored objects' outputs must not move."""
    after = {}
    for i, (mech, r) in enumerate(usable.items()):
        try:
            _mutate(r, 7000 + 13 * i)
            obs_r, err_r = observe(r)
            ref = _reference(fname, seed, 1 if mech == "state_dict" else 0, r)
            obs_f, err_f = observe(ref)
        except Exception as e:
            if _numerical(e):
                ctx.count("divergence_discarded_numerical")
                continue
            fail(f"divergence:{fname}:{mech}:error", f"{fname}: changing the {mech}-restored model / building its reference "
                 f"raised {type(e).__name__}: {str(e)[:200]}", mechanism=mech, phase="divergence")
            continue
        if err_r is not None or err_f is not None:
            e_ = err_r or err_f
            if any(t in e_[1] for t in NUMERICAL):
                ctx.count("divergence_discarded_numerical")
            elif err_r is not None and err_f is None:
                fail(f"divergence:{fname}:{mech}:error", f"{fname}: the {mech}-restored model, after being changed, fails at "
                     f"{e_[0]}: {e_[1]} (its reference works)", mechanism=mech, phase="divergence")
            continue
        after[mech] = (r, obs_r)
        ctx.count("divergence_checks")
        for k, err in _cmp_obs(obs_f, obs_r):
            fail(f"divergence:{fname}:{mech}:{k}", f"{fname} after {list(ops)}: the {mech}-restored model was changed (new "
                 f"parameter values + one optimiser step); its {k} differs by {err:.3e} from an independently constructed "
                 f"model carrying the same state — it still reads state that is not its own", mechanism=mech,
                 observable=k, err=err, phase="divergence")
    # the original must not have moved
    b.top.train(was_training)
    obs_b, err_b = observe(b)
    if err_b is None and not pending_init:     # (with a lazy random initialisation pending, obs_o is not a fixed reference)
        for k, err in _cmp_obs(obs_o, obs_b):
            fail(f"coupled:{fname}:original-follows-restored:{k}", f"{fname} after {list(ops)}: changing the restored models "
                 f"({', '.join(after)}) changed the ORIGINAL's {k} by {err:.3e}", observable=k, err=err, phase="divergence")
    # now the original diverges
    try:
        _mutate(b, 9000)
        obs_b2, err_b2 = observe(b)
        ref_b = _reference(fname, seed, 0, b)
        obs_fb, err_fb = observe(ref_b)
    except Exception as e:
        if not _numerical(e):
            ctx.broke("correspondence", f"family:{fname}", f"divergence phase on the original: {type(e).__name__}: {e}")
        return
    # the untouched snapshots: taken after the original had predicted, never toggled / reloaded / observed since; the
    # original has now gone on training — they must still predict what a copy predicted at snapshot time, on every path
    if untouched:
        ref_asis, snaps_u = {k: v for k, v in obs_o.items() if k.startswith("asis")}, untouched
        for mech, u in snaps_u.items():
            try:
                now = _asis(u)
            except Exception as e:
                fail(f"coupled:{fname}:{mech}:untouched-snapshot:error", f"{fname}: a {mech} snapshot of a model that had "
                     f"predicted raises {type(e).__name__}: {str(e)[:200]} once the original has gone on training",
                     mechanism=mech, phase="divergence")
                continue
            ctx.count("untouched_snapshot_checks")
            for k, err in _cmp_obs(ref_asis, now):
                fail(f"coupled:{fname}:{mech}:untouched-snapshot-follows-original:{k}", f"{fname} after {list(ops)}: a {mech} "
                     f"snapshot taken after the model had predicted was left untouched while the ORIGINAL went on training; "
                     f"its {k} moved by {err:.3e} from what a copy predicted at snapshot time — it still reads the "
                     f"original's modules", mechanism=mech, observable=k, err=err, phase="divergence")
    if err_b2 is None and err_fb is None:
        for k, err in _cmp_obs(obs_fb, obs_b2):
            fail(f"divergence:{fname}:original:{k}", f"{fname} after {list(ops)}: after the round trips the ORIGINAL was "
                 f"changed; its {k} differs by {err:.3e} from an independent model carrying the same state",
                 observable=k, err=err, phase="divergence")
    for mech, (r, obs_r) in after.items():
        obs_r2, err_r2 = observe(r)
        if err_r2 is not None:
            continue
        for k, err in _cmp_obs(obs_r, obs_r2):
            fail(f"coupled:{fname}:{mech}:restored-follows-original:{k}", f"{fname} after {list(ops)}: changing the ORIGINAL "
                 f"changed the {mech}-restored model's {k} by {err:.3e}", mechanism=mech, observable=k, err=err,
                 phase="divergence")


def _unpersisted_candidates(snap_o, snap_r):
    """[(Class.attr, original module, restored module, attr)]: tensor / number valued plain attributes that differ
    between the original and the state_dict-restored model.  Aliases of one value inside a module (`eta` is
    `concentration`) are listed for the transplant but share the name of the alphabetically first one."""
    out = []
    num = lambda x: (isinstance(x, (int, float)) and not isinstance(x, bool)) or (isinstance(x, tuple) and x and x[0] == "T")  # noqa: E731
    for p, (m, d) in snap_o.items():
        if p not in snap_r or type(m).__module__.startswith("torch."):
            continue
        mr, dr = snap_r[p]
        first = {}
        for a in sorted(d):
            vo, vr = d[a], dr.get(a, "<absent>")
            if vr == vo or a in MODE_ATTRS or not (num(vo) and num(vr)) or a not in m.__dict__:
                continue
            if _allow_list().get((_owner_of_attr(m, a), a)) is not None:
                continue
            name = first.setdefault((repr(vo), repr(vr)), f"{type(m).__name__}.{a}")
            out.append((name, m, mr, a))
    return out


def _short_cls(top, path):
    mods = dict(top.named_modules(remove_duplicate=False))
    p = path
    while p and p not in mods:
        p = p.rsplit(".", 1)[0] if "." in p else ""
    par = p.rsplit(".", 1)[0] if "." in p else ""
    return type(mods.get(par, top)).__name__ if p in mods and p else type(mods.get(p, top)).__name__


def _blame_class(top, exc, tb_text=None):
    """Name the cache-holding class involved in a failing deepcopy (stable key): the innermost gpytorch module class
    that holds a populated cache, else the top-level model class."""
    holders = []
    for p, m in top.named_modules():
        for c in _cache_names(m):
            if _populated(m, c):
                holders.append(_base_owner(m, c))
    if tb_text and "inducing_point_kernel" in tb_text:
        return "InducingPointKernel"
    if holders:
        # prefer kernel / strategy holders over the model (whose prediction_strategy deep-copies to None)
        pref = [h for h in holders if h != "ExactGP"]
        return (pref or holders)[-1]
    return type(top).__name__


def _diff_attrs(fail, ctx, fname, ops, mech, snap_o, snap_r, t0, pred_ok=True):
    allow = _allow_list()
    for p, (m, d) in snap_o.items():
        if type(m).__module__.startswith("torch."):
            continue        # torch's own modules (e.g. the process-wide `softplus` instance shared by all constraints)
        if p not in snap_r:
            fail(f"structure:{fname}:{mech}", f"module {p} missing after {mech}")
            continue
        mr, dr = snap_r[p]
        for a, vo in d.items():
            changed = t0.get(p, {}).get(a, "<absent>") != vo
            vr = dr.get(a, "<absent>")
            if vr == vo:
                continue
            if mech == "state_dict" and (not changed or a in MODE_ATTRS):
                continue            # constructor-determined, or the mode
            owner = _owner_of_attr(m, a)
            tag = allow.get((owner, a))
            if tag is None:
                for c in type(m).__mro__:
                    if (c.__name__, a) in DYNAMIC_ALLOW:
                        tag = ("dynamic", "none")
                        break
            if tag is not None and tag[0] in ("cache", "cacheTag") and not pred_ok:
                tag = None      # a pure cache is only accepted when the restored model predicts identically
            # `config` = "set by the user through a public setter, never by train / eval / predict": the histories call no
            # setter, so a config attribute that CHANGED during one is state that the object acquired by being used
            # (a getter memoising a global default into it) — reported like any other unclassified attribute
            if tag is not None and (tag[0] in ("cache", "cacheTag", "scratch", "dynamic") or
                                    (mech == "state_dict" and tag[0] in ("derived", "cursor", "data"))):
                ctx.count(f"not-carried-allowed:{tag[0]}")
                _state.setdefault("allowed_seen", {}).setdefault(f"{owner}.{a}", set()).add(mech)
                continue
            fail(f"not-carried:{owner}.{a}:{mech}",
                 f"{fname} after {list(ops)}: {p or '<top>'}.{a} ({type(m).__name__}) is {_brief(vo)} in the original but "
                 f"{_brief(vr)} after {mech}" + (" (it changed during the history)" if changed else ""),
                 mechanism=mech, attr=a, module=p)
        for a in dr:
            if a not in d and mech != "state_dict":
                owner = _owner_of_attr(mr, a)
                tag = allow.get((owner, a))
                if tag is not None and tag[0] in ("cache", "cacheTag", "scratch"):
                    continue
                fail(f"not-carried:{owner}.{a}:{mech}", f"{fname}: {p}.{a} appears only in the {mech} copy", mechanism=mech)


def _brief(v):
    s = repr(v)
    return s if len(s) < 80 else s[:77] + "..."


def _driver_lines(driver, fname, seed, ops, b, restored, stale_tree=None):
    """Queue the requests for the Lean driver together with what the real objects say."""
    torch, _ = _import()
    pay = Payloads(0)
    try:
        tT = tree_tokens(b.top, pay)
    except RuntimeError:
        return
    real_keys = list(b.top.state_dict().keys())
    real_sd = b.top.state_dict()
    driver.append(("SD", fname, ops, "SD " + " ".join(tT),
                   {"keys": real_keys, "ptrs": {k: (real_sd[k].data_ptr(), tuple(real_sd[k].shape)) for k in real_keys},
                    "pay": pay}))
    for mech in ("pickle", "deepcopy"):
        if mech in restored:
            driver.append(("COPY", fname, ops, f"COPY {mech} " + " ".join(tT),
                           {"keys": list(restored[mech].top.state_dict().keys()), "live": live_caches(restored[mech].top),
                            "mech": mech}))
    if stale_tree is not None and len(stale_tree) == 4:
        # load into a target that had already predicted: the model must say which caches survive (none)
        tU, live_before, sdU, live_after = stale_tree
        driver.append(("RT", fname, ops, "RT g " + " ".join(tT) + " | " + " ".join(tU),
                       {"keys": list(sdU.keys()), "pay": _frozen(pay), "sdU": {k: v.detach().clone() for k, v in sdU.items()},
                        "live": live_after, "live_before": live_before}))
    elif "state_dict" in restored:
        # (no stale-cache target for this save point) the freshly constructed target after the load
        f = restored["state_dict"]
        payU = Payloads(100000)
        tU = tree_tokens(f.top, payU)
        sdU = f.top.state_dict()
        driver.append(("RT", fname, ops, "RT g " + " ".join(tT) + " | " + " ".join(tU),
                       {"keys": list(sdU.keys()), "pay": _frozen(pay), "sdU": {k: v.detach().clone() for k, v in sdU.items()},
                        "live": live_caches(f.top)}))


def _run_driver(ctx, driver):
    if not driver:
        return
    lines = [d[3] for d in driver]
    replies = C.run_driver("C18", lines)
    mism = 0
    import torch
    for (kind, fname, ops, line, real), rep in zip(driver, replies):
        ctx.count("driver_lines")
        parts = dict(x.split("=", 1) for x in rep.split(";") if "=" in x)
        items = [kv.split("=") for kv in parts.get("sd", "").split(",") if kv]
        keys = [k for k, _ in items]
        problem = None
        if keys != real["keys"]:
            i = next((i for i, (a, b_) in enumerate(zip(keys, real["keys"])) if a != b_), min(len(keys), len(real["keys"])))
            problem = f"key list differs at position {i}: model {keys[i:i + 2]} real {real['keys'][i:i + 2]}"
        elif kind == "SD":
            if parts.get("wf") != "1":
                problem = "model says the real tree has a name collision"
            for k, pv in items:
                t = real["pay"].tensor(int(pv))
                if (t.data_ptr(), tuple(t.shape)) != real["ptrs"][k]:
                    problem = f"key {k} holds a different tensor than the model says"
        elif kind == "RT":
            for k, pv in items:
                t = real["pay"].tensor(int(pv))
                if not torch.equal(t.detach(), real["sdU"][k].detach()) and not (
                        torch.isnan(t).any() and torch.equal(torch.isnan(t), torch.isnan(real["sdU"][k]))):
                    problem = f"after the load key {k} does not hold the value the model says"
                    break
            live = [x for x in parts.get("live", "").split(",") if x]
            if problem is None and sorted(live) != sorted(real["live"]):
                problem = f"live caches after load: model {live} real {real['live']}"
        elif kind == "COPY":
            live = [x for x in parts.get("live", "").split(",") if x]
            if sorted(live) != sorted(real["live"]):
                problem = f"live caches after {real['mech']}: model {live} real {real['live']}"
        if problem:
            mism += 1
            if mism <= 6:
                ctx.broke("correspondence", f"model-mismatch:{kind}:{fname}", f"history {list(ops)}: {problem}")
    ctx.count("model_mismatches", mism)
    ctx.count("driver_RT_targets_with_live_caches", sum(1 for d in driver if d[0] == "RT" and d[4].get("live_before")))


# ====================================================================================================
# global settings: which ones a family consults (spy), non-default environments, the USED-UNDER phase
# ====================================================================================================

# non-default constructor arguments of the value-type settings (anything not listed: generic rule in `_env_factory`)
NONDEFAULT = {
    "max_cholesky_size": (3,), "max_eager_kernel_size": (2,), "max_cg_iterations": (60,), "max_preconditioner_size": (3,),
    "max_root_decomposition_size": (5,), "max_lanczos_quadrature_iterations": (5,), "min_preconditioning_size": (2,),
    "cg_tolerance": (0.3,), "eval_cg_tolerance": (0.3,), "minres_tolerance": (1e-2,), "preconditioner_tolerance": (1e-1,),
    "num_contour_quadrature": (7,), "num_gauss_hermite_locs": (7,), "num_likelihood_samples": (4,), "num_trace_samples": (3,),
    "cholesky_max_tries": (2,), "tridiagonal_jitter": (1e-3,), "observation_nan_policy": ("mask",),
    "fast_computations": (False, False, False), "fast_pred_var": (True, 2),
}
SETTINGS_SKIP = {
    "verbose_linalg": "only switches debug logging of linear_operator on",
    "linalg_dtypes": "composite of _linalg_dtype_symeig / _linalg_dtype_cholesky (exercised through those)",
    "checkpoint_kernel": "deprecated beta feature: entering it with a non-zero split size only raises a DeprecationWarning",
}


# internal flag classes that are set only through a composite public setting
SETTING_PARTS = {"_fast_covar_root_decomposition": "fast_computations", "_fast_log_prob": "fast_computations",
                 "_fast_solves": "fast_computations"}


def _settings_classes():
    """name -> class for every global setting gpytorch exposes (own + re-exported linear_operator ones + beta features)"""
    torch, gpytorch = _import()
    out = {}
    for mod in (gpytorch.settings, gpytorch.beta_features):
        for n, c in vars(mod).items():
            if inspect.isclass(c) and (not n.startswith("_") or n in ("_linalg_dtype_cholesky", "_linalg_dtype_symeig")) \
                    and hasattr(c, "__enter__"):
                out.setdefault(n, c)
    return out


class SettingsSpy:
    """Records which settings classes are consulted (classmethods `on/off/is_default/value/…` of the settings base
    classes, gpytorch's and linear_operator's) while active; `self.current` names the bucket (the family)."""

    def __init__(self):
        self.seen, self.current, self._undo = {}, None, []

    def __enter__(self):
        done = set()
        for name, c in _settings_classes().items():
            for k in c.__mro__:
                if k is object or k in done:
                    continue
                done.add(k)
                for a, f in list(vars(k).items()):
                    if isinstance(f, classmethod) and not a.startswith("_set"):
                        self._wrap(k, a, f)
        return self

    def _wrap(self, k, a, f):
        inner, spy = f.__func__, self

        def wrapper(cls, *args, **kw):
            if spy.current is not None:
                spy.seen.setdefault(spy.current, set()).add(cls.__name__)
            return inner(cls, *args, **kw)
        wrapper.__name__ = getattr(inner, "__name__", a)
        setattr(k, a, classmethod(wrapper))
        self._undo.append((k, a, f))

    def __exit__(self, *exc):
        for k, a, f in reversed(self._undo):
            setattr(k, a, f)
        self._undo = []
        return False


def _env_factory(name):
    """-> zero-argument callable returning the list of context managers of a NON-DEFAULT instance of setting `name`,
    or None when no non-default instance can be formed."""
    torch, gpytorch = _import()
    c = _settings_classes().get(name)
    if c is None or name in SETTINGS_SKIP:
        return None
    if name in NONDEFAULT:
        return lambda: [c(*NONDEFAULT[name])]
    if any(k.__name__ == "_feature_flag" for k in c.__mro__):
        return lambda: [c(not c.on())]
    if any(k.__name__ == "_dtype_value_context" for k in c.__mro__):
        vals = {k_: getattr(c, f"_global_{k_}_value", None) for k_ in ("float", "double", "half")}
        if all(isinstance(x, (int, float)) for x in vals.values() if x is not None):
            kw = {f"{k_}_value": (x * 1e4 if x else 1e-2) for k_, x in vals.items() if x is not None}
            return lambda: [c(**kw)]
        return None
    if any(k.__name__ == "_value_context" for k in c.__mro__):
        val = c.value()
        if isinstance(val, bool):
            return lambda: [c(not val)]
        if isinstance(val, int):
            return lambda: [c(max(1, val // 3))]
        if isinstance(val, float):
            return lambda: [c(val * 10)]
        if isinstance(val, torch.dtype):        # dtype-valued (precision of internal factorisations): the other one
            return lambda: [c(torch.float32 if val == torch.float64 else torch.float64)]
    return None


def check_used_under(ctx, fname, seed, ops, sname, env, report=True):
    """USED-UNDER phase: the original is constructed under default settings, its history runs INSIDE the non-default
    environment, then the environment is left and the caches are dropped at the documented invalidation point
    (train() / eval()).  From there on the object must behave like a model that never saw the environment: the
    state_dict -> fresh-model restoration, and its own pickle / deepcopy, evaluated under the defaults."""
    torch, gpytorch = _import()
    fails = []

    def fail(key, what, **extra):
        fails.append(key)
        if report:
            ctx.fail(key, what, dict({"family": fname, "seed": seed, "ops": list(ops), "phase": "used-under",
                                      "setting": sname}, **extra))
    try:
        b, t0 = build_original(fname, seed, ops, env=env)
    except Exception:
        ctx.count("used_under_history_failed")        # the environment breaks the history itself: not a persistence matter
        _state.setdefault("env_failed", {}).setdefault(sname, []).append(fname)
        return None
    mode = b.top.training
    b.top.train()
    b.top.train(mode)           # documented invalidation point: caches computed inside the environment are dropped
    if any(n.endswith("variational_params_initialized") and not bool(t.item()) for n, t in b.top.named_buffers()):
        return None
    try:
        # the fresh model is given the original's constructor arguments again (other parameter values): what the main
        # phase reports about state that lives in constructor arguments (known findings) is not repeated here
        r = restore(b, fname, seed, "state_dict", variant=0)
    except Exception as e:
        fail(f"used-under:{sname}:{fname}:state_dict:error", f"{fname} used under {sname}: state_dict -> fresh model raised "
             f"{type(e).__name__}: {str(e)[:200]}", mechanism="state_dict")
        return fails
    snap_o, snap_r = _attr_snapshot(b.top), _attr_snapshot(r.top)
    obs_o, err_o = observe(b)
    obs_r, err_r = observe(r)
    if err_o is not None or err_r is not None:
        e_ = err_o or err_r
        if any(t in e_[1] for t in NUMERICAL):
            ctx.count("discarded_numerical")
            return None
        if err_o is None:
            fail(f"used-under:{sname}:{fname}:state_dict:restored-unusable", f"{fname} used under {sname}: the restored model "
                 f"fails at {e_[0]}: {e_[1]}", mechanism="state_dict")
        else:
            ctx.count("used_under_history_failed")
        return fails
    # after a float32 episode, quantities DERIVED from the inputs while in float32 (dynamic interpolation grid bounds)
    # keep float32 rounding (relative 6e-8) until they are recomputed: 1e-5 there; a sticking float32 default moves
    # results by >= 1e-4.  Settings environments: exact comparison as everywhere else.
    bad = _cmp_obs(obs_o, obs_r, 1e-5 if sname.startswith("dtype=") else 1e-9)
    ctx.count("used_under_checks")
    for k in obs_o:
        ctx.count("observations")
    for k, err in bad:
        fail(f"used-under:{sname}:{fname}:state_dict:{k}", f"{fname}: the history {list(ops)} ran inside "
             f"{'settings.' + sname + '(<non-default>)' if '=' not in sname else sname}; after leaving it (and train()/eval()) the model's {k} differs by {err:.3e} "
             f"from a fresh model that loaded its state_dict — the object kept state acquired under the setting",
             mechanism="state_dict", observable=k, err=err)
    _diff_attrs(fail, ctx, fname, ops, "state_dict", snap_o, snap_r, t0, pred_ok=not bad)
    ctx.case(f"{fname}|{','.join(ops)}|used-under:{sname}", nontrivial=True,
             sample={"family": fname, "ops": list(ops), "setting": sname, "observables": len(obs_o)})
    return fails


# ====================================================================================================
# SHARED-ARGUMENT phase: two models constructed from the SAME argument tensors
# ====================================================================================================

def _pool_tensors(pool):
    import torch
    out = {}
    for k, v in pool.items():
        name = k if isinstance(k, str) else "-".join(str(x[0] if isinstance(x, tuple) else x) for x in k)
        many = isinstance(v, (tuple, list))
        for i, t in enumerate(v if many else [v]):
            if isinstance(t, torch.Tensor):
                out[f"{name}.{i}" if many else name] = t
    return out


def check_shared_args(ctx, fname, seed, ops, report=True):
    """`A = Model(args); B = Model(args)` with the same tensor OBJECTS (as a script building "a fresh model of the same
    architecture" does).  A runs a history and is check-pointed; a check-point with OTHER values is loaded into B and
    B is trained.  Then (1) A's observations (caches rebuilt) and A's state dict must not have moved, (2) the caller's
    argument tensors must be untouched, (3) B must agree with an independent model carrying B's state."""
    torch, gpytorch = _import()
    fails = []

    def fail(key, what, **extra):
        fails.append(key)
        if report:
            ctx.fail(key, what, dict({"family": fname, "seed": seed, "ops": list(ops), "phase": "shared-args"}, **extra))
    pool = {}
    try:
        A, _ = build_original(fname, seed, ops, pool=pool)
        B = FAMILIES[fname][0](V(0, seed, pool))
        B.top.train()
    except Exception as e:
        if not _numerical(e):
            ctx.broke("correspondence", f"family:{fname}", f"shared-argument construction failed: {type(e).__name__}: {e}")
        return None
    if any(n.endswith("variational_params_initialized") and not bool(t.item()) for n, t in A.top.named_buffers()):
        ctx.count("shared_args_skipped_lazy_init_pending")
        return None
    args0 = {k: t.detach().clone() for k, t in _pool_tensors(pool).items()}
    modeA = A.top.training
    obs_a0, err_a0 = observe(A)
    A.top.train(modeA)
    sd_a0 = {k: t.detach().clone() for k, t in A.top.state_dict().items()}
    if err_a0 is not None:
        if not any(t in err_a0[1] for t in NUMERICAL):
            ctx.broke("correspondence", f"family:{fname}", f"shared-argument phase: observing A failed at {err_a0[0]}: {err_a0[1]}")
        return None
    try:
        other = build_fresh(fname, seed, salt=23)           # constructed from its OWN arguments, other values
        B.top.load_state_dict(copy.deepcopy(other.top.state_dict()))
        _mutate(B, 5000)
    except Exception as e:
        if _numerical(e):
            ctx.count("discarded_numerical")
            return None
        fail(f"coupled:{fname}:shared-args:error", f"{fname}: loading a check-point into / training the twin built from the "
             f"same argument tensors raised {type(e).__name__}: {str(e)[:200]}")
        return fails
    ctx.count("shared_args_checks")
    # (2) the caller's tensors
    for k, t in _pool_tensors(pool).items():
        if not torch.equal(torch.nan_to_num(t.detach().double()), torch.nan_to_num(args0[k].double())):
            fail(f"argument-mutated:{fname}:{k}",
                 f"{fname}: after load_state_dict into / training of model B the CALLER's constructor argument {k} changed "
                 f"by {float((t.detach().double() - args0[k].double()).abs().max()):.3e} — the module kept the caller's "
                 f"tensor itself (no clone) and writes into it", argument=k)
    # (1) A must not have moved
    sd_a1 = A.top.state_dict()
    for k, t in sd_a0.items():
        if k in sd_a1 and not torch.equal(torch.nan_to_num(sd_a1[k].detach().double()), torch.nan_to_num(t.double())):
            fail(f"coupled:{fname}:shared-args:state_dict", f"{fname}: models A and B were constructed from the same argument "
                 f"tensors; loading a check-point into B / training B changed A's state_dict entry {k} by "
                 f"{float((sd_a1[k].detach().double() - t.double()).abs().max()):.3e}", key_name=k)
            break
    A.top.train()
    A.top.train(modeA)          # rebuild A's caches from its (supposedly untouched) state
    obs_a1, err_a1 = observe(A)
    if err_a1 is None:
        for k, err in _cmp_obs(obs_a0, obs_a1):
            fail(f"coupled:{fname}:shared-args:original-follows-twin:{k}", f"{fname}: models A and B were constructed from the "
                 f"same argument tensors; after a check-point was loaded into B and B was trained, A's {k} moved by {err:.3e} "
                 f"although nothing was done to A", observable=k, err=err)
    # (3) B is what its own state says (thorough tier; in the quick tier the main phase's state_dict mechanism and
    # divergence phase cover the correctness of a loaded-and-trained model)
    try:
        if ctx.quick and report:
            raise StopIteration
        ref = _reference(fname, seed, "0p", B)       # B's constructor arguments (variant 0), other parameter values
        obs_b, err_b = observe(B)
        obs_f, err_f = observe(ref)
        if err_b is None and err_f is None:
            for k, err in _cmp_obs(obs_f, obs_b):
                fail(f"divergence:{fname}:shared-args:{k}", f"{fname}: model B (built from the same argument tensors as A, then "
                     f"loaded and trained) differs in {k} by {err:.3e} from an independent model carrying B's state",
                     observable=k, err=err)
    except StopIteration:
        pass
    except Exception as e:
        if not _numerical(e):
            fail(f"divergence:{fname}:shared-args:error", f"{fname}: building the reference of B raised {type(e).__name__}: {e}")
    ctx.case(f"{fname}|{','.join(ops)}|shared-args", nontrivial=True,
             sample={"family": fname, "ops": list(ops), "phase": "shared-args", "arguments": sorted(args0)})
    return fails


# ====================================================================================================
# dynamic read sets (`__getattribute__` spy) vs the static read table of translator G2p
# ====================================================================================================

class ReadSpy:
    """While active, every attribute load `obj.<name>` on a torch module that is executed by a frame of a package
    method whose `self` IS that object is recorded as (defining class, method, attribute) — the dynamic counterpart of
    the `self.<attr>` loads that translator G2p collects from the AST."""

    def __init__(self):
        self.reads = {}         # (relfile, qualname head) -> {attr}
        self._codes = {}

    def __enter__(self):
        import torch
        root = os.path.join(os.path.realpath(C.REPO), "gpytorch") + os.sep
        reads, codes = self.reads, self._codes
        oga, getframe = object.__getattribute__, sys._getframe

        def classify(code):
            fn = os.path.realpath(code.co_filename)
            if not fn.startswith(root) or "/gpytorch/test/" in fn:
                return None
            q = code.co_qualname.split(".<locals>")[0]
            if "." not in q:
                return None             # a module-level function (memoize helpers …), not a method
            first = code.co_varnames[0] if code.co_argcount else None
            nested = ".<locals>" in code.co_qualname
            return (os.path.relpath(fn, os.path.realpath(C.REPO)), q, first, nested)

        def spy(self_, name):
            f = getframe(1)
            code = f.f_code
            info = codes.get(code, 0)
            if info == 0:
                info = codes[code] = classify(code)
            if info is not None:
                rel, q, first, nested = info
                loc = f.f_locals
                if (first is not None and not nested and loc.get(first) is self_) or (nested and loc.get("self") is self_):
                    reads.setdefault((rel, q), set()).add(name)
            return oga(self_, name)
        torch.nn.Module.__getattribute__ = spy
        return self

    def __exit__(self, *exc):
        import torch
        try:
            del torch.nn.Module.__getattribute__
        except AttributeError:
            pass
        return False


def check_read_sets(ctx, spy):
    """dynamic ⊆ static: every `self.<attr>` load observed on a real instance must be in the static read set of the
    method that executed it (or that method is an audited computed-name reader).  A mismatch is a broken tie."""
    tab = _table()
    if not tab:
        return
    by_cls = {(d["file"], d["pyname"]): (n, d) for n, d in tab.items()}
    # mix-in classes (not Modules themselves) are folded into the classes that inherit them: look methods up by name
    folded = {}
    for n, d in tab.items():
        for m, r in d["reads"].items():
            folded.setdefault(m, set()).update(r)
    bad, nreads, nmeth = [], 0, 0
    for (rel, q), attrs in sorted(spy.reads.items()):
        cname, meth = q.rsplit(".", 1)
        ent = by_cls.get((rel, cname))
        nmeth += 1
        if ent is not None:
            static = set(ent[1]["reads"].get(meth, ())) | set(ent[1]["alias_reads"].get(meth, ()))
            dyn = meth in ent[1]["dyn_reads"]
        else:
            static, dyn = folded.get(meth, set()), False
        for a in sorted(attrs):
            nreads += 1
            if (a.startswith("__") and a.endswith("__")) or dyn:
                continue
            a2 = a
            if a not in static and a2 not in static:
                bad.append(f"{cname}.{meth}: self.{a}")
    ctx.count("dynamic_reads_checked", nreads)
    ctx.notes["read_sets"] = {"methods_traced": nmeth, "dynamic_reads": nreads, "not_in_static_table": bad[:20]}
    if bad:
        ctx.broke("correspondence", "read-table", "attribute loads observed on real instances (by a __getattribute__ spy) that "
                  "the static read table of the translator does not list: " + "; ".join(bad[:12]))


def _check_torch_names(ctx):
    """`torchModuleNames` of Props/C18.lean (read categories (d)): each must really be an attribute of a plain torch
    module — otherwise the list would hide a genuine instance attribute of the package."""
    import torch
    src = open(PROPS).read()
    m = re.search(r"def torchModuleNames : List Nat :=\s*\[(.*?)\]", src, re.S)
    if not m:
        ctx.broke("correspondence", "torch-module-names", "list not found in Props/C18.lean")
        return
    probe = torch.nn.Module()
    missing = [n for n in re.findall(r"aid_(\w+)", m.group(1)) if not hasattr(probe, n)]
    ctx.notes["torch_module_names"] = len(re.findall(r"aid_(\w+)", m.group(1)))
    if missing:
        ctx.broke("correspondence", "torch-module-names", f"not attributes of torch.nn.Module(): {missing}")


# ====================================================================================================
# generated table vs real instances, class coverage
# ====================================================================================================

def _check_table_against(ctx, top, seen_unknown):
    tab = _table()
    for p, m in top.named_modules():
        n = _table_name(type(m))
        if n is None:
            continue
        d = tab[n]
        known = {q for _, q, _ in d["eff_regs"]} | set(d["eff_init_attrs"]) | set(d["eff_mut_attrs"]) | set(d["memo"])
        names = list(m._parameters) + list(m._buffers) + list(m._modules) + \
            ([] if d["foreign_base"] else [k for k in m.__dict__ if k not in TORCH_INTERNAL and k != "training"])
        runtime_registered = set(getattr(m, "_priors", {})) | set(getattr(m, "_constraints", {}))
        for a in names:
            if a in known or any(_match(q, a) for q in known if ("*" in q or "#" in q) and q != "*"):
                continue
            if a in m._modules and a in runtime_registered:
                continue        # registered on the instance through the public registrar API (register_prior / _constraint)
            # children registered through the generic registrar API (register_prior / register_constraint names are
            # covered above); anything else is unknown to the translator
            key = f"{n}.{a}"
            if key not in seen_unknown:
                seen_unknown.add(key)
        for a in m._buffers:
            kinds = {k for k, q, _ in d["eff_regs"] if _match(q, a)}
            pers = a not in m._non_persistent_buffers_set
            if kinds and (("buffer" in kinds) != pers) and not ({"buffer", "nbuffer"} <= kinds):
                seen_unknown.add(f"{n}.{a}:persistent-flag")


def _exported():
    torch, gpytorch = _import()
    out = {}
    for pkg in ("kernels", "means", "likelihoods", "variational", "mlls", "priors", "constraints", "models"):
        mod = getattr(gpytorch, pkg)
        for n in getattr(mod, "__all__", []):
            o = getattr(mod, n, None)
            if inspect.isclass(o) and issubclass(o, torch.nn.Module):
                out[f"{pkg}.{n}"] = o
    return out


# ====================================================================================================
# entry points
# ====================================================================================================

def _plan(ctx):
    """[(family, seed, ops, mechs)]"""
    _register_families()
    rng = ctx.rng("plan")
    seed = rng.randrange(1000)
    canon = canonical_history(ctx.tier)
    plan = []
    # families that exercise the cache holders / copy hooks first (their findings head the report)
    first = ["exact/kiss_gp", "svgp/whitened_cholesky", "exact/sgpr", "exact/grid_kernel", "exact/poly2",
             "multitask/hadamard_index", "svgp/lik_softmax"]
    order = [f for f in first if f in FAMILIES] + [f for f in FAMILIES if f not in first]
    for fname in order:
        fn, quick, meta = FAMILIES[fname]
        if meta.get("lazy"):
            continue
        if ctx.quick:
            if quick:
                pts = [0, 2, 4, 6, len(canon)]
            else:
                pts = [4]
        else:
            pts = list(range(len(canon) + 1))
        for k in pts:
            # quick: the divergence phase at one save point per family (+ the random history); thorough: everywhere
            plan.append((fname, seed, canon[:k], MECHS if (not ctx.quick or k == 4) else MECHS + ("nodiverge",)))
        nrand = (1 if quick else 0) if ctx.quick else 5
        for j in range(nrand):
            h = random_history(rng, rng.randrange(2, 7 if ctx.quick else 9))
            plan.append((fname, seed + 1 + j, h, MECHS))
    return plan


def correspondence(ctx, want_driver=True):
    torch, gpytorch = _import()
    sys.path.insert(0, os.path.join(C.VERIF, "harness"))
    _register_families()
    driver = [] if want_driver else None
    covered, exact_cov = set(), set()
    unknown = set()
    fam_time = {}
    T = C.Timer()
    plan = _plan(ctx)
    built, ok_fam = set(), set()
    import time
    c0 = time.process_time()
    sspy = SettingsSpy()
    sspy.__enter__()
    try:
        _main_loop(ctx, plan, built, ok_fam, covered, exact_cov, unknown, fam_time, driver, T, sspy)
    finally:
        sspy.__exit__(None, None, None)
    t_main, c_main = T(), time.process_time()
    _shared_args_phase(ctx, plan)
    t_shared, c_shared = T(), time.process_time()
    _used_under_phase(ctx, plan, sspy.seen)
    ctx.notes["phase_seconds"] = {"main": round(t_main, 1), "shared_args+read_spy": round(t_shared - t_main, 1),
                                  "used_under": round(T() - t_shared, 1)}
    ctx.notes["phase_cpu_seconds"] = {"main": round(c_main - c0, 1), "shared_args+read_spy": round(c_shared - c_main, 1),
                                      "used_under": round(time.process_time() - c_shared, 1)}
    _check_torch_names(ctx)
    try:
        _default_pairs(ctx)
    except Exception as e:
        ctx.broke("correspondence", "default-pairs", f"{type(e).__name__}: {e}\n" + traceback.format_exc()[-800:])
    _lazy_rff(ctx)
    _legacy_keys(ctx)
    _finish(ctx, built, ok_fam, covered, exact_cov, unknown, fam_time, driver, want_driver)


def _main_loop(ctx, plan, built, ok_fam, covered, exact_cov, unknown, fam_time, driver, T, sspy):
    for fname, seed, ops, mechs in plan:
        sspy.current = fname
        t1 = T()
        if fname not in built:
            built.add(fname)
            try:
                b0 = FAMILIES[fname][0](V(0, seed))
                for m in b0.top.modules():
                    exact_cov.add(type(m))
                    for c in type(m).__mro__:
                        covered.add(c)
                _check_table_against(ctx, b0.top, unknown)
            except Exception as e:
                ctx.broke("correspondence", f"family:{fname}", f"construction failed: {type(e).__name__}: {e}\n"
                          + traceback.format_exc()[-1200:])
                continue
        # driver lines only for a subset of save points (every family: the longest prefix)
        dl = driver if (driver is not None and (len(ops) in (0, 4) or not ctx.quick)) else None
        dv = "nodiverge" not in mechs
        mechs = tuple(m for m in mechs if m != "nodiverge")
        res = check_savepoint(ctx, fname, seed, ops, mechs, driver=dl, diverge=dv)
        if res is not None:
            ok_fam.add(fname)
        fam_time[fname] = fam_time.get(fname, 0.0) + (T() - t1)
    sspy.current = None


def _shared_args_phase(ctx, plan):
    """every family once (the history of its divergence save point), under the `__getattribute__` spy"""
    fams = {}
    for fname, seed, ops, mechs in plan:
        fams.setdefault(fname, seed)
    canon = canonical_history(ctx.tier)
    spy = ReadSpy()
    with spy:
        for fname, seed in fams.items():
            try:
                check_shared_args(ctx, fname, seed, canon[:2] if ctx.quick else canon[:4])
            except Exception as e:
                ctx.broke("correspondence", f"shared-args:{fname}", f"{type(e).__name__}: {e}\n" + traceback.format_exc()[-1000:])
    check_read_sets(ctx, spy)


def torch_float32():
    import torch
    return torch.float32


def _used_under_phase(ctx, plan, seen):
    """(setting, family) pairs: every setting that some family consults, with families that consult it"""
    tr = _state.get("tr")
    static = set(getattr(tr, "settings_anywhere", ()) or ())
    rng = ctx.rng("used-under")
    seeds = {}
    for fname, seed, ops, mechs in plan:
        seeds.setdefault(fname, seed)
    readers = {}
    for f, names in seen.items():
        for n in names:
            readers.setdefault(SETTING_PARTS.get(n, n), []).append(f)
    canon = canonical_history(ctx.tier)
    skipped, done = {}, {}
    for sname in sorted(readers):
        env = _env_factory(sname)
        if env is None:
            skipped[sname] = SETTINGS_SKIP.get(sname, "no non-default instance can be formed")
            continue
        fams = sorted(readers[sname])
        k = (3 if sname in static else 1) if ctx.quick else (10 if sname in static else 4)
        for fname in rng.sample(fams, min(k, len(fams))):
            ops = canon[:4] if ctx.quick else rng.choice([canon[:2], canon[:4], canon[:6], canon[:4] + ["prior", "fwd"]])
            try:
                res = check_used_under(ctx, fname, seeds[fname], ops, sname, env)
            except Exception as e:
                ctx.broke("correspondence", f"used-under:{sname}:{fname}", f"{type(e).__name__}: {e}\n"
                          + traceback.format_exc()[-1000:])
                continue
            if res is not None:
                done.setdefault(sname, []).append(fname)
    # another floating point type as environment (values after float32 use are exactly representable in float64)
    fams = sorted(seeds)
    kd = 6 if ctx.quick else 30
    for fname in rng.sample(fams, min(kd, len(fams))):
        try:
            res = check_used_under(ctx, fname, seeds[fname], canon[:4], "dtype=float32", DtypeEnv(torch_float32()))
        except Exception as e:
            ctx.broke("correspondence", f"used-under:dtype:{fname}", f"{type(e).__name__}: {e}\n" + traceback.format_exc()[-1000:])
            continue
        if res is not None:
            done.setdefault("dtype=float32", []).append(fname)
    never = sorted(n for n in static if n not in readers)
    ctx.notes["used_under"] = {"settings_consulted_dynamically": len(readers), "settings_read_statically": len(static),
                               "exercised": {k_: len(v) for k_, v in sorted(done.items())},
                               "skipped": skipped, "history_failed_under": _state.get("env_failed", {}),
                               "static_but_consulted_by_no_family": never}
    unexercised = sorted(n for n in readers if n in static and n not in done and n not in skipped)
    if unexercised:
        ctx.broke("correspondence", "used-under-coverage", "settings that the package reads lazily and some family consults, "
                  f"but no used-under case completed for them: {unexercised}")


def _finish(ctx, built, ok_fam, covered, exact_cov, unknown, fam_time, driver, want_driver):
    for fname in sorted(built - ok_fam):
        if not any(n == f"family:{fname}" for _, n, _ in ctx.broken):
            ctx.broke("correspondence", f"family:{fname}", "every save point of this family was discarded as ill-conditioned")
    # coverage
    exp = _exported()
    cov = {}
    for name, cls in exp.items():
        short = name.split(".", 1)[1]
        if cls in exact_cov:
            cov[name] = "instance"
        elif cls in covered:
            cov[name] = "via-subclass"
        elif short in SKIPPED_CLASSES:
            cov[name] = "skipped: " + SKIPPED_CLASSES[short]
        else:
            cov[name] = "MISSING"
    missing = [n for n, s in cov.items() if s == "MISSING"]
    ctx.notes["class_coverage"] = {"exported_module_classes": len(exp),
                                   "instance": sum(s == "instance" for s in cov.values()),
                                   "via_subclass": sorted(n for n, s in cov.items() if s == "via-subclass"),
                                   "skipped": {n: s for n, s in cov.items() if s.startswith("skipped")},
                                   "missing": missing}
    ctx.notes["families"] = len(built)
    ctx.notes["family_seconds_top"] = sorted(((round(t, 1), f) for f, t in fam_time.items()), reverse=True)[:5]
    ctx.notes["not_carried_but_allowed"] = {k: sorted(v) for k, v in sorted(_state.get("allowed_seen", {}).items())}
    ctx.notes["dynamic_allow"] = {f"{k[0]}.{k[1]}": v for k, v in DYNAMIC_ALLOW.items()}
    if missing:
        ctx.broke("correspondence", "class-coverage", f"exported Module classes in no family and not skipped: {missing}")
    if unknown:
        ctx.broke("correspondence", "gen-table", "attributes of real instances unknown to the generated class table: "
                  + ", ".join(sorted(unknown)[:12]))
    if want_driver:
        try:
            _run_driver(ctx, driver)
        except RuntimeError as e:
            ctx.broke("correspondence", "driver", str(e)[-1500:])


def _lazy_rff(ctx):
    """RFFKernel(num_samples) without num_dims registers its random weights at the first forward: a fresh model of
    the same architecture has no such buffer until it has been called once.  Documented protocol: call the fresh model
    once (or pass num_dims) before load_state_dict; then the round trip must be exact."""
    torch, gpytorch = _import()
    fname = "exact/rff_lazy_weights"
    seed = 3
    try:
        b, _ = build_original(fname, seed, ["step", "eval", "predict"])
        obs_o, err = observe(b.rebind(pickle.loads(pickle.dumps(b.top))))
        f = build_fresh(fname, seed)
        apply_op(f, "fwd", 5)                      # materialises the buffer (with other random weights)
        f.top.load_state_dict(copy.deepcopy(b.top.state_dict()))
        f.top.train(b.top.training)
        obs_r, err_r = observe(f)
        ctx.case(f"{fname}|lazy-buffer|state_dict", sample={"family": fname, "note": "buffer registered at first forward"})
        for k, a in obs_o.items():
            ok, e_, _ = _close(a, obs_r.get(k, a * float("nan")))
            if not ok:
                ctx.fail(f"mismatch:{fname}:state_dict:{k}", f"lazily registered RFF weights: {k} differs by {e_:.3e}",
                         {"family": fname, "seed": seed, "ops": ["step", "eval", "predict"], "mechanism": "state_dict-lazy"})
        # strict load into a never-called fresh model is refused loudly (not silently wrong): record, do not fail
        f2 = build_fresh(fname, seed)
        try:
            f2.top.load_state_dict(copy.deepcopy(b.top.state_dict()))
            ctx.notes["rff_lazy_strict_load"] = "accepted"
        except RuntimeError as e:
            ctx.notes["rff_lazy_strict_load"] = "refused loudly: " + str(e).split("\n")[1].strip()[:120] if "\n" in str(e) else str(e)[:120]
    except Exception as e:
        ctx.broke("correspondence", f"family:{fname}", f"{type(e).__name__}: {e}\n" + traceback.format_exc()[-1000:])


def _default_pairs(ctx):
    """PROCESS-GLOBAL sharing: two objects of every exported Module class constructed independently with DEFAULT
    arguments (required ones from a small recipe table, no tensor shared) must contain no common module / parameter /
    buffer object, and loading a (perturbed) state dict into one must not move the other's state dict."""
    torch, gpytorch = _import()
    Kn = gpytorch.kernels
    recipes = {
        "num_tasks": lambda: 2, "num_dims": lambda: 2, "num_mixtures": lambda: 2, "grid_size": lambda: 4, "num_classes": lambda: 3,
        "num_features": lambda: 2, "vocab_size": lambda: 4, "num_samples": lambda: 4, "input_size": lambda: 2, "power": lambda: 2,
        "num_deltas": lambda: 4, "num_inducing_points": lambda: 3, "base_kernel": lambda: Kn.RBFKernel(),
        "data_covar_module": lambda: Kn.RBFKernel(), "base_kernels": lambda: [Kn.RBFKernel(), Kn.MaternKernel()],
        "base_means": lambda: gpytorch.means.ConstantMean(), "loc": lambda: 0.3, "scale": lambda: 1.2, "concentration": lambda: 2.0,
        "rate": lambda: 1.5, "a": lambda: 0.1, "b": lambda: 2.0, "low": lambda: 0.1, "high": lambda: 2.0, "n": lambda: 2,
        "eta": lambda: 1.5, "lower_bound": lambda: 0.1, "upper_bound": lambda: 2.0, "num_inducing": lambda: 3,
        "inducing_points": lambda: torch.rand(3, 2), "likelihood": lambda: gpytorch.likelihoods.GaussianLikelihood(),
        "noise": lambda: torch.rand(5) + 0.1, "targets": lambda: torch.tensor([0, 1, 1, 0, 2]), "num_locs": lambda: 5,
        "angle_prior": lambda: None, "radius_prior": lambda: None, "num_angular_weights": lambda: 3,
        "radial_base_kernel": lambda: Kn.RBFKernel(), "sd_prior": lambda: gpytorch.priors.SmoothedBoxPrior(0.1, 2.0),
        "mean": lambda: torch.zeros(2), "covariance_matrix": lambda: None, "nu": lambda: 3.0, "K": lambda: torch.eye(2),
        "kernels": lambda: [Kn.RBFKernel(), Kn.RBFKernel()], "max_degree": lambda: 2,
    }
    done, skipped = 0, []
    for name, cls in sorted(_exported().items()):
        if inspect.isabstract(cls):
            continue

        def make():
            sig = inspect.signature(cls.__init__)
            kw = {}
            for pn, par in list(sig.parameters.items())[1:]:
                if par.kind in (par.VAR_POSITIONAL, par.VAR_KEYWORD) or par.default is not par.empty:
                    continue
                if pn not in recipes:
                    raise LookupError(pn)
                kw[pn] = recipes[pn]()
            return cls(**kw)
        try:
            with warnings.catch_warnings():
                warnings.simplefilter("ignore")
                torch.manual_seed(1)
                a = make()
                torch.manual_seed(2)
                b_ = make()
        except Exception as e:
            skipped.append(f"{name}: {type(e).__name__} {str(e)[:40]}")
            continue
        done += 1
        cname = cls.__name__
        shared = _shared_objects(a, b_)
        if shared:
            ctx.fail(f"process-global:{_short_cls(b_, shared[0])}:{shared[0].rsplit('.', 1)[-1]}",
                     f"two independently default-constructed {cname} objects contain the SAME object at {shared[:3]} — a "
                     f"process-global default instance", {"mechanism": "default-pair", "class": name})
        try:
            sd_a0 = {k: v.detach().clone() for k, v in a.state_dict().items()}
            sd_b = {k: (v.detach() * 1.05 + 0.01 if v.is_floating_point() else v.detach().clone()) for k, v in b_.state_dict().items()}
            with warnings.catch_warnings():
                warnings.simplefilter("ignore")
                b_.load_state_dict(sd_b)
        except Exception:
            continue
        for k, v in sd_a0.items():
            w = a.state_dict()[k]
            if not torch.equal(torch.nan_to_num(w.detach().double()), torch.nan_to_num(v.double())):
                ctx.fail(f"process-global:{cname}:state_dict:{k.rsplit('.', 1)[-1]}",
                         f"two independently default-constructed {cname} objects: load_state_dict into one changed the "
                         f"other's entry {k}", {"mechanism": "default-pair", "class": name})
                break
        ctx.case(f"default-pair|{name}", nontrivial=True, sample={"class": name, "phase": "default-pair"})
    ctx.notes["default_pairs"] = {"classes_constructed_twice": done, "not_constructible_from_recipes": skipped}


def _legacy_keys(ctx):
    """The two legacy-key pre-hooks: a state dict written by an older version must still load."""
    torch, gpytorch = _import()
    try:
        # ConstantMean: `constant` (shape *batch x 1) was renamed to `raw_constant` (shape *batch)
        fname, seed = "exact/matern25", 5
        b, _ = build_original(fname, seed, ["setp", "step", "eval", "predict"])
        sd = copy.deepcopy(b.top.state_dict())
        old = type(sd)()
        for k, v in sd.items():
            if k.endswith("mean_module.raw_constant"):
                old[k[: -len("raw_constant")] + "constant"] = v.unsqueeze(-1)
            else:
                old[k] = v
        f = build_fresh(fname, seed)
        with warnings.catch_warnings():
            warnings.simplefilter("ignore")
            f.top.load_state_dict(old)
        f.top.train(b.top.training)
        obs_o, _ = observe(b)
        obs_r, err = observe(f)
        ctx.case("legacy/constant_mean|state_dict", sample={"family": fname, "note": "legacy key `constant`"})
        for k, a in obs_o.items():
            ok, e_, _ = _close(a, obs_r.get(k, a * float("nan")))
            if not ok:
                ctx.fail("legacy-key:ConstantMean", f"state dict with the legacy key `mean_module.constant`: {k} differs from "
                         f"the original by {e_:.3e}", {"family": fname, "seed": seed, "mechanism": "legacy-constant"})
                break
        # VariationalStrategy: a state dict without `updated_strategy` loads (flag becomes False; the parameters are
        # re-whitened at the next call by design, so no prediction equality is claimed)
        fname = "svgp/whitened_cholesky"
        b, _ = build_original(fname, seed, ["setp", "step"])
        sd = copy.deepcopy(b.top.state_dict())
        old = type(sd)((k, v) for k, v in sd.items() if not k.endswith("updated_strategy"))
        f = build_fresh(fname, seed)
        with warnings.catch_warnings():
            warnings.simplefilter("ignore")
            f.top.load_state_dict(old)
        ctx.case("legacy/updated_strategy|state_dict", sample={"family": fname, "note": "legacy: no updated_strategy key"})
        if bool(f.model.variational_strategy.updated_strategy.item()):
            ctx.fail("legacy-key:VariationalStrategy", "state dict without `updated_strategy`: the flag is not reset to False",
                     {"family": fname, "seed": seed, "mechanism": "legacy-updated-strategy"})
    except Exception as e:
        ctx.fail("legacy-key:load-error", f"loading a legacy-format state dict raised {type(e).__name__}: {str(e)[:300]}",
                 {"mechanism": "legacy"})


def search(ctx, broken):
    """The proof or the tie broke.  The spec oracle of `correspondence` involves no model, so whatever it reported is
    the failing input; if the correspondence did not run to the end, re-run it without the driver."""
    if ctx.failures:
        return
    if any(k == "correspondence" and n in ("driver",) for k, n, _ in broken) or not ctx.evaluations:
        correspondence(ctx, want_driver=False)


def replay(ctx, payload):
    """Re-run one recorded save point; True when it no longer fails."""
    sys.path.insert(0, os.path.join(C.VERIF, "harness"))
    case = payload["case"]
    _register_families()
    mech = case.get("mechanism")
    if mech == "state_dict-lazy":
        n = len(ctx.failures)
        _lazy_rff(ctx)
        return len(ctx.failures) == n
    if mech == "default-pair":
        n = len(ctx.failures)
        _default_pairs(ctx)
        key = payload.get("key")
        return not any((f_["key"] if isinstance(f_, dict) else f_[0]) == key for f_ in ctx.failures[n:]) if key else len(ctx.failures) == n
    if mech and mech.startswith("legacy"):
        n = len(ctx.failures)
        _legacy_keys(ctx)
        return len(ctx.failures) == n
    if case.get("phase") == "used-under":
        env = DtypeEnv(torch_float32()) if case["setting"] == "dtype=float32" else _env_factory(case["setting"])
        fails = check_used_under(ctx, case["family"], case["seed"], case["ops"], case["setting"], env, report=False)
        return fails is not None and (payload.get("key") not in fails if payload.get("key") else not fails)
    if case.get("phase") == "shared-args":
        fails = check_shared_args(ctx, case["family"], case["seed"], case["ops"], report=False)
        return fails is not None and (payload.get("key") not in fails if payload.get("key") else not fails)
    mechs = MECHS if mech not in MECHS else (mech,)
    fails = check_savepoint(ctx, case["family"], case["seed"], case["ops"], mechs, driver=None, report=False)
    key = payload.get("key")
    if fails is None:
        return False
    if key is None:
        return not fails
    return key not in fails

"""C01, wave 3: extra model zoo and object histories (private helper of harness/props/c01.py).

* Extended kernel zoo: every kernel family with `active_dims` (random subset of the input columns in random ORDER), at the
  leaf, on a ScaleKernel around the leaf, copied from the base kernel by ScaleKernel, on both operands of a sum / product,
  NESTED (active_dims on a ScaleKernel over a sum of kernels that have their own active_dims, which index into the outer
  selection), with ARD — including the kernels whose evaluation is a STRUCTURED LinearOperator (LinearKernel, RFFKernel,
  GridInterpolationKernel and ScaleKernel over them) and which bring their own prediction strategy (RFF, KISS-GP).
* `snapshot` / `changed`: the model's state_dict (parameters and buffers, among them every kernel's `active_dims`) — a
  prediction must not change it.
* picklable model classes (module level) so that an eval-mode model that has predicted can go through `pickle`.
* scenario runners used by c01.correspondence and c01.replay:
    repeat   predict three times on one object under one cell (2nd and 3rd call judged too)
    copy     eval -> predict -> copy.deepcopy / pickle round trip -> change the SOURCE (retrained / edited in place /
             load_state_dict) or the COPY (edited right after a deepcopy; retrained) -> BOTH objects are judged by their own
             closed-form conditional
    fantasy  the model RETURNED by get_fantasy_model (and by get_fantasy_model of that model) judged by the closed form of
             ITS OWN train data / prior / likelihood, under the cell it was built in and under another cell, nothing reset

Everything random comes from the `C.Rng` passed in; nothing here knows about the comparison (c01._compare).
"""
import copy
import pickle
import warnings

from props import _gpmodels as G

LEAVES = ["rbf", "matern0.5", "matern1.5", "matern2.5", "rq", "periodic", "linear", "poly2", "poly3", "rff", "grid"]
STRUCTURED = ["linear", "rff", "grid"]          # evaluate to a non-dense LinearOperator

EXT_KERNEL_KINDS = ([f"{k}[ad]" for k in LEAVES] +
                    [f"scale({k}[ad])" for k in STRUCTURED + ["rbf"]] +
                    [f"scale[ad]({k})" for k in STRUCTURED + ["matern2.5"]] +
                    ["sum[ad]", "prod[ad]", "nested[ad]", "nested-structured[ad]", "ard[ad]", "rff", "grid",
                     "scale(grid)"])
# the kinds every quick run contains (the structured families in every position of active_dims)
EXT_ALWAYS = ([f"{k}[ad]" for k in STRUCTURED] + [f"scale({k}[ad])" for k in STRUCTURED] +
              [f"scale[ad]({k})" for k in STRUCTURED] + ["nested[ad]", "nested-structured[ad]"])


def is_ext(kind):
    return kind in EXT_KERNEL_KINDS


def no_param_batch(kind):
    """RFF / grid-interpolation kernels are not built with a parameter batch here."""
    return "rff" in kind or "grid" in kind or kind.startswith("nested-structured")


# ------------------------------------------------------------------ kernel specs

def _dims(rng, d, kmin=1, kmax=None):
    """A random selection of input columns, in random order (not sorted: [2, 0] is legal and selects (x2, x0))."""
    kmax = kmax or max(1, d - 1)
    k = rng.randint(min(kmin, d), min(kmax, d))
    return rng.sample(range(d), k)


def kernel_spec_ext(rng, kind, d):
    if kind.endswith("[ad]") and kind[:-4] in LEAVES:
        leaf = kind[:-4]
        return {"k": leaf, "active_dims": _dims(rng, d, 1, 2 if leaf == "grid" else None)}
    if kind.startswith("scale(") and kind.endswith("[ad])"):
        leaf = kind[6:-5]
        return {"k": "scale", "base": {"k": leaf, "active_dims": _dims(rng, d, 1, 2 if leaf == "grid" else None)}}
    if kind.startswith("scale[ad]("):
        leaf = kind[10:-1]
        return {"k": "scale", "active_dims": _dims(rng, d, 1, 2 if leaf == "grid" else None), "base": {"k": leaf}}
    if kind == "sum[ad]":
        return {"k": "sum", "a": {"k": rng.choice(["rbf", "matern1.5", "rq", "periodic"]), "active_dims": _dims(rng, d)},
                "b": {"k": "scale", "base": {"k": rng.choice(["linear", "poly2", "matern0.5"]), "active_dims": _dims(rng, d)}}}
    if kind == "prod[ad]":
        return {"k": "prod", "a": {"k": rng.choice(["rbf", "matern2.5", "rq"]), "active_dims": _dims(rng, d)},
                "b": {"k": rng.choice(["linear", "periodic", "matern1.5"]), "active_dims": _dims(rng, d)}}
    if kind in ("nested[ad]", "nested-structured[ad]"):
        outer = _dims(rng, d, 2, d)                      # size >= 2 (a permutation of all columns when it is d)
        k = len(outer)
        inner_a = rng.choice(["rbf", "matern1.5", "rq"])
        inner_b = rng.choice(["linear", "poly2"]) if kind == "nested[ad]" else rng.choice(["rff", "linear"])
        return {"k": "scale", "active_dims": outer,
                "base": {"k": "sum", "a": {"k": inner_a, "active_dims": _dims(rng, k, 1, k - 1)},
                         "b": {"k": inner_b, "active_dims": _dims(rng, k, 1, k - 1)}}}
    if kind == "ard[ad]":
        return {"k": rng.choice(["rbf", "matern2.5", "rq"]), "ard": True, "active_dims": _dims(rng, d, 2, d)}
    if kind in ("rff", "grid"):
        return {"k": kind}
    if kind == "scale(grid)":
        return {"k": "scale", "base": {"k": "grid"}}
    raise ValueError(kind)


def kernel_expr_ext(spec):
    k = spec["k"]
    ad = spec.get("active_dims")
    tag = ("[ard]" if spec.get("ard") else "") + (f"[dims={list(ad)}]" if ad is not None else "")
    if k == "scale":
        return f"scale{tag}({kernel_expr_ext(spec['base'])})"
    if k in ("sum", "prod"):
        return f"({kernel_expr_ext(spec['a'])}{'+' if k == 'sum' else '*'}{kernel_expr_ext(spec['b'])}){tag}"
    return k + tag


def make_kernel_ext(rng, spec, d, batch_shape):
    """Instantiate `spec` (the vocabulary of _gpmodels._make_kernel + rff / grid + `active_dims` on every node) with random
    hyperparameters (recorded into spec['hp']).  `d` = number of input columns this node sees."""
    import torch
    import gpytorch.kernels as K
    bs = torch.Size(batch_shape)
    k = spec["k"]
    kw = {"batch_shape": bs}
    ad = spec.get("active_dims")
    if ad is not None:
        kw["active_dims"] = tuple(ad)
    dd = len(ad) if ad is not None else d
    if spec.get("ard"):
        kw["ard_num_dims"] = dd
    ls_shape = (*batch_shape, 1, dd if spec.get("ard") else 1)
    hp = {}
    if k == "rbf":
        ker = K.RBFKernel(**kw)
    elif k.startswith("matern"):
        ker = K.MaternKernel(nu=float(k[6:]), **kw)
    elif k == "rq":
        ker = K.RQKernel(**kw)
        a = G._rand_tensor(rng, (*batch_shape, 1), 0.5, 3.0)
        ker.alpha = a
        hp["alpha"] = a.tolist()
    elif k == "periodic":
        ker = K.PeriodicKernel(**kw)
        pl = G._rand_tensor(rng, (*batch_shape, 1, 1), 1.0, 3.0)
        ker.period_length = pl
        hp["period_length"] = pl.tolist()
    elif k == "linear":
        ker = K.LinearKernel(**kw)
        v = G._rand_tensor(rng, (*batch_shape, 1, 1), 0.3, 1.5)
        ker.variance = v
        hp["variance"] = v.tolist()
    elif k in ("poly2", "poly3"):
        ker = K.PolynomialKernel(power=int(k[4:]), **kw)
        o = G._rand_tensor(rng, (*batch_shape, 1), 0.3, 1.5)
        ker.offset = o
        hp["offset"] = o.tolist()
    elif k == "rff":
        ns = rng.randint(3, 5)
        kw.pop("batch_shape")
        ker = K.RFFKernel(num_samples=ns, num_dims=dd, **kw)          # weights drawn here (torch RNG seeded by the caller)
        hp["num_samples"] = ns
    elif k == "grid":
        gs = rng.randint(6, 9)
        kw.pop("batch_shape")
        base = K.RBFKernel() if rng.random() < 0.5 else K.MaternKernel(nu=2.5)
        ker = K.GridInterpolationKernel(base, grid_size=gs, num_dims=dd, grid_bounds=[(-2.0, 2.0)] * dd, **kw)
        ls = G._rand_tensor(rng, (1, 1), 0.6, 2.0)
        base.lengthscale = ls
        hp.update(grid_size=gs, base=type(base).__name__, base_lengthscale=ls.tolist())
    elif k == "scale":
        base = make_kernel_ext(rng, spec["base"], dd, batch_shape)
        ker = K.ScaleKernel(base, **kw)
        o = G._rand_tensor(rng, tuple(batch_shape), 0.5, 2.0)
        ker.outputscale = o
        hp["outputscale"] = o.tolist()
    elif k in ("sum", "prod"):
        a, b = make_kernel_ext(rng, spec["a"], dd, batch_shape), make_kernel_ext(rng, spec["b"], dd, batch_shape)
        ker = (K.AdditiveKernel if k == "sum" else K.ProductKernel)(a, b)
        if ad is not None:
            ker.active_dims = torch.tensor(list(ad), dtype=torch.long)
    else:
        raise ValueError(k)
    if getattr(ker, "has_lengthscale", False) and k not in ("grid",):
        ls = G._rand_tensor(rng, ls_shape, 0.6, 2.0)
        ker.lengthscale = ls
        hp["lengthscale"] = ls.tolist()
    spec["hp"] = hp
    return ker


# data batch shapes with size-1 dimensions in leading / interior / trailing position (modules unbatched): every one of
# them broadcasts, so the property quantifies over them
ND_BATCH_SHAPES = [(2, 1, 1), (3, 1, 2), (1, 2), (2, 1), (1, 1, 2), (1,), (2, 1, 2), (1, 3, 1), (1, 1), (2, 2, 1)]


def nd_test_batch(rng, bshape):
    """A test-input batch shape that broadcasts with the train batch shape: the same / none / trailing part / some
    dimensions replaced by 1."""
    mode = rng.choice(["same", "none", "tail", "ones"])
    if mode == "same":
        return tuple(bshape)
    if mode == "none":
        return ()
    if mode == "tail":
        return tuple(bshape[rng.randint(0, len(bshape) - 1):])
    return tuple(1 if rng.random() < 0.5 else k for k in bshape)


def build_exact_gp_ext(rng, n=None, d=None, kernel_kind=None, mean_kind=None, lik_kind=None, batch_kind=None, b=None,
                       n_max=12, bshape=None):
    """As _gpmodels.build_exact_gp, for the kinds of EXT_KERNEL_KINDS (d in {2, 3} so that active_dims matter) and —
    with `bshape` — for data batches of any shape (batch kind 'data-nd': inputs (*bshape, n, d), targets (*bshape, n),
    unbatched modules; the kernel may then also be one of _gpmodels' kinds)."""
    import torch
    torch.manual_seed(rng.torch_seed())
    n = n or rng.randint(2, n_max)
    d = d or rng.randint(2, 3)
    if bshape is not None:
        batch_kind = "data-nd"
        n = min(n, 6)
    if kernel_kind in ("grid", "scale(grid)"):
        d = 2                                # no active_dims: the grid lives on all input columns (keep it 2-d)
    mean_kind = mean_kind or rng.choice(G.MEAN_KINDS)
    lik_kind = lik_kind or rng.choice(G.LIK_KINDS)
    batch_kind = batch_kind or rng.choice(G.BATCH_KINDS)
    if batch_kind == "model" and no_param_batch(kernel_kind):
        batch_kind = "data"
    b = b or rng.randint(2, 3)
    if batch_kind == "model" and n == b:
        n = n + 1
    param_batch = (b,) if batch_kind == "model" else ()
    x_batch = (b,) if batch_kind == "data" else ()
    y_batch = (b,) if batch_kind in ("model", "data") else ()
    if batch_kind == "data-nd":
        x_batch = y_batch = tuple(bshape)
    if is_ext(kernel_kind):
        spec = kernel_spec_ext(rng, kernel_kind, d)
        covar = make_kernel_ext(rng, spec, d, param_batch)
        expr = kernel_expr_ext(spec)
    else:
        spec = G._kernel_spec(rng, kernel_kind, d)
        covar = G._make_kernel(rng, spec, d, param_batch)
        expr = G.kernel_expr(spec)
    mean = G._make_mean(rng, mean_kind, d, param_batch)
    train_x = G._rand_tensor(rng, (*x_batch, n, d), -1.5, 1.5)
    train_y = G._rand_tensor(rng, (*y_batch, n), -1.5, 1.5)
    lik, _ = G._make_likelihood(rng, lik_kind, n, y_batch if batch_kind in ("data", "data-nd") else (), param_batch)
    model = G._exact_gp_class()(train_x, train_y, lik, mean, covar)
    model.double()
    lik.double()
    model.eval()
    lik.eval()
    desc = {"family": "single", "n": n, "d": d, "kernel": expr, "kernel_kind": kernel_kind,
            "kernel_spec": spec, "mean": mean_kind, "lik": lik_kind, "batch": batch_kind,
            "b": b if batch_kind not in ("none", "data-nd") else 0, "tasks": 1}
    if batch_kind == "data-nd":
        desc["bshape"] = list(bshape)
    return model, lik, train_x, train_y, desc


# ------------------------------------------------------------------ state that a prediction must leave alone

def snapshot(model):
    """Parameters and buffers of the model (likelihood included): name -> private copy.  Every kernel's `active_dims` is
    a buffer, so a kernel that loses / changes its active_dims shows as a missing / changed key."""
    return {k: v.detach().clone() for k, v in model.state_dict().items()}


def changed(model, snap):
    """Names whose value differs from the snapshot (or that appeared / disappeared)."""
    import torch
    now = model.state_dict()
    out = []
    for k in sorted(set(snap) | set(now)):
        if k not in now:
            out.append((k, "disappeared", snap[k].tolist() if snap[k].numel() <= 8 else "…"))
        elif k not in snap:
            out.append((k, "appeared", now[k].tolist() if now[k].numel() <= 8 else "…"))
        elif snap[k].shape != now[k].shape or not torch.equal(snap[k], now[k].detach()):
            out.append((k, "changed", None))
    return out


# ------------------------------------------------------------------ picklable classes

def _define_models():
    import gpytorch
    g = globals()
    if "PExactGP" in g:
        return

    class PExactGP(gpytorch.models.ExactGP):
        def __init__(self, train_x, train_y, likelihood, mean_module, covar_module):
            super().__init__(train_x, train_y, likelihood)
            self.mean_module = mean_module
            self.covar_module = covar_module

        def forward(self, x):
            return gpytorch.distributions.MultivariateNormal(self.mean_module(x), self.covar_module(x))

    class PMultitaskGP(gpytorch.models.ExactGP):
        def __init__(self, train_x, train_y, likelihood, mean_module, covar_module):
            super().__init__(train_x, train_y, likelihood)
            self.mean_module = mean_module
            self.covar_module = covar_module

        def forward(self, x):
            return gpytorch.distributions.MultitaskMultivariateNormal(self.mean_module(x), self.covar_module(x))

    for cls in (PExactGP, PMultitaskGP):
        cls.__qualname__ = cls.__name__
        cls.__module__ = __name__
        g[cls.__name__] = cls


def make_picklable(model, desc):
    """Give the model object a module-level class with the same `forward` (pickle cannot find a class defined inside a
    function).  Nothing else about the object changes."""
    _define_models()
    model.__class__ = globals()["PMultitaskGP" if desc["tasks"] > 1 else "PExactGP"]
    return model


# ------------------------------------------------------------------ scenarios

REPEAT_LABELS = ("call-2", "call-3")
COPY_OPS = ("deepcopy>source-retrained", "deepcopy>source-edited", "deepcopy>source-loaded", "deepcopy>copy-edited",
            "pickle>source-retrained", "pickle>source-edited", "pickle>copy-retrained")
FANTASY_LABELS = ("fantasy", "fantasy@other-cell", "fantasy>fantasy")


def _touch(model, test_x, cell):
    """One eval-mode prediction that fills every cache the cell uses."""
    with warnings.catch_warnings(), G.enter_cell(cell):
        warnings.simplefilter("ignore")
        p = model(test_x)
        p.mean, p.covariance_matrix, p.variance
        ps = model.prediction_strategy
        if cell["fast"] and not cell["skip"] and type(ps).__name__ == "DefaultPredictionStrategy":
            ps.covar_cache
    return p


def _move_params(rng, module):
    import torch
    with torch.no_grad():
        for prm in module.parameters():
            prm.add_(G._rand_tensor(rng, tuple(prm.shape), -0.3, 0.3))


def copy_history(rng, model, desc, test_x, cell, op):
    """eval -> predict under `cell` -> copy -> change.  Returns [(who, object, judged?)] for who in ('copy', 'source'):
    the copy is always judged; the source is judged unless its parameters were edited in place in eval mode (outside the
    documented invalidation points, DESIGN §3)."""
    mech, change = op.split(">")
    G.reset_caches(model)
    _touch(model, test_x, cell)
    if mech == "deepcopy":
        cp = copy.deepcopy(model)
    else:
        make_picklable(model, desc)
        try:
            cp = pickle.loads(pickle.dumps(model))
        except Exception as e:      # what pickle can carry is C18's subject
            raise Rejected(f"pickle raised {type(e).__name__}: {str(e)[:120]}")
    judge_source = True
    if change == "source-retrained":       # more fitting on the source: train(); step; eval()
        model.train()
        model.likelihood.train()
        _move_params(rng, model)
        model.eval()
        model.likelihood.eval()
    elif change == "source-edited":        # hyperparameters of the source written in place (eval mode)
        _move_params(rng, model)
        judge_source = False
    elif change == "source-loaded":        # a checkpoint is loaded into the source (eval mode)
        sd = model.state_dict()
        names = [k for k, _ in model.named_parameters()]
        full = {k: v.detach().clone() for k, v in sd.items()}
        for k in names:
            full[k] = full[k] + G._rand_tensor(rng, tuple(full[k].shape), -0.3, 0.3)
        model.load_state_dict(full)
    elif change == "copy-edited":          # the fresh deep copy gets new hyperparameters before its first prediction
        _move_params(rng, cp)
    elif change == "copy-retrained":
        cp.train()
        cp.likelihood.train()
        _move_params(rng, cp)
        cp.eval()
        cp.likelihood.eval()
    else:
        raise ValueError(op)
    return [("copy", cp, True), ("source", model, judge_source)]


def fantasy_points(rng, model, desc, level):
    """Fantasy inputs / targets / call-time noise with the model's batch pattern (no extra fantasy batch dimension)."""
    tx, ty = model.train_inputs[0], model.train_targets
    t = desc["tasks"]
    m = rng.randint(1, 3) if level == 1 and t == 1 else 1      # (multitask: the real code accepts one fantasy point)
    yb = tuple(ty.shape[:-2] if t > 1 else ty.shape[:-1])
    # the fantasy inputs carry the batch shape of the targets (a parameter-batched model has unbatched train inputs;
    # get_fantasy_model reads an input with fewer batch dimensions than the targets as "one more fantasy batch")
    xf = G._rand_tensor(rng, (*yb, m, tx.shape[-1]), -1.5, 1.5)
    yf = G._rand_tensor(rng, (*yb, m, t) if t > 1 else (*yb, m), -1.5, 1.5)
    kw = {}
    if desc["lik"].startswith("fixed"):
        stored = model.likelihood.noise_covar.noise
        kw["noise"] = G._rand_tensor(rng, (*stored.shape[:-1], m), 0.05, 0.6)
    return xf, yf, kw


def fantasy_model(rng, model, desc, test_x, cell, level=1):
    """predict under `cell` (when the model has no strategy yet) -> get_fantasy_model under `cell`.
    Returns (fantasy model, its description)."""
    if model.prediction_strategy is None:
        _touch(model, test_x, cell)
    xf, yf, kw = fantasy_points(rng, model, desc, level)
    with warnings.catch_warnings(), G.enter_cell(cell):
        warnings.simplefilter("ignore")
        fm = model.get_fantasy_model(xf, yf, **kw)
    d2 = dict(desc)
    d2["n"] = fm.train_inputs[0].shape[-2]
    d2["fantasy_level"] = level
    return fm, d2


class Rejected(Exception):
    """The real code (or the scenario's precondition) refuses this configuration: counted, not a failure."""


# ------------------------------------------------------------------ call structure (ExactGP.__call__ around the algebra)

def recording_gp(train_x, train_y, tasks=0, nonmvn=False):
    """A small exact GP (RBF kernel, constant mean, Gaussian likelihood; float64) whose `forward` records the inputs it
    is called with (`model.seen`: list of tensors) — the only way to observe which inputs `ExactGP.__call__` hands to
    the prior.  `nonmvn`: forward returns something that is not a MultivariateNormal (for the settings.debug check)."""
    import torch
    import gpytorch

    class RecGP(gpytorch.models.ExactGP):
        def __init__(self, x, y, lik):
            super().__init__(x, y, lik)
            self.mean_module = gpytorch.means.ConstantMean()
            self.covar_module = gpytorch.kernels.RBFKernel()
            self.seen = []

        def forward(self, x):
            self.seen.append(x)
            if nonmvn:
                return torch.distributions.Normal(self.mean_module(x), torch.ones_like(self.mean_module(x)))
            return gpytorch.distributions.MultivariateNormal(self.mean_module(x), self.covar_module(x))

    lik = gpytorch.likelihoods.GaussianLikelihood()
    model = RecGP(train_x, train_y, lik).double()
    lik.double()
    model.mean_module.initialize(constant=0.3)
    model.covar_module.lengthscale = 0.9
    lik.noise = 0.2
    return model, lik

"""C14 — variational predictive q(f) and KL equal their closed forms for every strategy.

Tie: correspondence.  The real strategies (imported from $VERIF_REPO) are run in float64; for every batch
element the model's own dense Kzz / Kzx / Kxx / means / inducing points / variational parameters are shipped
as exact rationals to `lean/drivers/C14.lean`, which executes `GPVerif.Model.Variational` over ℚ — both the
code-path form (through the Cholesky factor L / the root R) and the property's closed form (through the
certified inverse of K̃ = Kzz + εI).  Irrational primitives (Cholesky factor of K̃, roots of S, the symmetric
root for CIQ) are supplied by mpmath at 300 bits and rounded to 2⁻²⁴⁰, and the driver reports the exact
residual ‖L Lᵀ − K̃‖∞, so the theorem instance "code path = closed form" is itself observed to ~1e-60.
Log-determinants: determinant exact from the driver (certified LDLᵀ), logarithm by mpmath.
"""
import ast
import itertools
import math
import os
import subprocess
import sys
from fractions import Fraction

from lib import common as C

ID = "C14"
PROP_MODULES = ["GPVerif.Props.C14"]
BUILD_TARGETS = ["GPVerif.Props.C14", "GPVerif.Model.Variational", "GPVerif.Gen.VariationalAlgebra", "GPVerif.Model.Proto"]
RULE = ("strategy x variational-distribution class x batch pattern (inducing points / parameters / data / kernel "
        "hyper-parameters) x kernel family x mean x jitter (default, 1e-10) x mode (eval: mean+full covariance+KL, "
        "train: mean+variances+KL); every batch element is one case, compared against the exact closed form; "
        "distinct = distinct (config, batch index, seed-derived parameters); non-trivial = q(u) != p(u), M>=2, n>=2; "
        "round 3: closed form from the constructor ARGUMENTS (jitter_val=0.0/0 by constructor and setter incl. cond(Kzz) "
        "1e5..1e6, learn_inducing_locations=False, explicit mean_init_std=0 with the initialisation path run), and copy "
        "histories (deepcopy / pickle / torch.save of the whole model, optionally after use, then new values for everything "
        "the copy or the original owns, both evaluated against their own closed forms)")
TRUSTED = ["kernel / mean evaluation of gpytorch (the dense Kzz, Kzx, Kxx, mX, mZ are read from the model itself: C05)",
           "mpmath 300-bit Cholesky / symmetric square root used as the *specification* of the irrational primitives "
           "(residual reported exactly by the driver)",
           "cubic interpolation weights of GridInterpolationVariationalStrategy._compute_grid (C09)"]
ASSUMPTIONS = ["linear_operator primitives (psd_safe_cholesky, triangular solve, CholLinearOperator.solve, "
               "root_decomposition, inv_quad_logdet, sqrt_inv_matmul) meet their contracts to float64 rounding",
               "KL(Delta(m) || p) is *defined* by the code as -log p(m) (registered KL); batch-decoupled KL is the sum "
               "KL(Delta(m)||p) + KL(N(0,S)||p) of Jankowiak et al."]
EXHAUSTIVE = False

sys.set_int_max_str_digits(0)   # exact rationals of a few thousand digits travel between harness and driver
GEN = os.path.join(C.LEAN_DIR, "GPVerif", "Gen", "VariationalAlgebra.lean")
PREC = 240           # bits kept when an irrational primitive is rounded to a rational
COND_MAX = 1e7
_state = {}


def generate(ctx):
    """Translator G7: regenerate Gen/VariationalAlgebra.lean (matrix algebra of the whitened / unwhitened strategies and
    the KL call) from $VERIF_REPO; out-of-vocabulary source raises (broken tie)."""
    sys.path.insert(0, os.path.join(C.VERIF, "harness"))
    from translate import g7_variational_algebra as g7
    t, changed = g7.generate(C.REPO, GEN)
    ctx.notes["gen_changed"] = changed
    ctx.notes["gen_unwhitened_prior_jitter"] = str(t["uPriorJitter"])
    ctx.notes["gen_unwhitened_forward_jitter"] = str(t["uForwardJitter"])
    ctx.notes["gen_kl_args"] = t["klArgs"]


# ------------------------------------------------------------------ exact helpers

def F(x):
    return C.frac(x)


def fmat(t):
    """2-D tensor/array/list -> list of lists of Fractions."""
    rows = t.tolist() if hasattr(t, "tolist") else t
    return [[F(v) for v in row] for row in rows]


def fcol(t):
    vals = t.tolist() if hasattr(t, "tolist") else list(t)
    return [[F(v)] for v in vals]


def toks(Mx):
    r = len(Mx)
    c = len(Mx[0]) if r else 0
    return f"{r} {c} " + " ".join(C.rat_str(v) for row in Mx for v in row)


def zeros(r, c):
    return [[Fraction(0)] * c for _ in range(r)]


def eye(n):
    return [[Fraction(int(i == j)) for j in range(n)] for i in range(n)]


def madd(A, B, s=1):
    return [[a + s * b for a, b in zip(ra, rb)] for ra, rb in zip(A, B)]


def mmul(A, B):
    Bt = list(zip(*B))
    return [[sum(a * b for a, b in zip(row, col)) for col in Bt] for row in A]


def mT(A):
    return [list(r) for r in zip(*A)]


def sym_lower(A):
    """Symmetric matrix read off the lower triangle (what a Cholesky factorisation reads); float kernel
    matrices are symmetric only up to one ulp."""
    return [[A[max(i, j)][min(i, j)] for j in range(len(A))] for i in range(len(A))]


def add_jit(A, e):
    return [[v + (e if i == j else 0) for j, v in enumerate(row)] for i, row in enumerate(A)]


def _mp():
    import mpmath as mp
    mp.mp.prec = 300
    return mp


def to_frac(x):
    mp = _mp()
    return Fraction(int(mp.nint(mp.ldexp(x, PREC))), 1 << PREC)


def mpf(q):
    mp = _mp()
    return mp.mpf(q.numerator) / mp.mpf(q.denominator)


def hp_chol(A):
    """Lower Cholesky factor of an exact symmetric PD rational matrix, rounded to 2^-PREC."""
    mp = _mp()
    n = len(A)
    L = [[mp.mpf(0)] * n for _ in range(n)]
    for i in range(n):
        for j in range(i + 1):
            s = mpf(A[i][j]) - sum(L[i][k] * L[j][k] for k in range(j))
            if i == j:
                if s <= 0:
                    raise ValueError("hp_chol: not positive definite")
                L[i][j] = mp.sqrt(s)
            else:
                L[i][j] = s / L[j][j]
    return [[to_frac(v) for v in row] for row in L]


def hp_sym_sqrt(A):
    """Symmetric PD square root (for CIQ: K^{1/2}), rounded to 2^-PREC."""
    mp = _mp()
    n = len(A)
    Am = mp.matrix(n, n)
    for i in range(n):
        for j in range(n):
            Am[i, j] = mpf(A[i][j])
    E, Qm = mp.eigsy(Am)
    R = Qm * mp.diag([mp.sqrt(E[i]) for i in range(n)]) * Qm.T
    R = (R + R.T) / 2
    return [[to_frac(R[i, j]) for j in range(n)] for i in range(n)]


def log_frac(q):
    mp = _mp()
    return mp.log(mpf(q))


def fl(Mx):
    return [[float(v) for v in row] for row in Mx]


# ------------------------------------------------------------------ interactive driver

class DriverDead(Exception):
    """The Lean driver process cannot be started or died (and no fallback is left)."""


class DriverFail(Exception):
    pass


class Driver:
    """Interactive line driver.  `fallback` names a second driver file (hand-written model only) that takes over —
    at start-up or in the middle of a run — when the primary one cannot run (e.g. a generated module no longer builds);
    the request that hit the dead process is re-sent, so no case is lost and a broken pipe never aborts the run."""

    def __init__(self, name="C14", fallback=None, ctx=None):
        self.name, self.fallback, self.ctx = name, fallback, ctx
        self.n = 0
        self.p = None
        self._start(name)

    def _start(self, name):
        self.name = name
        self.p = subprocess.Popen(["lake", "env", "lean", "--run", f"drivers/{name}.lean"], cwd=C.LEAN_DIR,
                                  stdin=subprocess.PIPE, stdout=subprocess.PIPE, stderr=subprocess.PIPE,
                                  text=True, bufsize=1)

    def _ask(self, line):
        try:
            self.p.stdin.write(line + "\n")
            self.p.stdin.flush()
        except (BrokenPipeError, OSError, ValueError) as e:
            raise DriverDead(f"driver {self.name}: {e!r}; stderr={self._stderr()}")
        while True:
            rep = self.p.stdout.readline()
            if rep == "":
                raise DriverDead(f"driver {self.name} died: {self._stderr()}")
            rep = rep.rstrip("\n")
            if rep.startswith("ok") or rep.startswith("fail"):
                return rep
            if not C._is_lean_diag(rep):
                if "error" in rep:
                    raise DriverDead(f"driver {self.name}: {rep[:300]}")
                raise RuntimeError(f"driver: unexpected output {rep[:300]}")

    def _stderr(self):
        try:
            self.p.kill()
            return (self.p.stdout.read() + self.p.stderr.read())[-1200:]
        except Exception:
            return ""

    def ask(self, line):
        """Returns list of matrices (lists of lists of Fractions); raises DriverFail on a `fail …` reply and DriverDead
        when neither the driver nor its fallback runs."""
        try:
            rep = self._ask(line)
        except DriverDead as e:
            if not self.fallback:
                raise
            if self.ctx is not None:
                self.ctx.broke("correspondence", f"driver-{self.name}-does-not-run", str(e)[-800:])
            fb, self.fallback = self.fallback, None
            self._start(fb)
            rep = self._ask(line)
        self.n += 1
        if rep.startswith("fail"):
            raise DriverFail(rep)
        t = rep.split()[1:]
        out, pos = [], 0
        while pos < len(t):
            m, pos = C.parse_mat(t, pos)
            out.append(m)
        return out

    def close(self):
        try:
            self.p.stdin.close()
            self.p.wait(timeout=30)
        except Exception:
            try:
                self.p.kill()
            except Exception:
                pass


def open_driver(ctx):
    """The C14 driver evaluates the code path through the GENERATED definitions; when it cannot run (at start-up or
    later) the hand-written fallback driver `C14spec` keeps the closed-form oracle available, so every case is still
    judged against the specification."""
    drv = Driver("C14", fallback="C14spec", ctx=ctx)
    drv.ask("DM 1 1 1 2")
    return drv


def sc(m):
    """1x1 matrix -> Fraction, 0x0 -> None."""
    return m[0][0] if m else None


DOC_JITTER_F64 = 1e-6    # documented default of `jitter_val` in float64 (settings.variational_cholesky_jitter: 1e-4 / 1e-6)


def jitter_of_args(arg):
    """ε the strategy must use, computed from the constructor ARGUMENT (`None` -> the documented float64 default) and
    never from `strategy.jitter_val` read back: a getter that mangles a falsy / boundary value (`jitter_val=0.0`) would
    hand the same wrong value to a reference that reads the attribute."""
    return F(DOC_JITTER_F64 if arg is None else float(arg))


# ------------------------------------------------------------------ model zoo (real code)

def make_gp(cfg, Z, dist_cls, dist_batch, strat_kwargs=None):
    import gpytorch
    import torch
    V = gpytorch.variational
    kb = torch.Size(cfg.get("kb", []))
    M = Z.shape[-2]
    dkw = {"mean_init_std": cfg["mean_init_std"]} if "mean_init_std" in cfg else {}
    dist = getattr(V, dist_cls)(M, batch_shape=torch.Size(dist_batch), **dkw)
    strat_cls = getattr(V, cfg["strategy"])
    kw = dict(strat_kwargs or {})
    if cfg.get("jitter") is not None and cfg.get("jitter_via") != "setter":
        kw["jitter_val"] = cfg["jitter"]
    learn = bool(cfg.get("learn_Z", True))

    class GP(gpytorch.models.ApproximateGP):
        def __init__(self):
            vs = strat_cls(self, Z, dist, learn_inducing_locations=learn, **kw)
            super().__init__(vs)
            if cfg.get("mean", "const") == "const":
                self.mean_module = gpytorch.means.ConstantMean(batch_shape=kb)
            elif cfg["mean"] == "linear":
                self.mean_module = gpytorch.means.LinearMean(Z.shape[-1], batch_shape=kb)
            else:
                self.mean_module = gpytorch.means.ZeroMean(batch_shape=kb)
            if cfg.get("kernel", "rbf") == "rbf":
                base = gpytorch.kernels.RBFKernel(batch_shape=kb)
            else:
                base = gpytorch.kernels.MaternKernel(nu=2.5, batch_shape=kb)
            self.covar_module = gpytorch.kernels.ScaleKernel(base, batch_shape=kb)

        def forward(self, x):
            return gpytorch.distributions.MultivariateNormal(self.mean_module(x), self.covar_module(x))

    model = GP().double()
    if cfg.get("jitter") is not None and cfg.get("jitter_via") == "setter":
        model.variational_strategy.jitter_val = cfg["jitter"]       # the documented setter instead of the constructor
    return model, dist


def randomize_hypers(model, rng):
    import torch
    with torch.no_grad():
        ls = model.covar_module.base_kernel.lengthscale
        model.covar_module.base_kernel.lengthscale = torch.empty_like(ls).uniform_(0.7, 1.6)
        os_ = model.covar_module.outputscale
        model.covar_module.outputscale = torch.empty_like(os_).uniform_(0.5, 2.0)
        for p in model.mean_module.parameters():
            p.uniform_(-1.0, 1.0)


def spread_points(shape, rng, lo=-2.0, hi=2.0, min_dist=0.45):
    """Random points with a minimum pairwise distance (keeps Kzz well conditioned)."""
    import torch
    *b, k, d = shape
    out = torch.empty(*b, k, d, dtype=torch.float64)
    flat = out.view(-1, k, d)
    for bi in range(flat.shape[0]):
        pts = []
        tries = 0
        while len(pts) < k:
            p = [rng.uniform(lo, hi) for _ in range(d)]
            tries += 1
            md = min_dist if tries < 400 else 0.0
            if all(math.dist(p, q) >= md for q in pts):
                pts.append(p)
        flat[bi] = torch.tensor(pts, dtype=torch.float64)
    return out


def randomize_dist(dist, rng):
    """Random, well-conditioned variational parameters (junk in the masked upper triangle on purpose)."""
    import torch
    name = type(dist).__name__
    with torch.no_grad():
        if name == "CholeskyVariationalDistribution":
            dist.variational_mean.normal_()
            P = dist.chol_variational_covar
            P.normal_().mul_(0.4)
            d = P.diagonal(dim1=-2, dim2=-1)
            d.copy_(torch.empty_like(d).uniform_(0.5, 1.5) * torch.where(torch.rand_like(d) < 0.25, -1.0, 1.0))
        elif name == "MeanFieldVariationalDistribution":
            dist.variational_mean.normal_()
            s = dist._variational_stddev
            s.copy_(torch.empty_like(s).uniform_(0.4, 1.6) * torch.where(torch.rand_like(s) < 0.3, -1.0, 1.0))
        elif name == "DeltaVariationalDistribution":
            dist.variational_mean.normal_()
        elif name == "NaturalVariationalDistribution":
            dist.natural_vec.normal_()
            A = torch.randn_like(dist.natural_mat) * 0.4
            Pm = A @ A.transpose(-1, -2) + torch.eye(A.shape[-1], dtype=A.dtype)
            Pm = (Pm + Pm.transpose(-1, -2)) / 2
            dist.natural_mat.copy_(Pm.mul(-0.5))
        elif name == "TrilNaturalVariationalDistribution":
            dist.natural_vec.normal_()
            T = torch.randn_like(dist.natural_tril_mat).mul(0.4).tril(-1)
            dg = torch.empty_like(T.diagonal(dim1=-2, dim2=-1)).uniform_(0.6, 1.6)
            dist.natural_tril_mat.copy_(T + torch.diag_embed(dg))
        else:
            raise RuntimeError(f"unknown distribution {name}")


def bget(t, idx, nb_event):
    """Index the batch dims of `t` (all but the last nb_event dims) by the broadcast multi-index idx."""
    bs = t.shape[:t.dim() - nb_event]
    k = len(bs)
    sub = idx[len(idx) - k:] if k else ()
    sel = tuple(0 if s == 1 else i for s, i in zip(bs, sub))
    return t[sel] if sel else t


# ------------------------------------------------------------------ exact side: distributions

def exact_dist(drv, dist, idx):
    """(m column, S, R root, hasS, kind) as Fractions for batch element idx of a variational distribution."""
    name = type(dist).__name__
    if name == "CholeskyVariationalDistribution":
        m = fcol(bget(dist.variational_mean.detach(), idx, 1))
        P = fmat(bget(dist.chol_variational_covar.detach(), idx, 2))
        S, R = drv.ask(f"DC {len(P)} {toks(P)}")
        return m, S, R, 1
    if name == "MeanFieldVariationalDistribution":
        m = fcol(bget(dist.variational_mean.detach(), idx, 1))
        s = fcol(bget(dist._variational_stddev.detach(), idx, 1))
        (S,) = drv.ask(f"DM {len(s)} {toks(s)}")
        R = [[abs(s[i][0]) if i == j else Fraction(0) for j in range(len(s))] for i in range(len(s))]
        return m, S, R, 1
    if name == "DeltaVariationalDistribution":
        m = fcol(bget(dist.variational_mean.detach(), idx, 1))
        k = len(m)
        return m, zeros(k, k), zeros(k, 1), 0
    if name == "NaturalVariationalDistribution":
        e1 = fcol(bget(dist.natural_vec.detach(), idx, 1))
        e2 = fmat(bget(dist.natural_mat.detach(), idx, 2))
        mu, S, b1, b2 = drv.ask(f"DN {len(e1)} {toks(e1)} {toks(e2)}")
        if b1 != e1 or b2 != e2:
            raise RuntimeError("model: natural round trip is not the identity")
        return mu, S, hp_chol(S), 1
    if name == "TrilNaturalVariationalDistribution":
        e1 = fcol(bget(dist.natural_vec.detach(), idx, 1))
        T = fmat(bget(dist.natural_tril_mat.detach(), idx, 2))
        mu, S = drv.ask(f"DT {len(e1)} {toks(e1)} {toks(T)}")
        return mu, S, hp_chol(S), 1
    raise RuntimeError(name)


# ------------------------------------------------------------------ comparison

class Cmp:
    """Collects |real - exact| against tolerance; reports through ctx.fail."""

    def __init__(self, ctx, key, desc, replay, kappa, dim):
        self.ctx, self.key, self.desc, self.replay = ctx, key, desc, replay
        self.slack = 64.0 * dim * max(kappa, 1.0) * 2.0 ** -52
        self.bad = []
        self.worst = 0.0

    def tol(self, scale):
        return (1e-9 + self.slack) * scale + 1e-12

    def mat(self, what, real, exact, scale=None):
        """real: nested list of floats; exact: nested list of Fractions (same shape)."""
        ex = fl(exact)
        if len(real) != len(ex) or any(len(a) != len(b) for a, b in zip(real, ex)):
            self.bad.append((what, "shape", [len(real), len(real[0]) if real else 0], [len(ex), len(ex[0]) if ex else 0]))
            return
        sc_ = scale if scale is not None else max([1.0] + [abs(v) for row in ex for v in row])
        err = max([0.0] + [abs(a - b) if a == a else float("inf") for ra, rb in zip(real, ex) for a, b in zip(ra, rb)])
        self.worst = max(self.worst, err / sc_)
        if not err <= self.tol(sc_):
            self.bad.append((what, err, self.tol(sc_)))

    def scalar(self, what, real, exact, scale=None):
        ex = float(exact)
        sc_ = scale if scale is not None else max(1.0, abs(ex))
        err = abs(real - ex) if real == real else float("inf")
        self.worst = max(self.worst, err / sc_)
        if not err <= self.tol(sc_):
            self.bad.append((what, err, self.tol(sc_), real, ex))

    def flush(self):
        for b in self.bad:
            what = b[0]
            self.ctx.fail(f"{self.key}/{what}",
                          f"{self.desc}: {what} differs from the closed form by {b[1]} (tolerance {b[2]})"
                          + (f" real={b[3]!r} exact={b[4]!r}" if len(b) > 3 and b[1] != "shape" else ""),
                          dict(self.replay, observable=what))
        return not self.bad


def add_jitter_default():
    import inspect
    from linear_operator.operators import LinearOperator
    return F(float(inspect.signature(LinearOperator.add_jitter).parameters["jitter_val"].default))


def report_kl(ctx, cmp_, what, real, klx, kl_code, known_key, other_key, desc, replay):
    """KL of a strategy whose prior may come from UnwhitenedVariationalStrategy.prior_distribution.
    Passes when it equals the closed form against the matrix the predictive uses; attributed to the recorded
    prior-jitter mismatch (known_key) only when it equals — to rounding — the closed form with the jitter the code
    actually puts into that prior; anything else is reported under other_key."""
    tol = cmp_.tol(max(1.0, abs(klx)))
    err = abs(real - klx) if real == real else float("inf")
    if err <= tol:
        cmp_.worst = max(cmp_.worst, err / max(1.0, abs(klx)))
        return
    if kl_code is not None and abs(real - kl_code) <= cmp_.tol(max(1.0, abs(kl_code))):
        ctx.fail(known_key, f"{desc}: {what} = {real!r}; closed-form KL against the matrix the predictive uses "
                 f"(jitter_val) = {klx!r}; it equals the KL against Kzz + add_jitter() default = {kl_code!r} "
                 "(prior_distribution and forward use different jitters)", dict(replay, observable=what))
        ctx.count("unwhitened_prior_jitter_mismatch")
        return
    ctx.fail(other_key, f"{desc}: {what} = {real!r} differs from the closed-form KL {klx!r} by {err} (tolerance {tol}); "
             f"not explained by the prior jitter (KL with the code's prior jitter: {kl_code!r})",
             dict(replay, observable=what))


def kl_mvn(R_, detS, detP):
    """0.5 * (rational part - log(detS/detP)) as float (mpmath log)."""
    return float((mpf(R_) - log_frac(detS) + log_frac(detP)) / 2)


def kl_delta(quad, detP, M):
    mp = _mp()
    return float((mpf(quad) + log_frac(detP) + M * mp.log(2 * mp.pi)) / 2)


# ------------------------------------------------------------------ one (strategy, config) run

DISTS = ["CholeskyVariationalDistribution", "MeanFieldVariationalDistribution", "DeltaVariationalDistribution",
         "NaturalVariationalDistribution", "TrilNaturalVariationalDistribution"]

# batch patterns: (name, Z batch, parameter batch, x batch, kernel batch)
PATTERNS = [
    ("none", [], [], [], []),
    ("params", [], [2], [], []),
    ("Z+params", [2], [2], [], []),
    ("Z-only", [2], [], [], []),
    ("x-only", [], [], [2], []),
    ("x+params", [], [2], [2], []),
    ("kernel+params", [], [2], [], [2]),
    ("kernel-only", [], [], [], [2]),
    ("2d", [2, 1], [2, 3], [], []),
    ("2d-x", [3], [3], [2, 1], []),
    ("all", [2], [2], [2], [2]),
    ("3d", [2, 1, 1], [2, 1, 2], [2, 1], []),
]


def joint_blocks(model, Zx, xx, M):
    """Dense blocks of the prior at [Z; x] exactly as the strategies slice them (lazy slicing, then to_dense)."""
    import torch
    with torch.no_grad():
        full = torch.cat([Zx, xx], dim=-2)
        out = model.forward(full)
        cov = out.lazy_covariance_matrix
        return (cov[..., :M, :M].to_dense(), cov[..., :M, M:].to_dense(), cov[..., M:, M:].to_dense(),
                out.mean[..., M:], out.mean[..., :M])


def expand_inputs(x, Z):
    import torch
    bs = torch.broadcast_shapes(Z.shape[:-2], x.shape[:-2])
    return x.expand(*bs, *x.shape[-2:]), Z.expand(*bs, *Z.shape[-2:])


def scale_to_condition(Z0, kernel, ls, os_, target):
    """Scale factor s such that cond(K(s·Z0)) is close to `target` for the stand-alone kernel with the given
    hyper-parameters (bisection in log s; the condition number grows as the points move together)."""
    import gpytorch
    import numpy as np
    import torch
    base = gpytorch.kernels.RBFKernel() if kernel == "rbf" else gpytorch.kernels.MaternKernel(nu=2.5)
    k = gpytorch.kernels.ScaleKernel(base).double()
    k.base_kernel.lengthscale = ls
    k.outputscale = os_

    def cond(s_):
        with torch.no_grad():
            return float(np.linalg.cond(k(Z0 * s_).to_dense().numpy()))
    lo, hi = math.log(0.005), math.log(20.0)
    for _ in range(40):
        mid = (lo + hi) / 2
        if cond(math.exp(mid)) > target:
            lo = mid
        else:
            hi = mid
    return math.exp(hi)


def build_basic(cfg, rng):
    """Model + variational distribution + inputs of one basic configuration (all randomness from rng); also returns
    the inducing-point tensor that was PASSED to the constructor."""
    import torch
    torch.manual_seed(rng.torch_seed())
    pname, zb, pb, xb, kb = next(p for p in PATTERNS if p[0] == cfg["pattern"])
    M, n, d = cfg["M"], cfg["n"], cfg["d"]
    Z = spread_points([*zb, M, d], rng)
    hy = None
    if cfg.get("cond_target"):
        # boundary cell: a moderately ill-conditioned Kzz (still fine for a float64 Cholesky) — with `jitter_val=0.0`
        # every spurious diagonal shift is then visible.  The hyper-parameters are fixed up front so that Z can be chosen.
        hy = (rng.uniform(0.8, 1.4), rng.uniform(0.6, 1.8))
        zscale = scale_to_condition(Z, cfg.get("kernel", "rbf"), hy[0], hy[1], cfg["cond_target"])
        Z = Z * zscale
    model, dist = make_gp(dict(cfg, kb=kb), Z, cfg["dist"], pb)
    vs = model.variational_strategy
    if cfg.get("x_eq_z") == "alias":
        x = vs.inducing_points            # the very same tensor object (same data_ptr), not an equal-valued copy
    elif cfg.get("x_eq_z"):
        x = Z.clone()
    else:
        x = spread_points([*xb, n, d], rng, lo=-2.5, hi=2.5, min_dist=0.2)
        if hy is not None:
            x = x * zscale     # inputs stay next to the (contracted) inducing set: Kzz⁻¹Kzx remains of moderate size
    randomize_hypers(model, rng)
    if hy is not None:
        model.covar_module.base_kernel.lengthscale = hy[0]
        model.covar_module.outputscale = hy[1]
    if not cfg.get("init"):
        vs.variational_params_initialized.fill_(1)
        randomize_dist(dist, rng)
    return model, dist, x, Z


# ------------------------------------------------------------------ copy histories

def strategies_of(model):
    from gpytorch.variational._variational_strategy import _VariationalStrategy
    return [m_ for m_ in model.modules() if isinstance(m_, _VariationalStrategy)]


def perturb_everything(model, rng):
    """New values for EVERYTHING the model owns: kernel / mean hyper-parameters, variational parameters, inducing points
    (not the fixed grid), LMC coefficients.  Done in training mode (the documented way to change parameters)."""
    import torch
    model.train()
    randomize_hypers(model, rng)
    with torch.no_grad():
        for st in strategies_of(model):
            d_ = st._modules.get("_variational_distribution")
            if d_ is not None:
                randomize_dist(d_, rng)
            if "inducing_points" in st._parameters or (
                    "inducing_points" in st._buffers and type(st).__name__ != "GridInterpolationVariationalStrategy"):
                st.inducing_points.add_(torch.empty_like(st.inducing_points).uniform_(-0.06, 0.06))
            if "lmc_coefficients" in st._parameters:
                st.lmc_coefficients.normal_()


def pickle_roundtrip(model, how):
    """pickle / torch.save round trip of the whole model.  The GP classes of the zoo are defined inside functions;
    they are registered under a module-level name for the duration of the round trip."""
    import io
    import pickle
    import torch
    cls = type(model)
    saved = (cls.__qualname__, cls.__module__)
    name = f"_C14GP_{id(cls)}"
    cls.__qualname__, cls.__module__ = name, __name__
    globals()[name] = cls
    try:
        if how == "pickle":
            return pickle.loads(pickle.dumps(model))
        buf = io.BytesIO()
        torch.save(model, buf)
        buf.seek(0)
        return torch.load(buf, weights_only=False)
    finally:
        cls.__qualname__, cls.__module__ = saved
        globals().pop(name, None)


def copy_step(ctx, cfg, model, x, rng):
    """Copy histories: build -> (use) -> deepcopy / pickle the WHOLE model -> give the copy or the original new values for
    everything it owns -> return the one to be evaluated.  The caller judges it against the closed form of ITS OWN
    parameters and modules, so each of the two objects must follow only its own state.  The two members of a pair
    (`eval` = copy / original) share one rng label, i.e. the identical build and history."""
    c = cfg.get("copy")
    if not c:
        return model
    import copy
    import torch
    for mode in c.get("pre_call", []):     # the model was already used: memoised q(u), p(u), chol(Kzz) exist
        model.train(mode == "train")
        with torch.no_grad():
            o = model(x)
            o.mean.sum().item()
            for st in strategies_of(model)[:1]:
                st.kl_divergence()
    clone = copy.deepcopy(model) if c["how"] == "deepcopy" else pickle_roundtrip(model, c["how"])
    perturb_everything(clone if c["modify"] == "copy" else model, rng)
    ctx.count(f"copy-history:{c['how']}/modify={c['modify']}/eval={c['eval']}")
    return clone if c["eval"] == "copy" else model


def apply_history(ctx, cfg, model, x, rng, drv=None, dist=None):
    """Op-then-use histories before the observed calls.  The closed form is always that of the parameters the model
    holds *now*; an eval-mode model that was already called has memoised q(u), p(u) and chol(Kzz)."""
    import torch
    h = cfg.get("history")
    if not h:
        return
    vs = model.variational_strategy

    def call(mode, xx):
        model.train(mode == "train")
        with torch.no_grad():
            o = model(xx)
            o.mean.sum().item()
            o.variance.sum().item()
            vs.kl_divergence()
    if h == "second-x":
        # an earlier eval-mode call with other inputs (different n, extra batch dimension)
        x2 = spread_points([2, cfg["n"] + 1, cfg["d"]], rng, lo=-2.5, hi=2.5, min_dist=0.2)
        call("eval", x2)
        return
    if h.startswith("load"):
        if "train-first" in h:
            call("train", x)
        call("eval", x)
        other, _, _, _ = build_basic(dict(cfg, x_eq_z=False), C.Rng(f"{C.seed()}:{cfg.get('rng_label')}:other"))
        sd = other.state_dict()
        if "old-format" in h:
            # checkpoint written before the whitened parameterisation: no `updated_strategy` flag; its variational
            # parameters describe q(u) = N(m, S) itself and are converted to whitened ones on the next call
            sd = {k: v for k, v in sd.items() if not k.endswith("updated_strategy")}
            import warnings
            with warnings.catch_warnings():
                warnings.simplefilter("ignore")
                model.load_state_dict(sd)
            out_batch = torch.broadcast_shapes(vs.inducing_points.shape[:-2], x.shape[:-2], dist.batch_shape)
            stash = {idx: exact_dist(drv, dist, idx) for idx in itertools.product(*[range(k) for k in out_batch])}
            ctx.count(f"history:{h}")
            return stash
        if "partial" in h:
            # everything of the strategy (parameters and buffers), none of the kernel / mean hyper-parameters
            sd = {k: v for k, v in sd.items() if k.startswith("variational_strategy.")}
            model.load_state_dict(sd, strict=False)
        elif "child" in h:
            # checkpoint of the strategy only, loaded on the child module
            pre = "variational_strategy."
            vs.load_state_dict({k[len(pre):]: v for k, v in sd.items() if k.startswith(pre)})
        else:
            model.load_state_dict(sd)
        ctx.count(f"history:{h}")
        return
    raise RuntimeError(f"unknown history {h}")


def unwhitened_prior_eps():
    """The jitter `UnwhitenedVariationalStrategy.prior_distribution` adds to Kzz, read from the source (AST): the
    `add_jitter()` default of linear_operator, `jitter_val`, or a literal."""
    src_ = open(os.path.join(C.REPO, "gpytorch/variational/unwhitened_variational_strategy.py")).read()
    for node in ast.walk(ast.parse(src_)):
        if isinstance(node, ast.FunctionDef) and node.name == "prior_distribution":
            for c_ in ast.walk(node):
                if isinstance(c_, ast.Call) and isinstance(c_.func, ast.Attribute) and c_.func.attr == "add_jitter":
                    if not c_.args and not c_.keywords:
                        return add_jitter_default()
                    if len(c_.args) == 1 and isinstance(c_.args[0], ast.Constant):
                        return F(float(c_.args[0].value))
                    if len(c_.args) == 1 and ast.unparse(c_.args[0]) == "self.jitter_val":
                        return "jitter_val"
    raise RuntimeError("unwhitened prior_distribution: add_jitter call not recognised")


def init_expected(cfg, whitened, kzz, mz, Mi):
    """(m, S, R) of q(u) right after `initialize_variational_distribution(p(u))` with `mean_init_std = 0`: the prior of
    the inducing values itself — N(0, I) in whitened coordinates, N(mz, Kzz + ε_prior I) for the unwhitened strategy
    (mean-field keeps its diagonal).  Nothing is read back from the distribution object."""
    if cfg["dist"] == "DeltaVariationalDistribution":
        return (zeros(Mi, 1) if whitened else mz), zeros(Mi, Mi), zeros(Mi, 1)
    if whitened:
        return zeros(Mi, 1), eye(Mi), eye(Mi)
    ep = unwhitened_prior_eps()
    Pm = add_jit(kzz, jitter_of_args(cfg.get("jitter")) if ep == "jitter_val" else ep)
    if cfg["dist"] == "MeanFieldVariationalDistribution":
        Pm = [[Pm[i][j] if i == j else Fraction(0) for j in range(Mi)] for i in range(Mi)]
    return mz, Pm, hp_chol(Pm)


def run_basic(ctx, drv, cfg, rng, replay_only=None):
    """VariationalStrategy / UnwhitenedVariationalStrategy: eval (mean, cov, KL) and train (mean, var, KL)."""
    import torch
    import gpytorch
    strat = cfg["strategy"]
    whitened = strat == "VariationalStrategy"
    pname, zb, pb, xb, kb = next(p for p in PATTERNS if p[0] == cfg["pattern"])
    M, d = cfg["M"], cfg["d"]
    model, dist, x, Zarg = build_basic(cfg, rng)
    model = copy_step(ctx, cfg, model, x, rng)
    vs = model.variational_strategy
    dist = vs._variational_distribution
    n = x.shape[-2]
    old_q = apply_history(ctx, cfg, model, x, rng, drv, dist)
    if cfg.get("init"):
        # initialisation path: nothing marked as initialised, the first call (in the given mode) sets q(u) := p(u)
        model.train(cfg["init"] == "train-first")
        with torch.no_grad():
            model(x)
        ctx.count(f"init-path:{cfg['init']}")
    # ε and Z are taken from the constructor ARGUMENTS (never from attributes read back from the strategy); Z only when
    # no later step of the history (load_state_dict of another checkpoint, the harness' own perturbation of a copy)
    # legitimately replaced the inducing points
    eps = jitter_of_args(cfg.get("jitter"))
    z_from_args = not cfg.get("copy") and not str(cfg.get("history") or "").startswith("load") \
        and cfg.get("x_eq_z") != "alias"
    results = {}
    with gpytorch.settings.trace_mode(bool(cfg.get("trace_mode", False))):
        for mode in ("eval", "train"):
            model.train(mode == "train")
            with torch.no_grad():
                kl_before = vs.kl_divergence().detach().clone() if mode == "eval" else None
                out = model(x)
                mean = out.mean.detach().clone()
                if mode == "eval":
                    cov = out.covariance_matrix.detach().clone()
                    var = None
                else:
                    cov = None
                    var = out.variance.detach().clone()
                kl = vs.kl_divergence().detach().clone()
            results[mode] = (mean, cov, var, kl, kl_before)
    xx, Zx = expand_inputs(x, (Zarg if z_from_args else vs.inducing_points).detach())
    Kzz, Kzx, Kxx, mX, mZ = joint_blocks(model, Zx, xx, M)
    out_batch = tuple(results["eval"][0].shape[:-1])
    ok_all = True
    for idx in itertools.product(*[range(s) for s in out_batch]):
        if replay_only is not None and list(idx) != list(replay_only):
            continue
        kzz, kzx, kxx = (fmat(bget(t, idx, 2)) for t in (Kzz, Kzx, Kxx))
        kzz = sym_lower(kzz)
        mx, mz = fcol(bget(mX, idx, 1)), fcol(bget(mZ, idx, 1))
        import numpy as np
        kt_f = np.array(fl(add_jit(kzz, eps)))
        kappa = float(np.linalg.cond(kt_f))
        desc = f"{strat}/{cfg['dist']} pattern={pname} M={M} n={n} d={d} kernel={cfg.get('kernel','rbf')} " \
               f"mean={cfg.get('mean','const')} jitter={cfg.get('jitter')} x_eq_z={cfg.get('x_eq_z', False)} " \
               f"trace_mode={bool(cfg.get('trace_mode'))} history={cfg.get('history')} idx={list(idx)}" \
               + "".join(f" {k_}={cfg[k_]}" for k_ in ("jitter_via", "learn_Z", "mean_init_std", "init", "cond_target",
                                                      "copy") if k_ in cfg)
        if kappa > COND_MAX:
            ctx.count("discarded_ill_conditioned")
            continue
        try:
            m, S, R, hasS = exact_dist(drv, dist, idx)
        except DriverFail:
            ctx.count("discarded_singular_parameters")
            continue
        replay = {"cfg": cfg, "idx": list(idx), "runner": "basic"}
        key = f"{strat}:{cfg['dist'].replace('VariationalDistribution', '')}"
        cmp_ = Cmp(ctx, key, desc, replay, kappa, M + n)
        # the distribution object itself: mean / covariance encoded by the parameters
        with torch.no_grad():
            qd = dist()
            qmean = bget(qd.mean, idx, 1).tolist()
            cmp_.mat("dist.mean", [[v] for v in qmean], m)
            if hasS:
                cmp_.mat("dist.covariance", bget(qd.covariance_matrix, idx, 2).tolist(), S)
        Mi = len(m)
        if cfg.get("init"):
            # q(u) after the initialisation with the explicit `mean_init_std=0`: exactly p(u), computed from the ARGUMENTS
            m_a, S_a, R_a = init_expected(cfg, whitened, kzz, mz, Mi)
            cmp_.mat("init.mean", fl(m), m_a)
            if hasS:
                cmp_.mat("init.covariance", fl(S), S_a)
            m, S, R = m_a, S_a, R_a
        if whitened:
            kt = add_jit(kzz, eps)
            L = hp_chol(kt)
            rep = drv.ask(f"W {Mi} {n} {toks(kzz)} {toks(kzx)} {toks(kxx)} {toks(mx)} {C.rat_str(eps)} {C.rat_str(eps)} "
                          f"{toks(L)} {toks(m)} {toks(S)} {hasS + 2 * int(bool(cfg.get('trace_mode')))}")
            cmean, ccov, fmean, fcov, resid, klw, detSw, klu, detS, detKt, quadw, quadu = rep
            model_gap = max(max(abs(a - b) for ra, rb in zip(X, Y) for a, b in zip(ra, rb))
                            for X, Y in ((cmean, fmean), (ccov, fcov)))
            if float(model_gap) > 1e-40 or float(sc(resid)) > 1e-60:
                ctx.broke("correspondence", "model-codepath-vs-closedform",
                          f"{desc}: gap {float(model_gap)} resid {float(sc(resid))}")
            if hasS:
                klx = kl_mvn(sc(klw), sc(detSw), Fraction(1))
                # invariance of the KL under u = mz + L e (theorem kl_whitened_eq_kl_unwhitened, observed)
                klx_u = kl_mvn(sc(klu), sc(detS), sc(detKt))
                if abs(klx - klx_u) > 1e-9 * max(1.0, abs(klx)):
                    ctx.broke("correspondence", "model-kl-invariance", f"{desc}: {klx} vs {klx_u}")
            else:
                klx = kl_delta(sc(quadw), Fraction(1), Mi)
            train_var = [ccov[i][i] for i in range(n)]
            kl_train = klx
            if old_q is not None:
                # old-format checkpoint: the loaded (m, S) are q(u) itself; closed form of the unwhitened description
                m0, S0, R0, h0 = old_q[tuple(idx)]
                exo = exact_unwhitened(ctx, drv, desc, kzz, kzx, kxx, mx, mz, eps, eps, m0, S0, R0, h0)
                fmean = exo["mean"]
                fcov = add_jit(exo["cov"], eps)
                train_var = [fcov[i][i] for i in range(n)]
                klx = kl_train = exo["kl"]
        else:
            exu = exact_unwhitened(ctx, drv, desc, kzz, kzx, kxx, mx, mz, eps, eps, m, S, R, hasS)
            if cfg.get("x_eq_z"):
                # `torch.equal(x, inducing_points)` shortcut: q(f) = q(u); this is the closed form at ε = 0
                fmean, fcov = m, S
                train_var = [S[i][i] for i in range(n)]
            else:
                fmean, fcov, train_var = exu["mean"], exu["cov"], exu["trainvar"]
            klx = kl_train = exu["kl"]
            kl_code = exu["kl_code"]
        kscale = max([1.0] + [abs(float(v)) for row in kxx for v in row])
        # ---- eval mode
        mean, cov, _, kl, kl_before = results["eval"]
        cmp_.mat("eval.mean", [[v] for v in bget(mean, idx, 1).tolist()], fmean)
        cmp_.mat("eval.covariance", bget(cov, idx, 2).tolist(), fcov, scale=max(kscale, 1.0))
        dshort = cfg['dist'].replace('VariationalDistribution', '')
        if whitened:
            cmp_.scalar("eval.kl", float(bget(kl, idx, 0)), klx, scale=max(1.0, abs(klx)))
            if old_q is None:     # (before the first call an old-format checkpoint is not yet converted)
                cmp_.scalar("eval.kl(before first call)", float(bget(kl_before, idx, 0)), klx, scale=max(1.0, abs(klx)))
        else:
            for what, t in (("eval.kl", kl), ("eval.kl(before first call)", kl_before)):
                report_kl(ctx, cmp_, what, float(bget(t, idx, 0)), klx, kl_code,
                          f"UnwhitenedVariationalStrategy:{dshort}/{what}[prior-jitter-mismatch]",
                          f"UnwhitenedVariationalStrategy:{dshort}/eval.divergence-formula", desc, replay)
        # ---- train mode: mean and variances
        mean, _, var, kl, _ = results["train"]
        cmp_.mat("train.mean", [[v] for v in bget(mean, idx, 1).tolist()], fmean)
        cmp_.mat("train.variance", [[v] for v in bget(var, idx, 1).tolist()], [[v] for v in train_var],
                 scale=max(kscale, 1.0))
        if whitened:
            cmp_.scalar("train.kl", float(bget(kl, idx, 0)), kl_train, scale=max(1.0, abs(kl_train)))
        else:
            # the training-mode forward caches the jitter_val prior, except on the x == Z shortcut (no caching)
            report_kl(ctx, cmp_, "train.kl", float(bget(kl, idx, 0)), kl_train, kl_code if cfg.get("x_eq_z") else None,
                      f"UnwhitenedVariationalStrategy:{dshort}/train.kl[prior-jitter-mismatch]",
                      f"UnwhitenedVariationalStrategy:{dshort}/train.divergence-formula", desc, replay)
        ok = cmp_.flush()
        ok_all = ok_all and ok
        nontriv = Mi >= 2 and n >= 2
        ctx.case(desc + f" seed={C.seed()}", nontrivial=nontriv,
                 sample={"case": desc, "kappa": kappa, "worst_rel_err": cmp_.worst, "kl": klx})
        ctx.count(f"cases:{strat}")
        ctx.count(f"dist:{cfg['dist']}")
        ctx.count(f"pattern:{pname}")
        _state["worst"] = max(_state.get("worst", 0.0), cmp_.worst)
    return ok_all



# ------------------------------------------------------------------ exact q(f) of a base strategy (reused)

def max_gap(pairs):
    return max(max([abs(a - b) for ra, rb in zip(X, Y) for a, b in zip(ra, rb)] + [Fraction(0)]) for X, Y in pairs)


def gen_check(ctx, drv, desc, what, line, expected):
    """Run one request of a GENERATED-definitions kind (`BD`, `OG`, `IG`: the `forward` of the batch-decoupled /
    orthogonally-decoupled / grid strategy as translated from the source) and compare its leading replies (exact rationals,
    gap < 1e-40) with the values of the hand-written, theorem-backed model (`expected`: matrices or scalars as Fractions).  A difference is a
    broken tie (`gen_*_eq_model` no longer describes the source), never by itself a defect of gpytorch.  The fallback
    driver (hand-written model only) does not know these kinds: the check is then skipped and counted."""
    try:
        rep = drv.ask(line)
    except DriverFail as e:
        ctx.count(f"generated-check-skipped:{what}")
        return None
    for k, ex in enumerate(expected):
        if ex is None:
            continue
        got = rep[k]
        exm = ex if isinstance(ex, list) else [[Fraction(ex)]]
        same_shape = len(got) == len(exm) and all(len(a) == len(b) for a, b in zip(got, exm))
        gap = float(max_gap(((got, exm),))) if same_shape else "shape"
        # (irrational primitives reach the driver rounded to 2⁻²⁴⁰: code path and closed form agree to ~1e-70, not exactly)
        if not same_shape or gap > 1e-40:
            ctx.broke("correspondence", f"generated-{what}-vs-model",
                      f"{desc}: reply {k} of the generated {what} definitions differs from the hand-written model by {gap}")
            break
    else:
        ctx.count(f"generated-check:{what}")
    return rep


def exact_whitened(ctx, drv, desc, kzz, kzx, kxx, mx, eps, epsx, m, S, hasS, root="chol", trace=False):
    """Closed form for a whitened strategy; L = Cholesky factor (or symmetric root for CIQ) of K̃."""
    kt = add_jit(kzz, eps)
    L = hp_chol(kt) if root == "chol" else hp_sym_sqrt(kt)
    Mi, n = len(m), len(mx)
    rep = drv.ask(f"W {Mi} {n} {toks(kzz)} {toks(kzx)} {toks(kxx)} {toks(mx)} {C.rat_str(eps)} {C.rat_str(epsx)} "
                  f"{toks(L)} {toks(m)} {toks(S)} {hasS + 2 * int(bool(trace))}")
    cmean, ccov, fmean, fcov, resid, klw, detSw, klu, detS, detKt, quadw, quadu = rep
    if float(max_gap(((cmean, fmean), (ccov, fcov)))) > 1e-40 or float(sc(resid)) > 1e-60:
        ctx.broke("correspondence", "model-codepath-vs-closedform",
                  f"{desc}: generated code path (trace_mode={bool(trace)}) vs closed form gap "
                  f"{float(max_gap(((cmean, fmean), (ccov, fcov))))}, resid {float(sc(resid))}")
    if hasS:
        kl = kl_mvn(sc(klw), sc(detSw), Fraction(1))
    else:
        kl = kl_delta(sc(quadw), Fraction(1), Mi)
    return {"mean": fmean, "cov": fcov, "kl": kl, "klw": sc(klw), "detSw": sc(detSw), "quadw": sc(quadw)}


def kl_against(drv, kzz, epsp, m, mz, S, hasS):
    """closed-form KL( q(u) || N(mz, Kzz + epsp I) ) through the driver's generic KL kind."""
    klr, detS, detP, quad = drv.ask(f"K {len(m)} {toks(add_jit(kzz, epsp))} {toks(m)} {toks(mz)} {toks(S)} {hasS}")
    return kl_mvn(sc(klr), sc(detS), sc(detP)) if hasS else kl_delta(sc(quad), sc(detP), len(m))


def exact_unwhitened(ctx, drv, desc, kzz, kzx, kxx, mx, mz, eps, epsp, m, S, R, hasS):
    """Closed form for the unwhitened strategy.  `kl` = KL against the matrix the predictive uses (prior jitter epsp);
    `kl_code` = KL against the prior the GENERATED `uPriorCov` describes (None when it coincides)."""
    Mi, n = len(m), len(mx)
    L = hp_chol(add_jit(kzz, eps))
    rep = drv.ask(f"U {Mi} {n} {len(R[0])} {toks(kzz)} {toks(kzx)} {toks(kxx)} {toks(mx)} {toks(mz)} "
                  f"{C.rat_str(eps)} 0 {C.rat_str(epsp)} {toks(m)} {toks(R)} {toks(S)} {hasS} {toks(L)} "
                  f"{C.rat_str(add_jitter_default())}")
    cmean, ccov, fmean, fcov = rep[0], rep[1], rep[2], rep[3]
    if float(max_gap(((cmean, fmean), (ccov, fcov)))) > 1e-40 or float(sc(rep[13])) > 1e-60:
        ctx.broke("correspondence", "model-codepath-vs-closedform",
                  f"{desc}: generated unwhitened code path vs closed form gap {float(max_gap(((cmean, fmean), (ccov, fcov))))}, "
                  f"|L L^T - cholesky argument| {float(sc(rep[13]))}")
    if hasS and len(rep) > 16 and (rep[16] != rep[0] or float(max_gap(((rep[15], rep[5]),))) > 1e-40):
        # (the generated branch solves with (L Lᵀ)⁻¹, L the 2⁻²⁴⁰-rounded factor; the model with the exact K̃⁻¹)
        # the TRAINING-mode branch as generated from the source (root term + clamped diagonal) vs `unwhitenedTrainVar`
        ctx.broke("correspondence", "generated-unwhitened-train-branch-vs-model",
                  f"{desc}: generated training-mode variances / mean differ from the hand-written model by "
                  f"{float(max_gap(((rep[15], rep[5]), (rep[16], rep[0]))))}")
    elif hasS and len(rep) > 16:
        ctx.count("generated-check:unwhitened-train")
    klr, detS, detP, quad = rep[6], rep[7], rep[8], rep[9]
    kl = kl_mvn(sc(klr), sc(detS), sc(detP)) if hasS else kl_delta(sc(quad), sc(detP), Mi)
    kl_code = None
    if sc(rep[14]) != 0:       # generated prior jitter differs from the generated forward jitter
        kl_code = kl_mvn(sc(rep[10]), sc(detS), sc(rep[11])) if hasS else kl_delta(sc(rep[12]), sc(rep[11]), Mi)
    return {"mean": fmean, "cov": fcov, "kl": kl, "kl_code": kl_code, "trainvar": [v[0] for v in rep[5]]}


def kappa_of(kzz, eps):
    import numpy as np
    return float(np.linalg.cond(np.array(fl(add_jit(kzz, eps)))))


def col(t):
    return [[v] for v in t.tolist()]


def tight_ciq():
    """Tight iterative-solver settings for CIQ (the comparison is numerical only for this strategy)."""
    import contextlib
    import gpytorch
    st = contextlib.ExitStack()
    S = gpytorch.settings
    for cm in (S.num_contour_quadrature(60), S.minres_tolerance(1e-14), S.cg_tolerance(1e-14),
               S.eval_cg_tolerance(1e-14), S.max_cg_iterations(4000), S.max_lanczos_quadrature_iterations(200)):
        st.enter_context(cm)
    return st


# ------------------------------------------------------------------ CIQ

def run_ciq(ctx, drv, cfg, rng, replay_only=None):
    import torch
    torch.manual_seed(rng.torch_seed())
    pname, zb, pb, xb, kb = next(p for p in PATTERNS if p[0] == cfg["pattern"])
    M, n, d = cfg["M"], cfg["n"], cfg["d"]
    Z = spread_points([*zb, M, d], rng)
    x = spread_points([*xb, n, d], rng, lo=-2.5, hi=2.5, min_dist=0.2)
    model, dist = make_gp(dict(cfg, kb=kb), Z, cfg["dist"], pb)
    vs = model.variational_strategy
    randomize_hypers(model, rng)
    vs.variational_params_initialized.fill_(1)
    randomize_dist(dist, rng)
    model = copy_step(ctx, cfg, model, x, rng)
    vs = model.variational_strategy
    dist = vs._variational_distribution
    ngd = cfg["dist"] == "NaturalVariationalDistribution"
    eps = jitter_of_args(cfg.get("jitter"))
    res = {}
    with tight_ciq():
        for mode in ("eval", "train"):
            model.train(mode == "train")
            with torch.no_grad():
                out = model(x)
                res[mode] = (out.mean.detach().clone(), None if ngd else out.covariance_matrix.detach().clone(),
                             out.variance.detach().clone(), vs.kl_divergence().detach().clone())
    xx, Zx = expand_inputs(x, vs.inducing_points.detach())
    Kzz, Kzx, Kxx, mX, mZ = joint_blocks(model, Zx, xx, M)
    for idx in itertools.product(*[range(s) for s in res["eval"][0].shape[:-1]]):
        if replay_only is not None and list(idx) != list(replay_only):
            continue
        kzz, kzx, kxx = (fmat(bget(t, idx, 2)) for t in (Kzz, Kzx, Kxx))
        kzz = sym_lower(kzz)
        mx = fcol(bget(mX, idx, 1))
        kappa = kappa_of(kzz, eps)
        desc = f"CiqVariationalStrategy/{cfg['dist']} pattern={pname} M={M} n={n} d={d} idx={list(idx)}" \
               + (f" copy={cfg['copy']}" if cfg.get("copy") else "")
        if kappa > COND_MAX:
            ctx.count("discarded_ill_conditioned")
            continue
        m, S, R, hasS = exact_dist(drv, dist, idx)
        # the code adds jitter_val to Kxx twice on the non-NGD branch and once on the NGD branch
        ex = exact_whitened(ctx, drv, desc, kzz, kzx, kxx, mx, eps, eps if ngd else 2 * eps, m, S, hasS, root="sym")
        key = f"CiqVariationalStrategy:{cfg['dist'].replace('VariationalDistribution', '')}"
        cmp_ = Cmp(ctx, key, desc, {"cfg": cfg, "idx": list(idx), "runner": "ciq"}, kappa, M + n)
        # numerical-only comparison: contour-integral quadrature; the NGD branch additionally solves with linear_cg
        # (its accuracy, ~1e-7 observed, is linear_operator's — an assumption, not a property of gpytorch's algebra)
        cmp_.slack = max(cmp_.slack, 1e-5 if ngd else 1e-7)
        kscale = max([1.0] + [abs(float(v)) for row in kxx for v in row])
        for mode in ("eval", "train"):
            mean, cov, var, kl = res[mode]
            cmp_.mat(f"{mode}.mean", col(bget(mean, idx, 1)), ex["mean"])
            if cov is not None and mode == "eval":
                cmp_.mat(f"{mode}.covariance", bget(cov, idx, 2).tolist(), ex["cov"], scale=kscale)
            cmp_.mat(f"{mode}.variance", col(bget(var, idx, 1)), [[ex["cov"][i][i]] for i in range(n)], scale=kscale)
            if ngd:
                klv = float(bget(kl, idx, 0))
                if abs(klv - ex["kl"]) > 1e-6 * max(1.0, abs(ex["kl"])):
                    ctx.fail("CiqVariationalStrategy:Natural/kl-forward-value",
                             f"{desc}: kl_divergence() returns {klv} in {mode} mode; KL(q(u)||p(u)) = {ex['kl']} "
                             "(_NgdInterpTerms.forward returns zeros for the KL)",
                             {"cfg": cfg, "idx": list(idx), "runner": "ciq", "observable": f"{mode}.kl"})
            else:
                cmp_.scalar(f"{mode}.kl", float(bget(kl, idx, 0)), ex["kl"])
        cmp_.flush()
        ctx.case(desc + f" seed={C.seed()}", sample=None)
        ctx.count("cases:CiqVariationalStrategy")
        ctx.count(f"dist:{cfg['dist']}")
        _state["worst_ciq"] = max(_state.get("worst_ciq", 0.0), cmp_.worst)


# ------------------------------------------------------------------ CIQ: the tolerance the user set must be in force

CG_FLOOR = 1e-5     # measured accuracy floor of linear_operator's linear_cg (true relative residual; DESIGN §2.3)


class CgSpy:
    """Wraps `linear_cg` as imported by gpytorch/variational/ciq_variational_strategy.py (the only iterative solve gpytorch
    itself issues in a variational strategy): records the tolerance that REACHES the primitive (an omitted argument means
    `settings.cg_tolerance` at call time) and the true relative residual of what it returned."""

    def __init__(self):
        import gpytorch.variational.ciq_variational_strategy as mod
        self.mod, self.orig, self.calls = mod, mod.linear_cg, []

    def __enter__(self):
        import gpytorch

        def spy(matmul_closure, rhs, *a, **k):
            asked = k.get("tolerance")
            eff = gpytorch.settings.cg_tolerance.value() if asked is None else asked
            out = self.orig(matmul_closure, rhs, *a, **k)
            res = (matmul_closure(out) - rhs).norm(dim=-2) / rhs.norm(dim=-2).clamp_min(1e-300)
            self.calls.append({"tolerance_argument": asked, "tolerance_effective": float(eff),
                               "true_rel_residual": float(res.max())})
            return out
        self.mod.linear_cg = spy
        return self

    def __exit__(self, *exc):
        self.mod.linear_cg = self.orig


def run_ciq_tol(ctx, drv, cfg, rng, replay_only=None):
    """Cells in which the USER-VISIBLE tolerance settings prescribe tight accuracy for the iterative solves of
    CiqVariationalStrategy (NGD path: `linear_cg` with the variational precision; both paths: contour-integral quadrature
    at tight `minres_tolerance` / `num_contour_quadrature`), M = 16..40, variational precision of condition ~1e4:
      eval mode:  eval_cg_tolerance = 1e-10, cg_tolerance at its default;   train mode: the reverse.
    Judged (i) differentially, as C01 does for exact GPs: the output must be the one obtained with BOTH tolerances tight
    (same solver, same tolerance in force -> identical to 1e-9) — otherwise the tolerance the user set is not in force;
    (ii) against the dense closed form at the accuracy the tolerance in force prescribes, max(tol, CG_FLOOR) x the
    amplification |θ|·|b|/λmin(P) (mean) resp. |b|²/λmin(P) (variance) of a residual of that size.  The reference is a
    float64 dense computation (symmetric eigendecomposition): at M = 40 the exact rational pipeline is outside the time
    budget, and the prescribed accuracy (>= 1e-5 x amplification) is far above float64 rounding (1e-13)."""
    import contextlib
    import gpytorch
    import numpy as np
    import torch
    torch.manual_seed(rng.torch_seed())
    M, n, d = cfg["M"], cfg["n"], cfg["d"]
    ngd = cfg["dist"] == "NaturalVariationalDistribution"
    Z = spread_points([M, d], rng, lo=-3.5, hi=3.5, min_dist=0.55)
    x = spread_points([n, d], rng, lo=-3.5, hi=3.5, min_dist=0.2)
    model, dist = make_gp(dict(cfg, kb=[], strategy="CiqVariationalStrategy"), Z, cfg["dist"], [])
    vs = model.variational_strategy
    randomize_hypers(model, rng)
    model.covar_module.base_kernel.lengthscale = rng.uniform(0.3, 0.5)      # Kzz stays well conditioned (CIQ converges)
    vs.variational_params_initialized.fill_(1)
    # whitened q(u) = N(mw, P⁻¹) with an ill-conditioned precision, as after natural-gradient training
    U, _ = torch.linalg.qr(torch.randn(M, M, dtype=torch.float64))
    lam = torch.logspace(-1, math.log10(cfg["prec_cond"]) - 1, M, dtype=torch.float64)
    P = U @ torch.diag(lam) @ U.T
    P = (P + P.T) / 2
    Sm = torch.linalg.inv(P)
    Sm = (Sm + Sm.T) / 2
    mw = torch.randn(M, dtype=torch.float64)
    with torch.no_grad():
        if ngd:
            dist.natural_mat.copy_(P.mul(-0.5))
            dist.natural_vec.copy_(P @ mw)
        else:
            randomize_dist(dist, rng)       # (no CG solve with q(u) on this path; only the contour-integral quadrature)
    eps = float(jitter_of_args(cfg.get("jitter")))
    with torch.no_grad():
        full = model.forward(torch.cat([Z, x], dim=-2))
        Kf = full.lazy_covariance_matrix.to_dense()
        Kzz, Kzx, Kxx = Kf[:M, :M] + eps * torch.eye(M, dtype=Kf.dtype), Kf[:M, M:], Kf[M:, M:]
        w, V = torch.linalg.eigh((Kzz + Kzz.T) / 2)
        B = (V @ torch.diag(w.rsqrt()) @ V.T) @ Kzx                        # Kzz^{-1/2} Kzx
        if not ngd:
            with torch.no_grad():
                qd = dist()
                mw, Sm = qd.mean.clone(), qd.covariance_matrix.clone()     # (the lower-triangle mask is part of q(u))
        ref_mean = full.mean[M:] + B.T @ mw
        # the code adds jitter_val to Kxx once on the NGD branch and twice on the other one (mirrored, see run_ciq)
        ref_var = Kxx.diagonal() + (1 if ngd else 2) * eps - (B * B).sum(0) + ((Sm @ B) * B).sum(0)
    kz = float(w.max() / w.min())
    if kz > 1e4:
        ctx.count("discarded_ill_conditioned")
        return
    lmin = float(torch.linalg.eigvalsh(P).min()) if ngd else 1.0
    theta, bn = float((P @ mw).norm()), float(B.norm(dim=0).max())
    amp = {"mean": theta * bn / lmin, "variance": bn * bn / lmin}
    S_ = gpytorch.settings
    VARIANTS = {"both-tight": (1e-10, 1e-10), "eval-only": (None, 1e-10), "cg-only": (1e-10, None), "both-loose": (1.0, 1.0)}

    def observe(mode, variant):
        cg, ev = VARIANTS[variant]
        st = contextlib.ExitStack()
        for cm in (S_.num_contour_quadrature(60), S_.minres_tolerance(1e-14), S_.max_cg_iterations(4000),
                   S_.max_lanczos_quadrature_iterations(200)):
            st.enter_context(cm)
        if cg is not None:
            st.enter_context(S_.cg_tolerance(cg))
        if ev is not None:
            st.enter_context(S_.eval_cg_tolerance(ev))
        with st, CgSpy() as spy:
            in_force = min(S_.cg_tolerance.value(), S_.eval_cg_tolerance.value())
            model.train(mode == "train")
            with torch.no_grad():
                o = model(x)
                return o.mean.detach().clone(), o.variance.detach().clone(), spy.calls, in_force

    key = f"CiqVariationalStrategy:{cfg['dist'].replace('VariationalDistribution', '')}"
    for mode, user in (("eval", "eval-only"), ("train", "cg-only")):
        if replay_only is not None and list(replay_only) != [mode]:
            continue
        desc = f"CiqVariationalStrategy/{cfg['dist']} tolerance cell M={M} n={n} d={d} cond(P)={cfg['prec_cond']:g} " \
               f"mode={mode} (cg_tolerance, eval_cg_tolerance)={VARIANTS[user]}"
        replay = {"cfg": cfg, "idx": [mode], "runner": "ciq_tol"}
        ref = observe(mode, "both-tight")
        got = observe(mode, user)
        loose = observe(mode, "both-loose")
        sens = max(float((loose[0] - ref[0]).abs().max()), float((loose[1] - ref[1]).abs().max()))
        asked = [c_["tolerance_effective"] for c_ in got[2]]
        spy_txt = f"tolerance reaching linear_cg: {asked or 'no linear_cg call'}, prescribed by the settings: {got[3]:g}"
        for what, a, b_ in (("mean", got[0], ref[0]), ("variance", got[1], ref[1])):
            err = float((a - b_).abs().max())
            tol = 1e-9 * float(b_.abs().max()) + 1e-13
            if not err <= tol:
                ctx.fail(f"{key}/cg-tolerance:{mode}.{what}:tolerance-not-in-force",
                         f"{desc}: {mode}.{what} differs by {err:.3e} (tol {tol:.1e}) from the output with both tolerances "
                         f"at 1e-10 — the tolerance the user set is not the one the solve ran at ({spy_txt})",
                         dict(replay, observable=f"{mode}.{what}", spy=got[2]))
        # closed form at the accuracy the tolerance in force prescribes
        rho = max([c_["true_rel_residual"] for c_ in got[2]] + [0.0])
        for what, a, exact in (("mean", got[0], ref_mean), ("variance", got[1], ref_var)):
            err = float((a - exact).abs().max())
            scale = max(1.0, float(exact.abs().max()))
            tol = (max(got[3], CG_FLOOR) * amp[what] if ngd else 0.0) + 1e-7 * scale
            _state["worst_ciq_tol"] = max(_state.get("worst_ciq_tol", 0.0), err / tol)
            if not err <= tol:
                ctx.fail(f"{key}/tolerance-cell:{mode}.{what}",
                         f"{desc}: {mode}.{what} differs from the closed form by {err:.3e}; the tolerance in force "
                         f"({got[3]:g}) prescribes {tol:.3e} ({spy_txt}; true relative residual of the solve {rho:.1e})",
                         dict(replay, observable=f"{mode}.{what}", spy=got[2]))
        if ngd and rho > 100 * max(min(asked + [1.0]), 1e-10) and not _state.get("cg_floor_noted"):
            _state["cg_floor_noted"] = True
            ctx.assumption(f"linear_cg asked for tolerance {min(asked + [1.0]):g} returned a solve with true relative residual "
                           f"{rho:.1e} (ill-conditioned variational precision, cond {cfg['prec_cond']:g}): linear_operator's "
                           f"accuracy floor, allowed for as CG_FLOOR = {CG_FLOOR:g} in the tolerance cells")
        ctx.case(desc + f" seed={C.seed()}", nontrivial=(sens > 1e-6) if ngd else True,
                 sample={"case": desc, "cond_Kzz": kz, "sensitivity(tight vs loose)": sens, "spy": got[2]})
        ctx.count("cases:CiqVariationalStrategy[tolerance-cell]")
        if sens > 1e-6:
            ctx.count("tolerance-cells:tolerance-matters")


# ------------------------------------------------------------------ batch decoupled

def run_batch_decoupled(ctx, drv, cfg, rng, replay_only=None):
    import torch
    import gpytorch
    torch.manual_seed(rng.torch_seed())
    M, n, d = cfg["M"], cfg["n"], cfg["d"]
    outer = cfg.get("outer", [])
    kb = cfg["kb"]
    Z = spread_points([*outer, M, d], rng)
    x = spread_points([n, d], rng, lo=-2.5, hi=2.5, min_dist=0.2)
    kw = {"mean_var_batch_dim": -1} if cfg.get("mvbd") else {}
    model, dist = make_gp(dict(cfg, kb=kb, strategy="BatchDecoupledVariationalStrategy"), Z, cfg["dist"], outer, kw)
    vs = model.variational_strategy
    randomize_hypers(model, rng)
    with torch.no_grad():
        # distinct inducing sets for the mean and for the variance
        vs.inducing_points.copy_(spread_points(list(vs.inducing_points.shape), rng))
    vs.variational_params_initialized.fill_(1)
    randomize_dist(dist, rng)
    model = copy_step(ctx, cfg, model, x, rng)
    vs = model.variational_strategy
    dist = vs._variational_distribution
    eps = jitter_of_args(cfg.get("jitter"))
    res = {}
    for mode in ("eval", "train"):
        model.train(mode == "train")
        with torch.no_grad():
            out = model(x)
            res[mode] = (out.mean.detach().clone(), out.covariance_matrix.detach().clone(),
                         out.variance.detach().clone(), vs.kl_divergence().detach().clone())
    ip = vs.inducing_points.detach()                # [..., 2, M, d]
    xx, Zx = expand_inputs(x.unsqueeze(-3), ip)
    Kzz, Kzx, Kxx, mX, mZ = joint_blocks(model, Zx, xx, M)   # batch [..., 2]
    for idx in itertools.product(*[range(s) for s in res["eval"][0].shape[:-1]]):
        if replay_only is not None and list(idx) != list(replay_only):
            continue
        desc = f"BatchDecoupledVariationalStrategy/{cfg['dist']} outer={outer} kb={kb} M={M} n={n} d={d} " \
               f"jitter={cfg.get('jitter')} idx={list(idx)}" + (f" copy={cfg['copy']}" if cfg.get("copy") else "")
        m, S, R, hasS = exact_dist(drv, dist, idx)
        parts = []
        kap = 1.0
        for which in (0, 1):
            ii = tuple(idx) + (which,)
            kzz, kzx, kxx = (fmat(bget(t, ii, 2)) for t in (Kzz, Kzx, Kxx))
            kzz = sym_lower(kzz)
            mx = fcol(bget(mX, ii, 1))
            kap = max(kap, kappa_of(kzz, eps))
            parts.append((kzz, kzx, kxx, mx))
        if kap > COND_MAX:
            ctx.count("discarded_ill_conditioned")
            continue
        exm = exact_whitened(ctx, drv, desc, *parts[0], eps, eps, m, S, hasS)
        exv = exact_whitened(ctx, drv, desc, *parts[1], eps, eps, m, S, hasS)
        # `forward` as generated from the source: mean from inducing set 0, covariance from inducing set 1
        Ls = [hp_chol(add_jit(parts[k_][0], eps)) for k_ in (0, 1)]
        bdrep = gen_check(ctx, drv, desc, "batch-decoupled",
                          "BD %d %d %s %s %s %s %s %s %s %s %s %s %s %s %s" % (
                              M, n, toks(parts[0][0]), toks(parts[1][0]), toks(parts[0][1]), toks(parts[1][1]),
                              toks(parts[0][2]), toks(parts[1][2]), toks(parts[0][3]), toks(parts[1][3]), C.rat_str(eps),
                              toks(Ls[0]), toks(Ls[1]), toks(m), toks(S)), [exm["mean"], exv["cov"]])
        if bdrep is not None and max(float(sc(bdrep[2])), float(sc(bdrep[3]))) > 1e-60:
            ctx.broke("correspondence", "generated-batch-decoupled-cholesky-argument",
                      f"{desc}: |L Lᵀ − generated Cholesky argument| = {float(sc(bdrep[2]))}, {float(sc(bdrep[3]))}")
        mp = _mp()
        # KL = KL(Delta(m) || N(0,I)) + KL(N(0,S) || N(0,I))
        trS = sum(S[i][i] for i in range(M))
        klx = float((mpf(exm["quadw"]) + M * mp.log(2 * mp.pi)) / 2 + (mpf(trS - M) - log_frac(exm["detSw"])) / 2)
        key = f"BatchDecoupledVariationalStrategy:{cfg['dist'].replace('VariationalDistribution', '')}"
        cmp_ = Cmp(ctx, key, desc, {"cfg": cfg, "idx": list(idx), "runner": "batch_decoupled"}, kap, M + n)
        kscale = max([1.0] + [abs(float(v)) for row in parts[1][2] for v in row])
        for mode in ("eval", "train"):
            mean, cov, var, kl = res[mode]
            cmp_.mat(f"{mode}.mean", col(bget(mean, idx, 1)), exm["mean"])
            if mode == "eval":
                cmp_.mat(f"{mode}.covariance", bget(cov, idx, 2).tolist(), exv["cov"], scale=kscale)
            cmp_.mat(f"{mode}.variance", col(bget(var, idx, 1)), [[exv["cov"][i][i]] for i in range(n)], scale=kscale)
            cmp_.scalar(f"{mode}.kl", float(bget(kl, idx, 0)), klx)
        cmp_.flush()
        ctx.case(desc + f" seed={C.seed()}")
        ctx.count("cases:BatchDecoupledVariationalStrategy")
        ctx.count(f"dist:{cfg['dist']}")
        _state["worst"] = max(_state.get("worst", 0.0), cmp_.worst)


# ------------------------------------------------------------------ orthogonally decoupled

def run_orth(ctx, drv, cfg, rng, replay_only=None):
    import torch
    import gpytorch
    V = gpytorch.variational
    torch.manual_seed(rng.torch_seed())
    M, Mm, n, d = cfg["M"], cfg["Mm"], cfg["n"], cfg["d"]
    pb = cfg.get("pb", [])
    Z = spread_points([M, d], rng)
    Zm = spread_points([Mm, d], rng, lo=-2.2, hi=2.2, min_dist=0.3)
    x = spread_points([n, d], rng, lo=-2.5, hi=2.5, min_dist=0.2)
    base_cls = getattr(V, cfg["base"])
    bdist = getattr(V, cfg["dist"])(M, batch_shape=torch.Size(pb))
    mdist = V.DeltaVariationalDistribution(Mm, batch_shape=torch.Size(pb))
    jkw = {} if cfg.get("jitter") is None else {"jitter_val": cfg["jitter"]}

    class GP(gpytorch.models.ApproximateGP):
        def __init__(self):
            base = base_cls(self, Z, bdist, learn_inducing_locations=bool(cfg.get("learn_Z", True)), **jkw)
            super().__init__(V.OrthogonallyDecoupledVariationalStrategy(base, Zm, mdist, **jkw))
            self.mean_module = gpytorch.means.ConstantMean()
            self.covar_module = gpytorch.kernels.ScaleKernel(gpytorch.kernels.RBFKernel() if cfg.get("kernel") != "matern"
                                                              else gpytorch.kernels.MaternKernel(nu=2.5))

        def forward(self, x):
            return gpytorch.distributions.MultivariateNormal(self.mean_module(x), self.covar_module(x))

    model = GP().double()
    vs = model.variational_strategy
    base = vs.base_variational_strategy
    randomize_hypers(model, rng)
    vs.variational_params_initialized.fill_(1)
    base.variational_params_initialized.fill_(1)
    randomize_dist(bdist, rng)
    randomize_dist(mdist, rng)
    model = copy_step(ctx, cfg, model, x, rng)
    vs = model.variational_strategy
    base = vs.base_variational_strategy
    bdist, mdist = base._variational_distribution, vs._variational_distribution
    whitened = cfg["base"] == "VariationalStrategy"
    modes = ("eval", "train")
    res = {}
    for mode in modes:
        model.train(mode == "train")
        with torch.no_grad():
            out = model(x)
            res[mode] = (out.mean.detach().clone(), out.covariance_matrix.detach().clone() if mode == "eval" else None,
                         out.variance.detach().clone(), vs.kl_divergence().detach().clone())
    eps_b = eps_o = jitter_of_args(cfg.get("jitter"))      # the same argument is passed to both constructors
    # base q(f) at [x; Zm]
    # (inducing sets: the constructor ARGUMENTS, unless the copy history of the harness itself replaced them)
    Zm_e, Z_e = (vs.inducing_points.detach(), base.inducing_points.detach()) if cfg.get("copy") else (Zm, Z)
    xz = torch.cat([x, Zm_e], dim=-2)
    Kzz, Kzx, Kxx, mX, mZ = joint_blocks(model, Z_e, xz, M)
    kzz, kzx, kxx = sym_lower(fmat(Kzz)), fmat(Kzx), fmat(Kxx)
    mx, mz = fcol(mX), fcol(mZ)
    kappa = kappa_of(kzz, eps_b)
    if kappa > COND_MAX:
        ctx.count("discarded_ill_conditioned")
        return
    for idx in itertools.product(*[range(s) for s in res["eval"][0].shape[:-1]]):
        if replay_only is not None and list(idx) != list(replay_only):
            continue
        desc = f"OrthogonallyDecoupledVariationalStrategy(base={cfg['base']}/{cfg['dist']}) pb={pb} M={M} Mm={Mm} n={n} " \
               f"d={d} jitter={cfg.get('jitter')} idx={list(idx)}" + (f" copy={cfg['copy']}" if cfg.get("copy") else "") \
               + (f" learn_Z={cfg['learn_Z']}" if "learn_Z" in cfg else "")
        m, S, R, hasS = exact_dist(drv, bdist, idx)
        mm = fcol(bget(mdist.variational_mean.detach(), idx, 1))
        if whitened:
            exb = exact_whitened(ctx, drv, desc, kzz, kzx, kxx, mx, eps_b, eps_b, m, S, hasS)
        else:
            exb = exact_unwhitened(ctx, drv, desc, kzz, kzx, kxx, mx, mz, eps_b, eps_b, m, S, R, hasS)
        mu, Cv = exb["mean"], exb["cov"]
        mux = mu[:n]
        Cxx = [row[:n] for row in Cv[:n]]
        Cxz = [row[n:] for row in Cv[:n]]
        Czz = [row[n:] for row in Cv[n:]]
        key = f"OrthogonallyDecoupledVariationalStrategy:{'Whitened' if whitened else 'Unwhitened'}Base"
        cmp_ = Cmp(ctx, key, desc, {"cfg": cfg, "idx": list(idx), "runner": "orth"}, kappa, M + n + Mm)
        kscale = max([1.0] + [abs(float(v)) for row in kxx for v in row])
        for mode in modes:
            # eval: the prior of the mean inducing values carries jitter_val; train: the cached one carries none
            eo = eps_o if mode == "eval" else Fraction(0)
            fmean, fcov, extra = drv.ask(f"O {n} {Mm} {toks(mux)} {toks(Cxx)} {toks(Cxz)} {toks(Czz)} {C.rat_str(eo)} {toks(mm)}")
            # `forward` / `prior_distribution` / `kl_divergence` as generated from the source
            gen_check(ctx, drv, desc, f"orth-{mode}",
                      f"OG {n} {Mm} {toks(mux)} {toks(mu[n:])} {toks(Cxx)} {toks(Cxz)} {toks(Czz)} {C.rat_str(eps_o)} {toks(mm)}",
                      [fmean, fcov, sc(extra) / 2 if mode == "eval" else None, sc(extra) / 2 if mode == "train" else None,
                       mu[n:], add_jit(Czz, eps_o), Czz])
            klx = exb["kl"] + float(sc(extra)) / 2
            kl_code = None
            if not whitened and mode == "eval" and exb.get("kl_code") is not None:
                kl_code = exb["kl_code"] + float(sc(extra)) / 2
            mean, cov, var, kl = res[mode]
            if mode == "train" and not whitened:
                # training-mode covariance of the unwhitened base has only its diagonal right (by design of that
                # strategy); the orthogonally-decoupled mean and KL are built from its off-diagonal blocks
                bad = []
                rm = col(bget(mean, idx, 1))
                if max(abs(a[0] - float(b[0])) for a, b in zip(rm, fmean)) > 1e-6:
                    bad.append("mean")
                if abs(float(bget(kl, idx, 0)) - klx) > 1e-6 * max(1.0, abs(klx)):
                    bad.append("kl")
                if bad:
                    ctx.fail("OrthogonallyDecoupledVariationalStrategy:UnwhitenedBase/train",
                             f"{desc}: training-mode {'/'.join(bad)} differ from the closed form "
                             "(the unwhitened base returns a diagonal-corrected covariance in training mode)",
                             {"cfg": cfg, "idx": list(idx), "runner": "orth", "observable": "train"})
                cmp_.mat("train.variance", col(bget(var, idx, 1)), [[fcov[i][i]] for i in range(n)], scale=kscale)
                continue
            cmp_.mat(f"{mode}.mean", col(bget(mean, idx, 1)), fmean)
            if cov is not None:
                cmp_.mat(f"{mode}.covariance", bget(cov, idx, 2).tolist(), fcov, scale=kscale)
            cmp_.mat(f"{mode}.variance", col(bget(var, idx, 1)), [[fcov[i][i]] for i in range(n)], scale=kscale)
            if whitened:
                cmp_.scalar(f"{mode}.kl", float(bget(kl, idx, 0)), klx)
            else:
                report_kl(ctx, cmp_, f"{mode}.kl", float(bget(kl, idx, 0)), klx, kl_code,
                          f"UnwhitenedVariationalStrategy:base-of-OrthogonallyDecoupled/{mode}.kl[prior-jitter-mismatch]",
                          f"OrthogonallyDecoupledVariationalStrategy:UnwhitenedBase/{mode}.divergence-formula",
                          desc, {"cfg": cfg, "idx": list(idx), "runner": "orth"})
        cmp_.flush()
        ctx.case(desc + f" seed={C.seed()}")
        ctx.count("cases:OrthogonallyDecoupledVariationalStrategy")
        _state["worst"] = max(_state.get("worst", 0.0), cmp_.worst)


# ------------------------------------------------------------------ grid interpolation

def grid_prior_jitter():
    """The literal jitter of GridInterpolationVariationalStrategy.prior_distribution, read from the source."""
    src = open(os.path.join(C.REPO, "gpytorch/variational/grid_interpolation_variational_strategy.py")).read()
    tree = ast.parse(src)
    for node in ast.walk(tree):
        if isinstance(node, ast.FunctionDef) and node.name == "prior_distribution":
            for c in ast.walk(node):
                if isinstance(c, ast.Call) and isinstance(c.func, ast.Attribute) and c.func.attr == "add_jitter":
                    if len(c.args) == 1 and isinstance(c.args[0], ast.Constant):
                        return float(c.args[0].value)
                    if len(c.args) == 1 and isinstance(c.args[0], ast.Attribute) and c.args[0].attr == "jitter_val":
                        return "jitter_val"
                    if not c.args:
                        return 1e-3
    raise RuntimeError("grid prior_distribution: add_jitter call not recognised")


def run_grid(ctx, drv, cfg, rng, replay_only=None):
    import torch
    import gpytorch
    V = gpytorch.variational
    torch.manual_seed(rng.torch_seed())
    g, dim, n = cfg["g"], cfg["dim"], cfg["n"]
    pb = cfg.get("pb", [])
    M = g ** dim
    dist = getattr(V, cfg["dist"])(M, batch_shape=torch.Size(pb))

    class GP(gpytorch.models.ApproximateGP):
        def __init__(self):
            super().__init__(V.GridInterpolationVariationalStrategy(self, g, [(-1.0, 1.0)] * dim, dist))
            self.mean_module = gpytorch.means.ConstantMean()
            self.covar_module = gpytorch.kernels.ScaleKernel(gpytorch.kernels.MaternKernel(nu=2.5))

        def forward(self, x):
            return gpytorch.distributions.MultivariateNormal(self.mean_module(x), self.covar_module(x))

    model = GP().double()
    vs = model.variational_strategy
    randomize_hypers(model, rng)
    with torch.no_grad():
        ls = model.covar_module.base_kernel.lengthscale
        model.covar_module.base_kernel.lengthscale = torch.empty_like(ls).uniform_(0.25, 0.6)
    vs.variational_params_initialized.fill_(1)
    randomize_dist(dist, rng)
    x = torch.tensor([[rng.uniform(-0.95, 0.95) for _ in range(dim)] for _ in range(n)], dtype=torch.float64)
    model = copy_step(ctx, cfg, model, x, rng)
    vs = model.variational_strategy
    dist = vs._variational_distribution
    res = {}
    for mode in ("eval", "train"):
        model.train(mode == "train")
        with torch.no_grad():
            out = model(x)
            res[mode] = (out.mean.detach().clone(), out.covariance_matrix.detach().clone(),
                         out.variance.detach().clone(), vs.kl_divergence().detach().clone())
    jit = grid_prior_jitter()
    epsp = jitter_of_args(None) if jit == "jitter_val" else F(jit)
    with torch.no_grad():
        ii, iv = vs._compute_grid(x)
        pr = model.forward(vs.inducing_points)
        Kzz = sym_lower(fmat(pr.lazy_covariance_matrix.to_dense()))
        mz = fcol(pr.mean)
    kappa = kappa_of(Kzz, epsp)
    if kappa > COND_MAX:
        ctx.count("discarded_ill_conditioned")
        return
    for idx in itertools.product(*[range(s) for s in res["eval"][0].shape[:-1]]):
        if replay_only is not None and list(idx) != list(replay_only):
            continue
        desc = f"GridInterpolationVariationalStrategy/{cfg['dist']} grid={g}^{dim} n={n} pb={pb} idx={list(idx)}" \
               + (f" copy={cfg['copy']}" if cfg.get("copy") else "")
        m, S, R, hasS = exact_dist(drv, dist, idx)
        iib, ivb = bget(ii, idx, 2), bget(iv, idx, 2)
        W = zeros(n, M)
        for i in range(n):
            for k in range(iib.shape[-1]):
                W[i][int(iib[i, k])] += F(float(ivb[i, k]))
        fmean, fcov = drv.ask(f"I {n} {M} {toks(W)} {toks(m)} {toks(S)}")
        # `forward` / `prior_distribution` as generated from the source
        gen_check(ctx, drv, desc, "grid",
                  f"IG {n} {M} {toks(W)} {toks(m)} {toks(S)} {toks(Kzz)} {toks(mz)} {C.rat_str(jitter_of_args(None))} "
                  f"{C.rat_str(add_jitter_default())}", [fmean, fcov, mz, add_jit(Kzz, epsp)])
        klr, detS, detP, quad = drv.ask(f"K {M} {toks(add_jit(Kzz, epsp))} {toks(m)} {toks(mz)} {toks(S)} {hasS}")
        klx = kl_mvn(sc(klr), sc(detS), sc(detP))
        key = f"GridInterpolationVariationalStrategy:{cfg['dist'].replace('VariationalDistribution', '')}"
        cmp_ = Cmp(ctx, key, desc, {"cfg": cfg, "idx": list(idx), "runner": "grid"}, kappa, M + n)
        for mode in ("eval", "train"):
            mean, cov, var, kl = res[mode]
            cmp_.mat(f"{mode}.mean", col(bget(mean, idx, 1)), fmean)
            if mode == "eval":
                cmp_.mat(f"{mode}.covariance", bget(cov, idx, 2).tolist(), fcov)
            cmp_.mat(f"{mode}.variance", col(bget(var, idx, 1)), [[fcov[i][i]] for i in range(n)])
            cmp_.scalar(f"{mode}.kl", float(bget(kl, idx, 0)), klx)
        cmp_.flush()
        ctx.case(desc + f" seed={C.seed()}")
        ctx.count("cases:GridInterpolationVariationalStrategy")
        ctx.count(f"dist:{cfg['dist']}")
        _state["worst"] = max(_state.get("worst", 0.0), cmp_.worst)


# ------------------------------------------------------------------ LMC / independent multitask

def run_multitask(ctx, drv, cfg, rng, replay_only=None):
    import torch
    import gpytorch
    V = gpytorch.variational
    torch.manual_seed(rng.torch_seed())
    kind = cfg["kind"]                       # "lmc" | "indep" | "indep-repeated"
    Qn, Tn, M, n, d = cfg["Q"], cfg["T"], cfg["M"], cfg["n"], cfg["d"]
    lat = [] if kind == "indep-repeated" else [Qn]
    zb = lat if cfg.get("z_batched", True) else []
    kb = lat if cfg.get("k_batched", True) else []
    Z = spread_points([*zb, M, d], rng)
    x = spread_points([n, d], rng, lo=-2.5, hi=2.5, min_dist=0.2)
    base_cls = getattr(V, cfg["base"])
    bdist = getattr(V, cfg["dist"])(M, batch_shape=torch.Size(lat))
    jkw = {} if cfg.get("jitter") is None else {"jitter_val": cfg["jitter"]}
    ljkw = {} if cfg.get("lmc_jitter") is None else {"jitter_val": cfg["lmc_jitter"]}

    class GP(gpytorch.models.ApproximateGP):
        def __init__(self):
            base = base_cls(self, Z, bdist, learn_inducing_locations=bool(cfg.get("learn_Z", True)), **jkw)
            if kind == "lmc":
                vs_ = V.LMCVariationalStrategy(base, num_tasks=Tn, num_latents=Qn, latent_dim=-1, **ljkw)
            else:
                vs_ = V.IndependentMultitaskVariationalStrategy(base, num_tasks=Tn)
            super().__init__(vs_)
            self.mean_module = gpytorch.means.ConstantMean(batch_shape=torch.Size(kb))
            self.covar_module = gpytorch.kernels.ScaleKernel(gpytorch.kernels.RBFKernel(batch_shape=torch.Size(kb)),
                                                             batch_shape=torch.Size(kb))

        def forward(self, x):
            return gpytorch.distributions.MultivariateNormal(self.mean_module(x), self.covar_module(x))

    model = GP().double()
    vs = model.variational_strategy
    base = vs.base_variational_strategy
    randomize_hypers(model, rng)
    base.variational_params_initialized.fill_(1)
    randomize_dist(bdist, rng)
    if kind == "lmc":
        with torch.no_grad():
            vs.lmc_coefficients.normal_()
    model = copy_step(ctx, cfg, model, x, rng)
    vs = model.variational_strategy
    base = vs.base_variational_strategy
    bdist = base._variational_distribution
    tau = [rng.randrange(Tn) for _ in range(n)]
    res = {}
    for mode in ("eval", "train"):
        model.train(mode == "train")
        with torch.no_grad():
            out = model(x)
            if kind == "indep-repeated":
                outi = out      # task_indices without a task batch dimension is rejected by the real code (RuntimeError)
                ctx.count("rejected_by_real_code:indep-repeated+task_indices")
            else:
                outi = model(x, task_indices=torch.tensor(tau))
            res[mode] = (out.mean.detach().clone(), out.covariance_matrix.detach().clone(), out.variance.detach().clone(),
                         vs.kl_divergence().detach().clone(), outi.mean.detach().clone(),
                         outi.covariance_matrix.detach().clone(), bool(getattr(out, "_interleaved", True)))
    whitened = cfg["base"] == "VariationalStrategy"
    eps_b = jitter_of_args(cfg.get("jitter"))
    xx, Zx = expand_inputs(x, (base.inducing_points if cfg.get("copy") else Z).detach())   # Z: the constructor ARGUMENT
    Kzz, Kzx, Kxx, mX, mZ = joint_blocks(model, Zx, xx, M)
    desc = f"{type(vs).__name__}[{kind}](base={cfg['base']}/{cfg['dist']}) Q={Qn} T={Tn} M={M} n={n} d={d} " \
           f"z_batched={cfg.get('z_batched', True)} k_batched={cfg.get('k_batched', True)}" \
           + "".join(f" {k_}={cfg[k_]}" for k_ in ("jitter", "lmc_jitter", "learn_Z", "copy") if cfg.get(k_) is not None)
    mus, Cs, kls, kap = [], [], [], 1.0
    kls_code = []
    nlat = Qn if lat else 1
    for q in range(nlat):
        idx = (q,) if lat else ()
        kzz, kzx, kxx = (fmat(bget(t, idx, 2)) for t in (Kzz, Kzx, Kxx))
        kzz = sym_lower(kzz)
        mx, mz = fcol(bget(mX, idx, 1)), fcol(bget(mZ, idx, 1))
        kap = max(kap, kappa_of(kzz, eps_b))
        if kap > COND_MAX:
            ctx.count("discarded_ill_conditioned")
            return
        m, S, R, hasS = exact_dist(drv, bdist, idx)
        if whitened:
            ex = exact_whitened(ctx, drv, desc, kzz, kzx, kxx, mx, eps_b, eps_b, m, S, hasS)
        else:
            ex = exact_unwhitened(ctx, drv, desc, kzz, kzx, kxx, mx, mz, eps_b, eps_b, m, S, R, hasS)
        mus.append(ex["mean"])
        Cs.append(ex["cov"])
        kls.append(ex["kl"])
        if not whitened:
            kls_code.append(ex["kl_code"] if ex["kl_code"] is not None else ex["kl"])
    if kind == "lmc":
        A = fmat(vs.lmc_coefficients.detach())
        eps_l = jitter_of_args(cfg.get("lmc_jitter"))
        mats = " ".join(toks(mu) for mu in mus) + " " + " ".join(toks(Cv) for Cv in Cs)
        fmean, fcov = drv.ask(f"L {Qn} {n} {Tn} {C.rat_str(eps_l)} {toks(A)} {mats}")
        imean, icov = drv.ask(f"LI {Qn} {n} {Tn} {C.rat_str(eps_l)} {toks(A)} {' '.join(map(str, tau))} {mats}")
        klx = sum(kls)
    else:
        if kind == "indep-repeated":
            mus, Cs, kls = mus * Tn, Cs * Tn, kls
        mats = " ".join(toks(mu) for mu in mus) + " " + " ".join(toks(Cv) for Cv in Cs)
        fmean, fcov = drv.ask(f"IN {Tn} {n} {mats}")
        imean, icov = drv.ask(f"LI {Tn} {n} {Tn} 0 {toks(eye(Tn))} {' '.join(map(str, tau))} {mats}")
        klx = sum(kls)
    key = f"{type(vs).__name__}:{kind}"
    cmp_ = Cmp(ctx, key, desc, {"cfg": cfg, "idx": [], "runner": "multitask"}, kap, M + n * Tn)
    for mode in ("eval", "train"):
        if mode == "train" and not whitened:
            continue      # training-mode covariance of the unwhitened base is diagonal-only: variances only, below
        mean, cov, var, kl, mi, ci, inter = res[mode]
        if not inter:
            ctx.broke("correspondence", "multitask-layout", f"{desc}: non-interleaved output")
        cmp_.mat(f"{mode}.mean", mean.tolist(), fmean)
        cmp_.mat(f"{mode}.covariance", cov.tolist(), fcov)
        if kind != "indep-repeated":
            cmp_.mat(f"{mode}.task_indices.mean", col(mi), imean)
            cmp_.mat(f"{mode}.task_indices.covariance", ci.tolist(), icov)
        if kl.dim() != 0:
            cmp_.bad.append((f"{mode}.kl", "shape", list(kl.shape), []))
        elif whitened:
            cmp_.scalar(f"{mode}.kl", float(kl), klx)
        else:
            klc = sum(kls_code) if kls_code and sum(kls_code) != klx else None
            report_kl(ctx, cmp_, f"{mode}.kl", float(kl), klx, klc,
                      f"UnwhitenedVariationalStrategy:base-of-{type(vs).__name__}/{mode}.kl[prior-jitter-mismatch]",
                      f"{key}/UnwhitenedBase/{mode}.divergence-formula", desc, {"cfg": cfg, "idx": [], "runner": "multitask"})
    if not whitened:
        mean, cov, var, kl, mi, ci, inter = res["train"]
        cmp_.mat("train.mean", mean.tolist(), fmean)
        cmp_.mat("train.variance", var.tolist(), [[fcov[i * Tn + t][i * Tn + t] for t in range(Tn)] for i in range(n)])
        cmp_.scalar("train.kl", float(kl), klx)
    cmp_.flush()
    ctx.case(desc + f" seed={C.seed()}")
    ctx.count(f"cases:{type(vs).__name__}")
    _state["worst"] = max(_state.get("worst", 0.0), cmp_.worst)


def run_multitask_batched(ctx, drv, cfg, rng, replay_only=None):
    """LMC / independent multitask over a *batch of models*: variational batch shape (Q latents x B models) with the
    latent (task) dimension at position `latent_dim` in {-1, -2}; Q != B and Q == B.  q(f) and the KL of every model
    against the closed form (KL of model b = sum over ITS latents)."""
    import torch
    import gpytorch
    V = gpytorch.variational
    torch.manual_seed(rng.torch_seed())
    kind, ld = cfg["kind"], cfg["latent_dim"]
    Qn, Bm, Tn, M, n, d = cfg["Q"], cfg["B"], cfg["T"], cfg["M"], cfg["n"], cfg["d"]
    bs = [Qn, Bm] if ld == -2 else [Bm, Qn]
    zb = bs if cfg.get("z_batched", True) else []
    kb = bs if cfg.get("k_batched", False) else []
    Z = spread_points([*zb, M, d], rng)
    x = spread_points([n, d], rng, lo=-2.5, hi=2.5, min_dist=0.2)
    base_cls = getattr(V, cfg["base"])
    bdist = getattr(V, cfg["dist"])(M, batch_shape=torch.Size(bs))

    class GP(gpytorch.models.ApproximateGP):
        def __init__(self):
            base = base_cls(self, Z, bdist, learn_inducing_locations=True)
            if kind == "lmc":
                vs_ = V.LMCVariationalStrategy(base, num_tasks=Tn, num_latents=Qn, latent_dim=ld)
            else:
                vs_ = V.IndependentMultitaskVariationalStrategy(base, num_tasks=Tn, task_dim=ld)
            super().__init__(vs_)
            self.mean_module = gpytorch.means.ConstantMean(batch_shape=torch.Size(kb))
            self.covar_module = gpytorch.kernels.ScaleKernel(gpytorch.kernels.RBFKernel(batch_shape=torch.Size(kb)),
                                                             batch_shape=torch.Size(kb))

        def forward(self, x):
            return gpytorch.distributions.MultivariateNormal(self.mean_module(x), self.covar_module(x))

    model = GP().double()
    vs = model.variational_strategy
    base = vs.base_variational_strategy
    randomize_hypers(model, rng)
    base.variational_params_initialized.fill_(1)
    randomize_dist(bdist, rng)
    if kind == "lmc":
        with torch.no_grad():
            vs.lmc_coefficients.normal_()
    tau = [rng.randrange(Tn) for _ in range(n)]
    model = copy_step(ctx, cfg, model, x, rng)
    vs = model.variational_strategy
    base = vs.base_variational_strategy
    bdist = base._variational_distribution
    whitened = cfg["base"] == "VariationalStrategy"
    desc = f"{type(vs).__name__}[{kind}] latent_dim={ld} Q={Qn} B={Bm} T={Tn} (base={cfg['base']}/{cfg['dist']}) M={M} n={n} " \
           f"d={d} z_batched={cfg.get('z_batched', True)} k_batched={cfg.get('k_batched', False)}" \
           + (f" copy={cfg['copy']}" if cfg.get("copy") else "")
    key = f"{type(vs).__name__}:{kind}/latent_dim={ld}"
    replay = {"cfg": cfg, "idx": None, "runner": "multitask_batched"}
    res = {}
    for mode in ("eval", "train"):
        model.train(mode == "train")
        with torch.no_grad():
            out = model(x)
            try:
                outi = model(x, task_indices=torch.tensor(tau))
                mi, ci = outi.mean.detach().clone(), outi.covariance_matrix.detach().clone()
            except RuntimeError:
                if kind == "lmc":
                    raise
                mi = ci = None     # independent wrapper: task_indices with task_dim=-2 is rejected by the real code
                ctx.count("rejected_by_real_code:indep+task_dim=-2+task_indices")
            res[mode] = (out.mean.detach().clone(), out.covariance_matrix.detach().clone(), out.variance.detach().clone(),
                         vs.kl_divergence().detach().clone(), mi, ci)
    eps_b = jitter_of_args(None)
    xx, Zx = expand_inputs(x, base.inducing_points.detach())
    xx = xx.expand(*bs, *xx.shape[-2:])
    Zx = Zx.expand(*bs, *Zx.shape[-2:])
    Kzz, Kzx, Kxx, mX, mZ = joint_blocks(model, Zx, xx, M)
    cmp_all = True
    for mode in ("eval", "train"):
        if tuple(res[mode][3].shape) != (Bm,):
            ctx.fail(f"{key}/{mode}.kl-shape", f"{desc}: kl_divergence() has shape {list(res[mode][3].shape)}, one value per "
                     f"model expected ({[Bm]})", dict(replay, observable=f"{mode}.kl-shape"))
            cmp_all = False
        if tuple(res[mode][0].shape) != (Bm, n, Tn):
            ctx.fail(f"{key}/{mode}.mean-shape", f"{desc}: mean has shape {list(res[mode][0].shape)}, expected {[Bm, n, Tn]}",
                     dict(replay, observable=f"{mode}.mean-shape"))
            cmp_all = False
    for b in range(Bm):
        if replay_only is not None and list(replay_only) != [b]:
            continue
        mus, Cs, kls, kls_code, kap = [], [], [], [], 1.0
        for q in range(Qn):
            idx = (q, b) if ld == -2 else (b, q)
            kzz, kzx, kxx = (fmat(bget(t, idx, 2)) for t in (Kzz, Kzx, Kxx))
            kzz = sym_lower(kzz)
            mx, mz = fcol(bget(mX, idx, 1)), fcol(bget(mZ, idx, 1))
            kap = max(kap, kappa_of(kzz, eps_b))
            m, S, R, hasS = exact_dist(drv, bdist, idx)
            if whitened:
                ex = exact_whitened(ctx, drv, desc, kzz, kzx, kxx, mx, eps_b, eps_b, m, S, hasS)
            else:
                ex = exact_unwhitened(ctx, drv, desc, kzz, kzx, kxx, mx, mz, eps_b, eps_b, m, S, R, hasS)
                kls_code.append(ex["kl_code"] if ex["kl_code"] is not None else ex["kl"])
            mus.append(ex["mean"])
            Cs.append(ex["cov"])
            kls.append(ex["kl"])
        if kap > COND_MAX:
            ctx.count("discarded_ill_conditioned")
            continue
        mats = " ".join(toks(mu) for mu in mus) + " " + " ".join(toks(Cv) for Cv in Cs)
        if kind == "lmc":
            A = fmat(vs.lmc_coefficients.detach()[:, b, :] if ld == -2 else vs.lmc_coefficients.detach()[b])
            eps_l = jitter_of_args(None)
            fmean, fcov = drv.ask(f"L {Qn} {n} {Tn} {C.rat_str(eps_l)} {toks(A)} {mats}")
            imean, icov = drv.ask(f"LI {Qn} {n} {Tn} {C.rat_str(eps_l)} {toks(A)} {' '.join(map(str, tau))} {mats}")
        else:
            fmean, fcov = drv.ask(f"IN {Tn} {n} {mats}")
            imean, icov = drv.ask(f"LI {Tn} {n} {Tn} 0 {toks(eye(Tn))} {' '.join(map(str, tau))} {mats}")
        klx = sum(kls)
        cmp_ = Cmp(ctx, key, desc + f" model={b}", dict(replay, idx=[b]), kap, M + n * Tn)
        for mode in ("eval", "train"):
            mean, cov, var, kl, mi, ci = res[mode]
            if not cmp_all:
                break
            full = whitened or mode == "eval"     # training-mode covariance of the unwhitened base: variances only
            cmp_.mat(f"{mode}.mean", mean[b].tolist(), fmean)
            if full:
                cmp_.mat(f"{mode}.covariance", cov[b].tolist(), fcov)
                if mi is not None:
                    cmp_.mat(f"{mode}.task_indices.mean", col(mi[b]), imean)
                    cmp_.mat(f"{mode}.task_indices.covariance", ci[b].tolist(), icov)
            else:
                cmp_.mat(f"{mode}.variance", var[b].tolist(), [[fcov[i * Tn + t][i * Tn + t] for t in range(Tn)] for i in range(n)])
            if whitened:
                cmp_.scalar(f"{mode}.kl", float(kl[b]), klx)
            else:
                klc = sum(kls_code) if (mode == "eval" and kls_code and sum(kls_code) != klx) else None
                report_kl(ctx, cmp_, f"{mode}.kl", float(kl[b]), klx, klc,
                          f"UnwhitenedVariationalStrategy:base-of-{type(vs).__name__}/{mode}.kl[prior-jitter-mismatch]",
                          f"{key}/UnwhitenedBase/{mode}.divergence-formula", desc + f" model={b}", dict(replay, idx=[b]))
        cmp_.flush()
        ctx.case(desc + f" model={b} seed={C.seed()}")
        ctx.count(f"cases:{type(vs).__name__}[batched,latent_dim={ld}]")
        _state["worst"] = max(_state.get("worst", 0.0), cmp_.worst)


def extra_configs(ctx):
    rng = ctx.rng("extra-configs")
    q = ctx.quick
    out = []
    # CIQ
    for dist in DISTS:
        for pat in (["none", "Z+params"] if q else ["none", "params", "Z+params", "x-only", "kernel+params"]):
            if q and pat == "Z+params" and dist in ("MeanFieldVariationalDistribution", "TrilNaturalVariationalDistribution"):
                continue
            out.append(("ciq", {"strategy": "CiqVariationalStrategy", "dist": dist, "pattern": pat, "M": rng.randint(2, 6),
                                "n": rng.randint(2, 5), "d": rng.choice([1, 2]), "kernel": rng.choice(["rbf", "matern"]),
                                "mean": "const", "jitter": None}))
    # batch decoupled
    for dist in [d_ for d_ in DISTS if d_ != "DeltaVariationalDistribution"]:
        variants = [([], [2], False), ([], [1], False), ([], [], False), ([2], [2, 2], True)]
        if q:
            variants = [variants[DISTS.index(dist) % 3], variants[3]]
        for outer, kb, mvbd in variants:
            out.append(("batch_decoupled", {"dist": dist, "outer": outer, "kb": kb, "mvbd": mvbd, "M": rng.randint(2, 5),
                                            "n": rng.randint(2, 5), "d": rng.choice([1, 2]),
                                            "kernel": rng.choice(["rbf", "matern"]), "mean": "const",
                                            "jitter": rng.choice([None, 1e-10])}))
    # orthogonally decoupled
    for base in ("VariationalStrategy", "UnwhitenedVariationalStrategy"):
        for dist in (DISTS[:2] if q else [DISTS[0], DISTS[1], DISTS[3], DISTS[4]]):
            for pb in ([[]] if q else [[], [2]]):
                out.append(("orth", {"base": base, "dist": dist, "pb": pb, "M": rng.randint(2, 5), "Mm": rng.randint(2, 6),
                                     "n": rng.randint(2, 5), "d": rng.choice([1, 2]), "kernel": rng.choice(["rbf", "matern"]),
                                     "jitter": rng.choice([None, 1e-4])}))
    # grid interpolation
    for dist in [d_ for d_ in DISTS if d_ != "DeltaVariationalDistribution"]:
        shapes = [(rng.randint(5, 8), 1, [])] + ([(6, 1, [2])] if not q or dist == DISTS[0] else []) \
            + ([(4, 2, [])] if not q or dist == DISTS[1] else [])
        for g, dim, pb in shapes:
            out.append(("grid", {"dist": dist, "g": g, "dim": dim, "n": rng.randint(2, 5), "pb": pb}))
    # multitask wrappers
    for kind in ("lmc", "indep", "indep-repeated"):
        for base in ("VariationalStrategy", "UnwhitenedVariationalStrategy"):
            for dist in ([DISTS[0], DISTS[1]] if q else DISTS):
                if q and ((kind != "lmc") and dist == DISTS[1]):
                    continue
                Qn = rng.randint(2, 3)
                out.append(("multitask", {"kind": kind, "base": base, "dist": dist, "Q": Qn,
                                          "T": Qn if kind == "indep" else rng.randint(2, 3), "M": rng.randint(2, 4),
                                          "n": rng.randint(2, 3), "d": rng.choice([1, 2]),
                                          "z_batched": rng.random() < 0.6, "k_batched": rng.random() < 0.6}))
    # multitask wrappers over a batch of models: latent/task dimension at -1 and -2, Q != B and Q == B
    for kind in ("lmc", "indep"):
        for ld in (-1, -2):
            for (Qn, Bm) in ([(2, 3), (2, 2)] if q else [(2, 3), (3, 2), (2, 2), (3, 3)]):
                for base in ("VariationalStrategy", "UnwhitenedVariationalStrategy"):
                    if q and base.startswith("Unwh") and Qn != Bm:
                        continue
                    out.append(("multitask_batched", {
                        "kind": kind, "latent_dim": ld, "Q": Qn, "B": Bm, "T": Qn if kind == "indep" else rng.randint(2, 3),
                        "base": base, "dist": rng.choice(DISTS[:2] if q else DISTS), "M": rng.randint(2, 3),
                        "n": rng.randint(2, 3), "d": rng.choice([1, 2]), "z_batched": rng.random() < 0.6,
                        "k_batched": False}))
    return out


def basic_configs(ctx):
    rng = ctx.rng("basic-configs")
    cfgs = []
    quick = ctx.quick
    for strat in ("VariationalStrategy", "UnwhitenedVariationalStrategy"):
        for dist in DISTS:
            pats = [p[0] for p in PATTERNS]
            # quick and thorough: the full cross product strategy x distribution x batch pattern
            for pat in pats:
                cfgs.append({"strategy": strat, "dist": dist, "pattern": pat,
                             "M": rng.randint(2, 6 if quick else 8), "n": rng.randint(2, 5 if quick else 8),
                             "d": rng.choice([1, 2, 2]), "kernel": rng.choice(["rbf", "matern"]),
                             "mean": rng.choice(["const", "const", "linear", "zero"]),
                             "jitter": rng.choice([None, None, 1e-10, 1e-4])})
        # the x == Z shortcut of the unwhitened strategy and the same inputs through the whitened one
        for dist in (DISTS[:2] if quick else DISTS):
            if dist == "DeltaVariationalDistribution" and strat == "UnwhitenedVariationalStrategy":
                continue  # the shortcut raises RuntimeError for a point mass (documented in the code)
            cfgs.append({"strategy": strat, "dist": dist, "pattern": "none", "M": rng.randint(2, 6), "n": 0,
                         "d": 2, "kernel": "rbf", "mean": "const", "jitter": 1e-10 if strat.startswith("Unwh") else None,
                         "x_eq_z": True})
    # rarely used branch: gpytorch.settings.trace_mode (dense arithmetic instead of lazy operators)
    for dist in DISTS:
        for pat in (["none", "Z+params"] if quick else [p_[0] for p_ in PATTERNS]):
            cfgs.append({"strategy": "VariationalStrategy", "dist": dist, "pattern": pat, "M": rng.randint(2, 5),
                         "n": rng.randint(2, 5), "d": rng.choice([1, 2]), "kernel": rng.choice(["rbf", "matern"]),
                         "mean": rng.choice(["const", "linear"]), "jitter": rng.choice([None, 1e-10]), "trace_mode": True})
    # op-then-use histories: the model was already used (memoised q(u), p(u), chol(Kzz)) before the observed calls
    hists = ["load", "load-partial", "load-train-first", "load-child", "second-x"]
    for pat in (["none"] if quick else ["none", "params", "Z+params"]):
        cfgs.append({"strategy": "VariationalStrategy", "dist": DISTS[0], "pattern": pat, "M": rng.randint(2, 5),
                     "n": rng.randint(2, 5), "d": rng.choice([1, 2]), "kernel": "matern", "mean": "const", "jitter": None,
                     "history": "load-old-format"})
    for strat in ("VariationalStrategy", "UnwhitenedVariationalStrategy"):
        for k, dist in enumerate(DISTS):
            for h in ([hists[k % len(hists)], hists[(k + 2) % len(hists)]] if quick else hists):
                cfgs.append({"strategy": strat, "dist": dist, "pattern": rng.choice(["none", "params", "Z+params"]),
                             "M": rng.randint(2, 5), "n": rng.randint(2, 5), "d": rng.choice([1, 2]),
                             "kernel": rng.choice(["rbf", "matern"]), "mean": "const", "jitter": None, "history": h,
                             "trace_mode": (not quick) and strat == "VariationalStrategy" and rng.random() < 0.3})
    # aliasing: x is the inducing-point tensor itself; legal-but-unusual: jitter_val = 0.0
    for strat in ("VariationalStrategy", "UnwhitenedVariationalStrategy"):
        cfgs.append({"strategy": strat, "dist": DISTS[0], "pattern": "none", "M": rng.randint(2, 5), "n": 0, "d": 2,
                     "kernel": "matern", "mean": "const", "jitter": 1e-10 if strat.startswith("Unwh") else None,
                     "x_eq_z": "alias"})
        for dist in (DISTS[:2] if quick else DISTS):
            cfgs.append({"strategy": strat, "dist": dist, "pattern": "none", "M": rng.randint(2, 4), "n": rng.randint(2, 4),
                         "d": 2, "kernel": "matern", "mean": "zero", "jitter": 0.0})
    if not quick:
        for _ in range(300):
            cfgs.append({"strategy": rng.choice(["VariationalStrategy", "UnwhitenedVariationalStrategy"]),
                         "dist": rng.choice(DISTS), "pattern": rng.choice(PATTERNS)[0], "M": rng.randint(1, 8),
                         "n": rng.randint(1, 8), "d": rng.choice([1, 2, 3]), "kernel": rng.choice(["rbf", "matern"]),
                         "mean": rng.choice(["const", "linear", "zero"]), "jitter": rng.choice([None, 1e-10, 1e-4, 1e-8])})
    return cfgs


def boundary_configs(ctx):
    """Round-3 classes (appended after the older jobs so that their rng labels stay what they were):
    (a) explicit constructor arguments at falsy / boundary values — `jitter_val=0.0` (constructor and setter; also with a
        moderately ill-conditioned Kzz, cond ~ 1e5..1e6), `learn_inducing_locations=False`, explicit `mean_init_std=0` /
        `0.0` with the initialisation path actually run (first call sets q(u) := p(u): q(f) = prior, KL = 0) — judged
        against the closed form of the ARGUMENTS;
    (b) copy histories — deepcopy / pickle / torch.save of the whole model, optionally after it was used, then new values
        for everything the copy (or the original) owns, then BOTH evaluated against their own closed forms."""
    rng = ctx.rng("boundary-configs")
    q = ctx.quick
    out = []
    two = ("VariationalStrategy", "UnwhitenedVariationalStrategy")

    def basic(strat, dist, **kw):
        c = {"strategy": strat, "dist": dist, "pattern": "none", "M": rng.randint(2, 5), "n": rng.randint(2, 5),
             "d": rng.choice([1, 2]), "kernel": rng.choice(["rbf", "matern"]), "mean": rng.choice(["const", "linear"]),
             "jitter": None}
        c.update(kw)
        return ("basic", c)
    # ---- (a) jitter_val = 0.0 / 0 (falsy), through the constructor and through the setter, ill-conditioned Kzz
    for strat in two:
        for k, dist in enumerate(DISTS[:2] if q else DISTS):
            for via in ("ctor", "setter"):
                out.append(basic(strat, dist, jitter=[0.0, 0][k % 2], jitter_via=via, M=rng.randint(5, 8), d=1, kernel="rbf",
                                 cond_target=rng.choice([1e5, 1e6])))
            out.append(basic(strat, dist, jitter=0.0, pattern=rng.choice(["params", "Z+params", "kernel+params"])))
    # ---- (a) learn_inducing_locations = False (inducing points registered as a buffer)
    for strat in two:
        for dist in (DISTS[:2] if q else DISTS):
            for pat in ("none", "Z+params"):
                out.append(basic(strat, dist, learn_Z=False, pattern=pat, jitter=rng.choice([None, 0.0, 1e-4])))
        out.append(basic(strat, DISTS[0], learn_Z=False, history="load"))
    # ---- (a) explicit mean_init_std = 0 and the initialisation path (nothing pre-initialised by the harness)
    k = 0
    for strat in two:
        for dist in DISTS:
            if strat.startswith("Unwh") and dist == "NaturalVariationalDistribution" and q:
                continue
            for pat in (["none"] if q else ["none", "params", "Z+params"]):
                k += 1
                out.append(basic(strat, dist, pattern=pat, mean_init_std=[0, 0.0][k % 2],
                                 init=["eval-first", "train-first"][(k // 2) % 2], jitter=rng.choice([None, 0.0, 1e-4])))
    # ---- (a) wrappers with falsy jitters / buffer inducing points
    out.append(("batch_decoupled", {"dist": DISTS[0], "outer": [], "kb": [2], "mvbd": False, "M": rng.randint(2, 4),
                                    "n": rng.randint(2, 4), "d": 1, "kernel": "rbf", "mean": "const", "jitter": 0.0}))
    for base in two:
        out.append(("orth", {"base": base, "dist": DISTS[0], "pb": [], "M": rng.randint(2, 4), "Mm": rng.randint(2, 4),
                             "n": rng.randint(2, 4), "d": 1, "kernel": "rbf", "jitter": 0.0,
                             "learn_Z": base.startswith("Unwh")}))
    out.append(("ciq", {"strategy": "CiqVariationalStrategy", "dist": DISTS[0], "pattern": "none", "M": rng.randint(2, 4),
                        "n": rng.randint(2, 4), "d": 1, "kernel": "rbf", "mean": "const", "jitter": 0.0}))
    for kind, lj, lz in (("lmc", 0.0, False), ("lmc", 0, True), ("indep", None, False)):
        Qn = rng.randint(2, 3)
        out.append(("multitask", {"kind": kind, "base": "VariationalStrategy", "dist": rng.choice(DISTS[:2]), "Q": Qn,
                                  "T": Qn if kind == "indep" else rng.randint(2, 3), "M": rng.randint(2, 4),
                                  "n": rng.randint(2, 3), "d": 1, "z_batched": True, "k_batched": True,
                                  "jitter": 0.0, "lmc_jitter": lj, "learn_Z": lz}))
    # ---- (b) copy histories
    combos = [("copy", "copy"), ("copy", "original"), ("original", "copy"), ("original", "original")]
    hows = [("deepcopy", []), ("deepcopy", ["eval"]), ("pickle", ["train", "eval"]), ("torch.save", []),
            ("pickle", []), ("deepcopy", ["train", "eval"])]
    pair = 0
    for si, strat in enumerate(two):
        for hi, (how, pre) in enumerate(hows[:3] if q else hows):
            base_cfg = basic(strat, DISTS[(si + hi) % len(DISTS)] if not q else DISTS[hi % 2],
                             pattern=["none", "params", "Z+params"][hi % 3])[1]
            pair += 1
            for mod, ev in combos:
                out.append(("basic", dict(base_cfg, copy={"how": how, "pre_call": pre, "modify": mod, "eval": ev},
                                          rng_label=f"copy:{pair}")))
    wrappers = [
        ("batch_decoupled", {"dist": DISTS[0], "outer": [], "kb": [2], "mvbd": False, "M": 3, "n": 3, "d": 1, "kernel": "rbf",
                             "mean": "const", "jitter": None}),
        ("orth", {"base": "VariationalStrategy", "dist": DISTS[0], "pb": [], "M": 3, "Mm": 3, "n": 3, "d": 1,
                  "kernel": "rbf", "jitter": None}),
        ("grid", {"dist": DISTS[0], "g": 6, "dim": 1, "n": 3, "pb": []}),
        ("ciq", {"strategy": "CiqVariationalStrategy", "dist": DISTS[1], "pattern": "none", "M": 3, "n": 3, "d": 1,
                 "kernel": "rbf", "mean": "const", "jitter": None}),
        ("multitask", {"kind": "lmc", "base": "VariationalStrategy", "dist": DISTS[0], "Q": 2, "T": 3, "M": 3, "n": 2, "d": 1,
                       "z_batched": True, "k_batched": True}),
        ("multitask", {"kind": "indep", "base": "UnwhitenedVariationalStrategy", "dist": DISTS[1], "Q": 2, "T": 2, "M": 3,
                       "n": 2, "d": 1, "z_batched": False, "k_batched": True}),
        ("multitask_batched", {"kind": "lmc", "latent_dim": -2, "Q": 2, "B": 2, "T": 2, "base": "VariationalStrategy",
                               "dist": DISTS[0], "M": 2, "n": 2, "d": 1, "z_batched": True, "k_batched": False}),
    ]
    # ---- (c) round 4: the user-visible tolerance settings must be in force in the iterative solves (CIQ, both paths)
    for k_, dist in enumerate([DISTS[3]] * (3 if q else 8) + [DISTS[0], DISTS[1]] * (1 if q else 2)):
        out.append(("ciq_tol", {"dist": dist, "M": rng.randint(16, 40), "n": rng.randint(3, 6), "d": 2,
                                "kernel": rng.choice(["rbf", "matern"]), "mean": "const", "jitter": None,
                                "prec_cond": [1e4, 1e4, 1e3, 1e5][k_ % 4]}))
    for wi, (runner, wcfg) in enumerate(wrappers):
        pair += 1
        how, pre = hows[wi % len(hows)]
        for mod, ev in (combos[:3] if q else combos):
            out.append((runner, dict(wcfg, copy={"how": how, "pre_call": pre, "modify": mod, "eval": ev},
                                     rng_label=f"copy:{pair}")))
    return out


def guarded(ctx, drv, runner, cfg):
    """Run one configuration; an exception raised by the *real code* on a valid configuration is a failure of the
    property on that input (driver / harness problems are re-raised and end up as a broken correspondence)."""
    import traceback
    try:
        RUNNERS[runner](ctx, drv, cfg, ctx.rng(cfg["rng_label"]))
    except DriverFail as e:
        ctx.count("discarded_driver_fail")
        ctx.notes.setdefault("driver_fail_examples", []).append(str(e)[:100])
    except Exception as e:
        tb = traceback.format_exc()
        if "/gpytorch/" in tb or "/linear_operator/" in tb or "torch" in type(e).__module__:
            who = cfg.get("strategy") or cfg.get("base") or runner
            ctx.fail(f"{runner}:{who}/raises", f"{runner} {cfg}: real code raised {type(e).__name__}: {str(e)[:200]}",
                     {"cfg": cfg, "runner": runner, "idx": None})
        elif isinstance(e, DriverDead):
            raise                      # neither the generated nor the hand-written driver runs: nothing can be judged
        else:
            ctx.count("harness_errors")
            if ctx.counters.get("harness_errors", 0) <= 3:
                ctx.broke("correspondence", f"harness-error:{runner}", tb[-1500:])


def correspondence(ctx):
    import torch
    import warnings
    torch.set_num_threads(2)
    warnings.simplefilter("ignore")
    drv = open_driver(ctx)
    try:
        jobs = [("basic", cfg) for cfg in basic_configs(ctx)] + extra_configs(ctx) + boundary_configs(ctx)
        for i, (runner, cfg) in enumerate(jobs):
            cfg.setdefault("rng_label", f"{runner}:{i}")     # (the members of a copy-history pair share their label)
            guarded(ctx, drv, runner, cfg)
    finally:
        drv.close()
    ctx.notes["worst_relative_error"] = _state.get("worst", 0.0)
    ctx.notes["worst_relative_error_ciq"] = _state.get("worst_ciq", 0.0)
    ctx.notes["worst_error_over_tolerance_ciq_tolerance_cells"] = _state.get("worst_ciq_tol", 0.0)
    ctx.notes["driver_requests"] = drv.n


def search(ctx, broken):
    """A proof / the translator / the generated driver broke and the regular generators found no failing input: widen
    to the thorough-tier generators (every batch pattern under trace_mode, every history for every distribution, all
    wrappers for all distributions).  The oracle is the hand-written closed form (`closedForm`, certified inverses);
    it does not depend on the generated definitions, and `open_driver` falls back to the hand-written driver when the
    generated one does not run."""
    if ctx.failures:
        return
    import torch
    import warnings
    torch.set_num_threads(2)
    warnings.simplefilter("ignore")
    tier = ctx.tier
    ctx.tier = "thorough"
    try:
        jobs = [("basic", c) for c in basic_configs(ctx) if c.get("trace_mode") or c.get("history") or c.get("x_eq_z")
                or c.get("jitter") == 0.0] + extra_configs(ctx) + boundary_configs(ctx)
    finally:
        ctx.tier = tier
    drv = open_driver(ctx)
    try:
        for i, (runner, cfg) in enumerate(jobs):
            cfg["rng_label"] = f"search:{cfg['rng_label']}" if "rng_label" in cfg else f"search:{runner}:{i}"
            guarded(ctx, drv, runner, cfg)
            if len(ctx.failures) > 40:
                break
    finally:
        drv.close()


def replay(ctx, payload):
    import torch
    import warnings
    torch.set_num_threads(2)
    warnings.simplefilter("ignore")
    case = payload["case"]
    drv = open_driver(ctx)
    try:
        # the rng stream is a function of (seed, label): re-derive it from the recorded seed
        os.environ["VERIF_SEED"] = str(payload.get("seed", 0))
        label = case["cfg"].get("rng_label", "")
        runner = RUNNERS[case.get("runner", "basic")]
        runner(ctx, drv, case["cfg"], ctx.rng(label), replay_only=case.get("idx"))
    finally:
        drv.close()
    return not ctx.failures


RUNNERS = {"basic": run_basic, "ciq": run_ciq, "ciq_tol": run_ciq_tol, "batch_decoupled": run_batch_decoupled, "orth": run_orth,
           "grid": run_grid, "multitask": run_multitask, "multitask_batched": run_multitask_batched}

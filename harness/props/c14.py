"""C14 — variational predictive q(f) and KL equal their closed forms for every strategy.

Tie: correspondence.  The real strategies (imported from $VERIF_REPO) are run in float64; for every batch
element the model's own dense Kzz / Kzx / Kxx / means / inducing points / variational parameters are shipped
as exact rationals to `lean/drivers/C14.lean`, which executes `GPVerif.Model.Variational` over ℚ — both the
code-path form (through the Cholesky factor L / the root R) and the property's closed form (through the
certified inverse of K̃ = Kzz + εI).  Irrational primitives (Cholesky factor of K̃, roots of S, the symmetric
root for CIQ) are supplied by mpmath at 300 bits and rounded to 2⁻²⁴⁰, and the driver reports the exact
residual ‖L Lᵀ − K̃‖∞, so the theorem instance "code path = closed form" is itself observed to ~1e-60.
Log-determinants: determinant exact from the driver (certified LDLᵀ), logarithm by mpmath.
"""
import ast
import itertools
import math
import os
import subprocess
from fractions import Fraction

from lib import common as C

ID = "C14"
PROP_MODULES = ["GPVerif.Props.C14"]
BUILD_TARGETS = ["GPVerif.Props.C14", "GPVerif.Model.Variational"]
RULE = ("strategy x variational-distribution class x batch pattern (inducing points / parameters / data / kernel "
        "hyper-parameters) x kernel family x mean x jitter (default, 1e-10) x mode (eval: mean+full covariance+KL, "
        "train: mean+variances+KL); every batch element is one case, compared against the exact closed form; "
        "distinct = distinct (config, batch index, seed-derived parameters); non-trivial = q(u) != p(u), M>=2, n>=2")
TRUSTED = ["kernel / mean evaluation of gpytorch (the dense Kzz, Kzx, Kxx, mX, mZ are read from the model itself: C05)",
           "mpmath 300-bit Cholesky / symmetric square root used as the *specification* of the irrational primitives "
           "(residual reported exactly by the driver)",
           "cubic interpolation weights of GridInterpolationVariationalStrategy._compute_grid (C09)"]
ASSUMPTIONS = ["linear_operator primitives (psd_safe_cholesky, triangular solve, CholLinearOperator.solve, "
               "root_decomposition, inv_quad_logdet, sqrt_inv_matmul) meet their contracts to float64 rounding",
               "KL(Delta(m) || p) is *defined* by the code as -log p(m) (registered KL); batch-decoupled KL is the sum "
               "KL(Delta(m)||p) + KL(N(0,S)||p) of Jankowiak et al."]
EXHAUSTIVE = False

PREC = 240           # bits kept when an irrational primitive is rounded to a rational
COND_MAX = 1e7
_state = {}


# ------------------------------------------------------------------ exact helpers

def F(x):
    return C.frac(x)


def fmat(t):
    """2-D tensor/array/list -> list of lists of Fractions."""
    rows = t.tolist() if hasattr(t, "tolist") else t
    return [[F(v) for v in row] for row in rows]


def fcol(t):
    vals = t.tolist() if hasattr(t, "tolist") else list(t)
    return [[F(v)] for v in vals]


def toks(Mx):
    r = len(Mx)
    c = len(Mx[0]) if r else 0
    return f"{r} {c} " + " ".join(C.rat_str(v) for row in Mx for v in row)


def zeros(r, c):
    return [[Fraction(0)] * c for _ in range(r)]


def eye(n):
    return [[Fraction(int(i == j)) for j in range(n)] for i in range(n)]


def madd(A, B, s=1):
    return [[a + s * b for a, b in zip(ra, rb)] for ra, rb in zip(A, B)]


def mmul(A, B):
    Bt = list(zip(*B))
    return [[sum(a * b for a, b in zip(row, col)) for col in Bt] for row in A]


def mT(A):
    return [list(r) for r in zip(*A)]


def sym_lower(A):
    """Symmetric matrix read off the lower triangle (what a Cholesky factorisation reads); float kernel
    matrices are symmetric only up to one ulp."""
    return [[A[max(i, j)][min(i, j)] for j in range(len(A))] for i in range(len(A))]


def add_jit(A, e):
    return [[v + (e if i == j else 0) for j, v in enumerate(row)] for i, row in enumerate(A)]


def _mp():
    import mpmath as mp
    mp.mp.prec = 300
    return mp


def to_frac(x):
    mp = _mp()
    return Fraction(int(mp.nint(mp.ldexp(x, PREC))), 1 << PREC)


def mpf(q):
    mp = _mp()
    return mp.mpf(q.numerator) / mp.mpf(q.denominator)


def hp_chol(A):
    """Lower Cholesky factor of an exact symmetric PD rational matrix, rounded to 2^-PREC."""
    mp = _mp()
    n = len(A)
    L = [[mp.mpf(0)] * n for _ in range(n)]
    for i in range(n):
        for j in range(i + 1):
            s = mpf(A[i][j]) - sum(L[i][k] * L[j][k] for k in range(j))
            if i == j:
                if s <= 0:
                    raise ValueError("hp_chol: not positive definite")
                L[i][j] = mp.sqrt(s)
            else:
                L[i][j] = s / L[j][j]
    return [[to_frac(v) for v in row] for row in L]


def hp_sym_sqrt(A):
    """Symmetric PD square root (for CIQ: K^{1/2}), rounded to 2^-PREC."""
    mp = _mp()
    n = len(A)
    Am = mp.matrix(n, n)
    for i in range(n):
        for j in range(n):
            Am[i, j] = mpf(A[i][j])
    E, Qm = mp.eigsy(Am)
    R = Qm * mp.diag([mp.sqrt(E[i]) for i in range(n)]) * Qm.T
    R = (R + R.T) / 2
    return [[to_frac(R[i, j]) for j in range(n)] for i in range(n)]


def log_frac(q):
    mp = _mp()
    return mp.log(mpf(q))


def fl(Mx):
    return [[float(v) for v in row] for row in Mx]


# ------------------------------------------------------------------ interactive driver

class Driver:
    def __init__(self, name="C14"):
        self.p = subprocess.Popen(["lake", "env", "lean", "--run", f"drivers/{name}.lean"], cwd=C.LEAN_DIR,
                                  stdin=subprocess.PIPE, stdout=subprocess.PIPE, stderr=subprocess.PIPE,
                                  text=True, bufsize=1)
        self.n = 0

    def ask(self, line):
        """Returns list of matrices (lists of lists of Fractions) or raises RuntimeError."""
        self.p.stdin.write(line + "\n")
        self.p.stdin.flush()
        self.n += 1
        while True:
            rep = self.p.stdout.readline()
            if rep == "":
                err = self.p.stderr.read()
                raise RuntimeError(f"driver died: {err[-1500:]}")
            rep = rep.rstrip("\n")
            if rep.startswith("ok") or rep.startswith("fail"):
                break
            if not C._is_lean_diag(rep):
                raise RuntimeError(f"driver: unexpected output {rep[:300]}")
        if rep.startswith("fail"):
            raise DriverFail(rep)
        t = rep.split()[1:]
        out, pos = [], 0
        while pos < len(t):
            m, pos = C.parse_mat(t, pos)
            out.append(m)
        return out

    def close(self):
        try:
            self.p.stdin.close()
            self.p.wait(timeout=30)
        except Exception:
            self.p.kill()


class DriverFail(Exception):
    pass


def sc(m):
    """1x1 matrix -> Fraction, 0x0 -> None."""
    return m[0][0] if m else None


# ------------------------------------------------------------------ model zoo (real code)

def make_gp(cfg, Z, dist_cls, dist_batch, strat_kwargs=None):
    import gpytorch
    import torch
    V = gpytorch.variational
    kb = torch.Size(cfg.get("kb", []))
    M = Z.shape[-2]
    dist = getattr(V, dist_cls)(M, batch_shape=torch.Size(dist_batch))
    strat_cls = getattr(V, cfg["strategy"])
    kw = dict(strat_kwargs or {})
    if cfg.get("jitter") is not None:
        kw["jitter_val"] = cfg["jitter"]

    class GP(gpytorch.models.ApproximateGP):
        def __init__(self):
            vs = strat_cls(self, Z, dist, learn_inducing_locations=True, **kw)
            super().__init__(vs)
            if cfg.get("mean", "const") == "const":
                self.mean_module = gpytorch.means.ConstantMean(batch_shape=kb)
            elif cfg["mean"] == "linear":
                self.mean_module = gpytorch.means.LinearMean(Z.shape[-1], batch_shape=kb)
            else:
                self.mean_module = gpytorch.means.ZeroMean(batch_shape=kb)
            if cfg.get("kernel", "rbf") == "rbf":
                base = gpytorch.kernels.RBFKernel(batch_shape=kb)
            else:
                base = gpytorch.kernels.MaternKernel(nu=2.5, batch_shape=kb)
            self.covar_module = gpytorch.kernels.ScaleKernel(base, batch_shape=kb)

        def forward(self, x):
            return gpytorch.distributions.MultivariateNormal(self.mean_module(x), self.covar_module(x))

    model = GP().double()
    return model, dist


def randomize_hypers(model, rng):
    import torch
    with torch.no_grad():
        ls = model.covar_module.base_kernel.lengthscale
        model.covar_module.base_kernel.lengthscale = torch.empty_like(ls).uniform_(0.7, 1.6)
        os_ = model.covar_module.outputscale
        model.covar_module.outputscale = torch.empty_like(os_).uniform_(0.5, 2.0)
        for p in model.mean_module.parameters():
            p.uniform_(-1.0, 1.0)


def spread_points(shape, rng, lo=-2.0, hi=2.0, min_dist=0.45):
    """Random points with a minimum pairwise distance (keeps Kzz well conditioned)."""
    import torch
    *b, k, d = shape
    out = torch.empty(*b, k, d, dtype=torch.float64)
    flat = out.view(-1, k, d)
    for bi in range(flat.shape[0]):
        pts = []
        tries = 0
        while len(pts) < k:
            p = [rng.uniform(lo, hi) for _ in range(d)]
            tries += 1
            md = min_dist if tries < 400 else 0.0
            if all(math.dist(p, q) >= md for q in pts):
                pts.append(p)
        flat[bi] = torch.tensor(pts, dtype=torch.float64)
    return out


def randomize_dist(dist, rng):
    """Random, well-conditioned variational parameters (junk in the masked upper triangle on purpose)."""
    import torch
    name = type(dist).__name__
    with torch.no_grad():
        if name == "CholeskyVariationalDistribution":
            dist.variational_mean.normal_()
            P = dist.chol_variational_covar
            P.normal_().mul_(0.4)
            d = P.diagonal(dim1=-2, dim2=-1)
            d.copy_(torch.empty_like(d).uniform_(0.5, 1.5) * torch.where(torch.rand_like(d) < 0.25, -1.0, 1.0))
        elif name == "MeanFieldVariationalDistribution":
            dist.variational_mean.normal_()
            s = dist._variational_stddev
            s.copy_(torch.empty_like(s).uniform_(0.4, 1.6) * torch.where(torch.rand_like(s) < 0.3, -1.0, 1.0))
        elif name == "DeltaVariationalDistribution":
            dist.variational_mean.normal_()
        elif name == "NaturalVariationalDistribution":
            dist.natural_vec.normal_()
            A = torch.randn_like(dist.natural_mat) * 0.4
            Pm = A @ A.transpose(-1, -2) + torch.eye(A.shape[-1], dtype=A.dtype)
            Pm = (Pm + Pm.transpose(-1, -2)) / 2
            dist.natural_mat.copy_(Pm.mul(-0.5))
        elif name == "TrilNaturalVariationalDistribution":
            dist.natural_vec.normal_()
            T = torch.randn_like(dist.natural_tril_mat).mul(0.4).tril(-1)
            dg = torch.empty_like(T.diagonal(dim1=-2, dim2=-1)).uniform_(0.6, 1.6)
            dist.natural_tril_mat.copy_(T + torch.diag_embed(dg))
        else:
            raise RuntimeError(f"unknown distribution {name}")


def bget(t, idx, nb_event):
    """Index the batch dims of `t` (all but the last nb_event dims) by the broadcast multi-index idx."""
    bs = t.shape[:t.dim() - nb_event]
    k = len(bs)
    sub = idx[len(idx) - k:] if k else ()
    sel = tuple(0 if s == 1 else i for s, i in zip(bs, sub))
    return t[sel] if sel else t


# ------------------------------------------------------------------ exact side: distributions

def exact_dist(drv, dist, idx):
    """(m column, S, R root, hasS, kind) as Fractions for batch element idx of a variational distribution."""
    name = type(dist).__name__
    if name == "CholeskyVariationalDistribution":
        m = fcol(bget(dist.variational_mean.detach(), idx, 1))
        P = fmat(bget(dist.chol_variational_covar.detach(), idx, 2))
        S, R = drv.ask(f"DC {len(P)} {toks(P)}")
        return m, S, R, 1
    if name == "MeanFieldVariationalDistribution":
        m = fcol(bget(dist.variational_mean.detach(), idx, 1))
        s = fcol(bget(dist._variational_stddev.detach(), idx, 1))
        (S,) = drv.ask(f"DM {len(s)} {toks(s)}")
        R = [[abs(s[i][0]) if i == j else Fraction(0) for j in range(len(s))] for i in range(len(s))]
        return m, S, R, 1
    if name == "DeltaVariationalDistribution":
        m = fcol(bget(dist.variational_mean.detach(), idx, 1))
        k = len(m)
        return m, zeros(k, k), zeros(k, 1), 0
    if name == "NaturalVariationalDistribution":
        e1 = fcol(bget(dist.natural_vec.detach(), idx, 1))
        e2 = fmat(bget(dist.natural_mat.detach(), idx, 2))
        mu, S, b1, b2 = drv.ask(f"DN {len(e1)} {toks(e1)} {toks(e2)}")
        if b1 != e1 or b2 != e2:
            raise RuntimeError("model: natural round trip is not the identity")
        return mu, S, hp_chol(S), 1
    if name == "TrilNaturalVariationalDistribution":
        e1 = fcol(bget(dist.natural_vec.detach(), idx, 1))
        T = fmat(bget(dist.natural_tril_mat.detach(), idx, 2))
        mu, S = drv.ask(f"DT {len(e1)} {toks(e1)} {toks(T)}")
        return mu, S, hp_chol(S), 1
    raise RuntimeError(name)


# ------------------------------------------------------------------ comparison

class Cmp:
    """Collects |real - exact| against tolerance; reports through ctx.fail."""

    def __init__(self, ctx, key, desc, replay, kappa, dim):
        self.ctx, self.key, self.desc, self.replay = ctx, key, desc, replay
        self.slack = 64.0 * dim * max(kappa, 1.0) * 2.0 ** -52
        self.bad = []
        self.worst = 0.0

    def tol(self, scale):
        return (1e-9 + self.slack) * scale + 1e-12

    def mat(self, what, real, exact, scale=None):
        """real: nested list of floats; exact: nested list of Fractions (same shape)."""
        ex = fl(exact)
        if len(real) != len(ex) or any(len(a) != len(b) for a, b in zip(real, ex)):
            self.bad.append((what, "shape", [len(real), len(real[0]) if real else 0], [len(ex), len(ex[0]) if ex else 0]))
            return
        sc_ = scale if scale is not None else max([1.0] + [abs(v) for row in ex for v in row])
        err = max([0.0] + [abs(a - b) if a == a else float("inf") for ra, rb in zip(real, ex) for a, b in zip(ra, rb)])
        self.worst = max(self.worst, err / sc_)
        if not err <= self.tol(sc_):
            self.bad.append((what, err, self.tol(sc_)))

    def scalar(self, what, real, exact, scale=None):
        ex = float(exact)
        sc_ = scale if scale is not None else max(1.0, abs(ex))
        err = abs(real - ex) if real == real else float("inf")
        self.worst = max(self.worst, err / sc_)
        if not err <= self.tol(sc_):
            self.bad.append((what, err, self.tol(sc_), real, ex))

    def flush(self):
        for b in self.bad:
            what = b[0]
            self.ctx.fail(f"{self.key}/{what}",
                          f"{self.desc}: {what} differs from the closed form by {b[1]} (tolerance {b[2]})"
                          + (f" real={b[3]!r} exact={b[4]!r}" if len(b) > 3 and b[1] != "shape" else ""),
                          dict(self.replay, observable=what))
        return not self.bad


def kl_mvn(R_, detS, detP):
    """0.5 * (rational part - log(detS/detP)) as float (mpmath log)."""
    return float((mpf(R_) - log_frac(detS) + log_frac(detP)) / 2)


def kl_delta(quad, detP, M):
    mp = _mp()
    return float((mpf(quad) + log_frac(detP) + M * mp.log(2 * mp.pi)) / 2)


# ------------------------------------------------------------------ one (strategy, config) run

DISTS = ["CholeskyVariationalDistribution", "MeanFieldVariationalDistribution", "DeltaVariationalDistribution",
         "NaturalVariationalDistribution", "TrilNaturalVariationalDistribution"]

# batch patterns: (name, Z batch, parameter batch, x batch, kernel batch)
PATTERNS = [
    ("none", [], [], [], []),
    ("params", [], [2], [], []),
    ("Z+params", [2], [2], [], []),
    ("Z-only", [2], [], [], []),
    ("x-only", [], [], [2], []),
    ("x+params", [], [2], [2], []),
    ("kernel+params", [], [2], [], [2]),
    ("kernel-only", [], [], [], [2]),
    ("2d", [2, 1], [2, 3], [], []),
    ("2d-x", [3], [3], [2, 1], []),
    ("all", [2], [2], [2], [2]),
]


def joint_blocks(model, Zx, xx, M):
    """Dense blocks of the prior at [Z; x] exactly as the strategies slice them (lazy slicing, then to_dense)."""
    import torch
    with torch.no_grad():
        full = torch.cat([Zx, xx], dim=-2)
        out = model.forward(full)
        cov = out.lazy_covariance_matrix
        return (cov[..., :M, :M].to_dense(), cov[..., :M, M:].to_dense(), cov[..., M:, M:].to_dense(),
                out.mean[..., M:], out.mean[..., :M])


def expand_inputs(x, Z):
    import torch
    bs = torch.broadcast_shapes(Z.shape[:-2], x.shape[:-2])
    return x.expand(*bs, *x.shape[-2:]), Z.expand(*bs, *Z.shape[-2:])


def run_basic(ctx, drv, cfg, rng, replay_only=None):
    """VariationalStrategy / UnwhitenedVariationalStrategy: eval (mean, cov, KL) and train (mean, var, KL)."""
    import torch
    import gpytorch
    torch.manual_seed(rng.torch_seed())
    strat = cfg["strategy"]
    whitened = strat == "VariationalStrategy"
    pname, zb, pb, xb, kb = next(p for p in PATTERNS if p[0] == cfg["pattern"])
    M, n, d = cfg["M"], cfg["n"], cfg["d"]
    Z = spread_points([*zb, M, d], rng)
    if cfg.get("x_eq_z"):
        x = Z.clone()
        n = M
    else:
        x = spread_points([*xb, n, d], rng, lo=-2.5, hi=2.5, min_dist=0.2)
    model, dist = make_gp(dict(cfg, kb=kb), Z, cfg["dist"], pb)
    vs = model.variational_strategy
    randomize_hypers(model, rng)
    vs.variational_params_initialized.fill_(1)
    randomize_dist(dist, rng)
    eps = F(vs.jitter_val)
    results = {}
    for mode in ("eval", "train"):
        model.train(mode == "train")
        with torch.no_grad():
            kl_before = vs.kl_divergence().detach().clone() if mode == "eval" else None
            out = model(x)
            mean = out.mean.detach().clone()
            if mode == "eval":
                cov = out.covariance_matrix.detach().clone()
                var = None
            else:
                cov = None
                var = out.variance.detach().clone()
            kl = vs.kl_divergence().detach().clone()
        results[mode] = (mean, cov, var, kl, kl_before)
    xx, Zx = expand_inputs(x, vs.inducing_points.detach())
    Kzz, Kzx, Kxx, mX, mZ = joint_blocks(model, Zx, xx, M)
    out_batch = tuple(results["eval"][0].shape[:-1])
    ok_all = True
    for idx in itertools.product(*[range(s) for s in out_batch]):
        if replay_only is not None and list(idx) != list(replay_only):
            continue
        kzz, kzx, kxx = (fmat(bget(t, idx, 2)) for t in (Kzz, Kzx, Kxx))
        kzz = sym_lower(kzz)
        mx, mz = fcol(bget(mX, idx, 1)), fcol(bget(mZ, idx, 1))
        import numpy as np
        kt_f = np.array(fl(add_jit(kzz, eps)))
        kappa = float(np.linalg.cond(kt_f))
        desc = f"{strat}/{cfg['dist']} pattern={pname} M={M} n={n} d={d} kernel={cfg.get('kernel','rbf')} " \
               f"mean={cfg.get('mean','const')} jitter={cfg.get('jitter')} x_eq_z={bool(cfg.get('x_eq_z'))} idx={list(idx)}"
        if kappa > COND_MAX:
            ctx.count("discarded_ill_conditioned")
            continue
        try:
            m, S, R, hasS = exact_dist(drv, dist, idx)
        except DriverFail:
            ctx.count("discarded_singular_parameters")
            continue
        replay = {"cfg": cfg, "idx": list(idx), "runner": "basic"}
        key = f"{strat}:{cfg['dist'].replace('VariationalDistribution', '')}"
        cmp_ = Cmp(ctx, key, desc, replay, kappa, M + n)
        # the distribution object itself: mean / covariance encoded by the parameters
        with torch.no_grad():
            qd = dist()
            qmean = bget(qd.mean, idx, 1).tolist()
            cmp_.mat("dist.mean", [[v] for v in qmean], m)
            if hasS:
                cmp_.mat("dist.covariance", bget(qd.covariance_matrix, idx, 2).tolist(), S)
        Mi = len(m)
        if whitened:
            kt = add_jit(kzz, eps)
            L = hp_chol(kt)
            rep = drv.ask(f"W {Mi} {n} {toks(kzz)} {toks(kzx)} {toks(kxx)} {toks(mx)} {C.rat_str(eps)} {C.rat_str(eps)} "
                          f"{toks(L)} {toks(m)} {toks(S)} {hasS}")
            cmean, ccov, fmean, fcov, resid, klw, detSw, klu, detS, detKt, quadw, quadu = rep
            model_gap = max(max(abs(a - b) for ra, rb in zip(X, Y) for a, b in zip(ra, rb))
                            for X, Y in ((cmean, fmean), (ccov, fcov)))
            if float(model_gap) > 1e-40 or float(sc(resid)) > 1e-60:
                ctx.broke("correspondence", "model-codepath-vs-closedform",
                          f"{desc}: gap {float(model_gap)} resid {float(sc(resid))}")
            if hasS:
                klx = kl_mvn(sc(klw), sc(detSw), Fraction(1))
                # invariance of the KL under u = mz + L e (theorem kl_whitened_eq_kl_unwhitened, observed)
                klx_u = kl_mvn(sc(klu), sc(detS), sc(detKt))
                if abs(klx - klx_u) > 1e-9 * max(1.0, abs(klx)):
                    ctx.broke("correspondence", "model-kl-invariance", f"{desc}: {klx} vs {klx_u}")
            else:
                klx = kl_delta(sc(quadw), Fraction(1), Mi)
            train_var = [ccov[i][i] for i in range(n)]
            kl_train = klx
        else:
            if cfg.get("x_eq_z"):
                # `torch.equal(x, inducing_points)` shortcut: q(f) = q(u); this is the closed form at ε = 0
                fmean, fcov = m, S
                kt = add_jit(kzz, eps)
                rep = drv.ask(f"U {Mi} {n} {len(R[0])} {toks(kzz)} {toks(kzx)} {toks(kxx)} {toks(mx)} {toks(mz)} "
                              f"{C.rat_str(eps)} 0 {C.rat_str(eps)} {toks(m)} {toks(R)} {toks(S)} {hasS}")
                train_var = [S[i][i] for i in range(n)]
            else:
                rep = drv.ask(f"U {Mi} {n} {len(R[0])} {toks(kzz)} {toks(kzx)} {toks(kxx)} {toks(mx)} {toks(mz)} "
                              f"{C.rat_str(eps)} 0 {C.rat_str(eps)} {toks(m)} {toks(R)} {toks(S)} {hasS}")
                cmean, ccov, fmean, fcov = rep[0], rep[1], rep[2], rep[3]
                model_gap = max(max(abs(a - b) for ra, rb in zip(X, Y) for a, b in zip(ra, rb))
                                for X, Y in ((cmean, fmean), (ccov, fcov)))
                if float(model_gap) > 1e-40:
                    ctx.broke("correspondence", "model-codepath-vs-closedform", f"{desc}: gap {float(model_gap)}")
                train_var = [v[0] for v in rep[5]]
            klr, detS, detP, quad = rep[6], rep[7], rep[8], rep[9]
            if hasS:
                klx = kl_mvn(sc(klr), sc(detS), sc(detP))
            else:
                klx = kl_delta(sc(quad), sc(detP), Mi)
            kl_train = klx
        kscale = max([1.0] + [abs(float(v)) for row in kxx for v in row])
        # ---- eval mode
        mean, cov, _, kl, kl_before = results["eval"]
        cmp_.mat("eval.mean", [[v] for v in bget(mean, idx, 1).tolist()], fmean)
        cmp_.mat("eval.covariance", bget(cov, idx, 2).tolist(), fcov, scale=max(kscale, 1.0))
        if hasS or not whitened or True:
            cmp_.scalar("eval.kl", float(bget(kl, idx, 0)), klx, scale=max(1.0, abs(klx)))
            cmp_.scalar("eval.kl(before first call)", float(bget(kl_before, idx, 0)), klx, scale=max(1.0, abs(klx)))
        # ---- train mode: mean and variances
        mean, _, var, kl, _ = results["train"]
        if not cfg.get("x_eq_z") or whitened:
            cmp_.mat("train.mean", [[v] for v in bget(mean, idx, 1).tolist()], fmean)
            cmp_.mat("train.variance", [[v] for v in bget(var, idx, 1).tolist()], [[v] for v in train_var],
                     scale=max(kscale, 1.0))
        else:
            cmp_.mat("train.mean", [[v] for v in bget(mean, idx, 1).tolist()], fmean)
            cmp_.mat("train.variance", [[v] for v in bget(var, idx, 1).tolist()], [[v] for v in train_var],
                     scale=max(kscale, 1.0))
        cmp_.scalar("train.kl", float(bget(kl, idx, 0)), kl_train, scale=max(1.0, abs(kl_train)))
        ok = cmp_.flush()
        ok_all = ok_all and ok
        nontriv = Mi >= 2 and n >= 2
        ctx.case(desc + f" seed={C.seed()}", nontrivial=nontriv,
                 sample={"case": desc, "kappa": kappa, "worst_rel_err": cmp_.worst, "kl": klx})
        ctx.count(f"cases:{strat}")
        ctx.count(f"dist:{cfg['dist']}")
        ctx.count(f"pattern:{pname}")
        _state["worst"] = max(_state.get("worst", 0.0), cmp_.worst)
    return ok_all


def basic_configs(ctx):
    rng = ctx.rng("basic-configs")
    cfgs = []
    quick = ctx.quick
    for strat in ("VariationalStrategy", "UnwhitenedVariationalStrategy"):
        for dist in DISTS:
            pats = [p[0] for p in PATTERNS]
            if quick:
                # every pattern appears for every strategy; rotate the distribution over patterns
                k = DISTS.index(dist)
                pats = [p for i, p in enumerate(pats) if i % len(DISTS) == k or p in ("none", "Z+params")]
            for pat in pats:
                cfgs.append({"strategy": strat, "dist": dist, "pattern": pat,
                             "M": rng.randint(2, 6 if quick else 8), "n": rng.randint(2, 5 if quick else 8),
                             "d": rng.choice([1, 2, 2]), "kernel": rng.choice(["rbf", "matern"]),
                             "mean": rng.choice(["const", "const", "linear", "zero"]),
                             "jitter": rng.choice([None, None, 1e-10, 1e-4])})
        # the x == Z shortcut of the unwhitened strategy and the same inputs through the whitened one
        for dist in (DISTS[:2] if quick else DISTS):
            if dist == "DeltaVariationalDistribution" and strat == "UnwhitenedVariationalStrategy":
                continue  # the shortcut raises RuntimeError for a point mass (documented in the code)
            cfgs.append({"strategy": strat, "dist": dist, "pattern": "none", "M": rng.randint(2, 6), "n": 0,
                         "d": 2, "kernel": "rbf", "mean": "const", "jitter": 1e-10 if strat.startswith("Unwh") else None,
                         "x_eq_z": True})
    if not quick:
        for _ in range(60):
            cfgs.append({"strategy": rng.choice(["VariationalStrategy", "UnwhitenedVariationalStrategy"]),
                         "dist": rng.choice(DISTS), "pattern": rng.choice(PATTERNS)[0], "M": rng.randint(1, 8),
                         "n": rng.randint(1, 8), "d": rng.choice([1, 2, 3]), "kernel": rng.choice(["rbf", "matern"]),
                         "mean": rng.choice(["const", "linear", "zero"]), "jitter": rng.choice([None, 1e-10, 1e-4, 1e-8])})
    return cfgs


def correspondence(ctx):
    import torch
    import warnings
    torch.set_num_threads(2)
    warnings.simplefilter("ignore")
    drv = Driver("C14")
    try:
        for i, cfg in enumerate(basic_configs(ctx)):
            cfg["rng_label"] = f"basic:{i}"
            run_basic(ctx, drv, cfg, ctx.rng(cfg["rng_label"]))
    finally:
        drv.close()
    ctx.notes["worst_relative_error"] = _state.get("worst", 0.0)
    ctx.notes["driver_requests"] = drv.n


def replay(ctx, payload):
    import torch
    import warnings
    torch.set_num_threads(2)
    warnings.simplefilter("ignore")
    case = payload["case"]
    drv = Driver("C14")
    try:
        # the rng stream is a function of (seed, label): re-derive it from the recorded seed
        os.environ["VERIF_SEED"] = str(payload.get("seed", 0))
        label = case["cfg"].get("rng_label", "")
        runner = RUNNERS[case.get("runner", "basic")]
        runner(ctx, drv, case["cfg"], ctx.rng(label), replay_only=case.get("idx"))
    finally:
        drv.close()
    return not ctx.failures


RUNNERS = {"basic": run_basic}

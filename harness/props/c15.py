"""C15 — variational objectives equal their definition; the ELBO is a lower bound.

Tie: translator G4 (`harness/translate/g4_elbo_scaling.py` -> `lean/GPVerif/Gen/ElboScaling.lean`: the scaling
expressions of `_ApproximateMarginalLogLikelihood.forward` and the update of `NGD.step`, regenerated from the
source on every run) AND correspondence: `VariationalELBO` / `PredictiveLogLikelihood` values of the real code vs
the Lean model (`GPVerif.Model.ELBO`, executed over ℚ by `drivers/C15.lean`, with q(f) and KL from the C14 model);
for the Gaussian likelihood the chain  N·ELBO(q) ≤ L_collapsed ≤ log N(y; m, K+σ²I), equality at q*, and one
`NGD(lr=1)` step from random natural parameters landing on q*.

Wave 3: part D (configurations x histories on one object, prescribed jitter — see `variant_configs`), and the chain
code-backward -> optimum (`check_backward_chain`, theorems of Part 4 in Props/C15.lean about the regenerated
`_NaturalToMuVarSqrt._forward/_backward`).
"""
import itertools
import math
import os
import sys
from fractions import Fraction

from lib import common as C
from props import c14 as V

ID = "C15"
PROP_MODULES = ["GPVerif.Props.C15"]
BUILD_TARGETS = ["GPVerif.Props.C15", "GPVerif.Model.ELBO", "GPVerif.Model.Variational", "GPVerif.Gen.ElboScaling", "GPVerif.Gen.VariationalAlgebra", "GPVerif.Model.Proto",
                 "GPVerif.Gen.NaturalGrad", "GPVerif.Gen.NaturalForward", "GPVerif.Gen.StrategyEnv"]
RULE = ("objective value: {VariationalELBO, PredictiveLogLikelihood} x {whitened, unwhitened} x variational distribution "
        "x beta x num_data N x minibatch size B x priors on/off x added losses (0,1,2) x parameter batch; one case per "
        "batch element.  Bound chain (Gaussian likelihood): per data set, random q(u), adversarial q near q*, q* itself, "
        "and one NGD(lr=1) step from random natural parameters; part D: one object x {learn_inducing_locations False / "
        "frozen / True} x {jitter default / constructor / assigned} x {built in float32 then .double(), built / used under "
        "different variational_cholesky_jitter settings} x history {assign, optimiser step, load_state_dict, assign twice + "
        "other minibatch, q-only} with every evaluation judged; FixedNoise with B == number of stored noise values and "
        "call-time noise; per NGD case the recorded arguments of _NaturalToMuVarSqrt._backward vs the chain-rule pair of "
        "theorem elbo_grad_mu_chol; distinct = distinct (config, seed-derived data/parameters, evaluation index); "
        "non-trivial = n>=2, M>=2, q != p")
TRUSTED = ["translator harness/translate/g4_elbo_scaling.py (Python ast -> scaling expressions)",
           "translators g4_natural_forward.py (_NaturalToMuVarSqrt._forward + autograd plumbing), g4_strategy_env.py (jitter "
           "resolution, memo discipline of a training call), C19's g5_natgrad.py (_backward): differentially tested on every "
           "run (driver lines NF / J / NB / NBT execute the generated definitions)",
           "the jitter a configuration prescribes (explicit value, else the setting at use time, documented float64 default "
           "1e-6) is stated by the harness, never read from the strategy object",
           "q(f) and KL(q(u)||p(u)) from the C14 model (drivers/C14.lean) — checked against the real code by C14",
           "mpmath (60 digits) for log / lgamma; shipped to the driver as rationals rounded to 2^-240",
           "torch autograd: that it hands _NaturalToMuVarSqrt.backward the true gradient of the upstream graph is OBSERVED "
           "(recorded pair vs the pair of theorem elbo_grad_mu_chol), everything downstream of that pair is proved"]
ASSUMPTIONS = ["priors: the log-density formulas of NormalPrior / GammaPrior are taken from their definition (C17 owns them)",
               "Gaussian likelihood with homoskedastic noise; observation_nan_policy off"]
EXHAUSTIVE = False

GEN = os.path.join(C.LEAN_DIR, "GPVerif", "Gen", "ElboScaling.lean")
GEN_NATFWD = os.path.join(C.LEAN_DIR, "GPVerif", "Gen", "NaturalForward.lean")
GEN_STRATENV = os.path.join(C.LEAN_DIR, "GPVerif", "Gen", "StrategyEnv.lean")
GEN_NATGRAD = os.path.join(C.LEAN_DIR, "GPVerif", "Gen", "NaturalGrad.lean")      # written by C19's translator g5_natgrad
_state = {}


def generate(ctx):
    sys.path.insert(0, os.path.join(C.VERIF, "harness"))
    from translate import g4_elbo_scaling, g4_natural_forward, g4_strategy_env, g5_natgrad
    t, changed = g4_elbo_scaling.generate(C.REPO, GEN)
    V.generate(ctx)          # the C14 driver (q(f), KL) evaluates the generated variational algebra
    _state["gen"] = t
    ctx.notes["gen_changed"] = changed or ctx.notes.get("gen_changed", False)
    ctx.notes["gen_expressions"] = {k: t[k] for k in ("ll", "kl", "lp", "al", "comb", "ngd")}

    def checker(path):
        def check(text):
            ok, errs = g4_elbo_scaling._elaborates(text, path)
            return None if ok else (errs or "does not elaborate")
        return check
    # wave 3: the natural parameterisation — `_forward` / autograd plumbing (own translator) and `_backward`
    # (C19's translator; C15's Part-4 theorems and the NB / NBT driver lines are about its output)
    try:
        ch1 = g4_natural_forward.generate(C.REPO, GEN_NATFWD, check=checker(GEN_NATFWD))
    except g4_natural_forward.TranslateError as e:
        raise g4_elbo_scaling.TranslateError(f"g4_natural_forward: {e}")
    try:
        ch2 = g5_natgrad.generate(C.REPO, GEN_NATGRAD, check=checker(GEN_NATGRAD))
    except g5_natgrad.TranslateError as e:
        raise g4_elbo_scaling.TranslateError(f"g5_natgrad: {e}")
    try:
        ch3 = g4_strategy_env.generate(C.REPO, GEN_STRATENV, check=checker(GEN_STRATENV))
    except g4_strategy_env.TranslateError as e:
        raise g4_elbo_scaling.TranslateError(f"g4_strategy_env: {e}")
    ctx.notes["gen_changed"] = bool(ch1 or ch2 or ch3 or ctx.notes.get("gen_changed", False))


# ------------------------------------------------------------------ helpers

def lfrac(x):
    """mpmath value -> Fraction (rounded to 2^-240)."""
    return V.to_frac(x)


def mp_log(q):
    return V.log_frac(V.F(q))


DEFAULT_JITTER_DOUBLE = 1e-6     # documented default of `settings.variational_cholesky_jitter` for float64


def jitter_setting(value):
    """`with gpytorch.settings.variational_cholesky_jitter(...)` for every dtype (no-op context when value is None)."""
    import contextlib
    import gpytorch
    if value is None:
        return contextlib.nullcontext()
    return gpytorch.settings.variational_cholesky_jitter(float_value=value, double_value=value, half_value=value)


def prescribed_jitter(cfg):
    """The jitter the *configuration* prescribes for a float64 evaluation — never read from the strategy object:
    an explicit `jitter_val` (constructor argument or property assignment) wins; otherwise the
    `variational_cholesky_jitter` setting in force AT USE TIME (documented default 1e-6 for float64), whatever dtype
    or setting the object was constructed under."""
    if cfg.get("jitter_mode") in ("ctor", "assigned"):
        return V.F(cfg["jitter"])
    if cfg.get("jitter_ctx_use") is not None:
        return V.F(cfg["jitter_ctx_use"])
    return V.F(DEFAULT_JITTER_DOUBLE)


ENV_KEYS = ("learn_z", "jitter_mode", "jitter", "build_dtype", "jitter_ctx_build", "jitter_ctx_use", "noise_n", "noise_call",
            "added_pos")


def env_tag(cfg):
    t = " ".join(f"{k}={cfg[k]}" for k in ENV_KEYS if cfg.get(k) is not None)
    return f" [{t}]" if t else ""


def make_strategy(cfg, strat_cls, gp, Z, dist):
    """The strategy with the configuration's constructor flags (defaults when the keys are absent)."""
    skw = {"jitter_val": cfg["jitter"]} if cfg.get("jitter_mode") == "ctor" else {}
    Zc = Z.float() if cfg.get("build_dtype") == "float32" else Z      # built in float32, converted by .double() later
    return strat_cls(gp, Zc, dist, learn_inducing_locations=(cfg.get("learn_z", True) is not False), **skw)


def finish_model(cfg, make):
    """`make().double()` under the construction-time jitter setting, then the post-construction changes."""
    with jitter_setting(cfg.get("jitter_ctx_build")):
        model = make().double()
    if cfg.get("learn_z") == "frozen":
        model.variational_strategy.inducing_points.requires_grad_(False)
    if cfg.get("jitter_mode") == "assigned":
        model.variational_strategy.jitter_val = cfg["jitter"]
    return model


def check_generated_jitter(ctx, d15, cfg, eps):
    """The jitter resolution GENERATED from `_VariationalStrategy` (`__init__`, property, setter) — evaluated by the
    driver on this configuration's (constructor argument, assigned value, setting at construction, setting at use) —
    must give the jitter the configuration prescribes; and a training-mode call must start from an empty memo."""
    if d15 is None:
        return
    r = lambda v: "none" if v is None else C.rat_str(V.F(v))      # noqa: E731
    mode = cfg.get("jitter_mode")
    # setting for the dtype the constructor saw (float32 default 1e-4 / float64 default 1e-6, or the build context)
    at_ctor = cfg.get("jitter_ctx_build") or (1e-4 if cfg.get("build_dtype") == "float32" else DEFAULT_JITTER_DOUBLE)
    at_use = cfg.get("jitter_ctx_use") or DEFAULT_JITTER_DOUBLE
    got, memo = d15.ask(f"J {r(cfg['jitter'] if mode == 'ctor' else None)} {r(cfg['jitter'] if mode == 'assigned' else None)} "
                        f"{C.rat_str(V.F(at_ctor))} {C.rat_str(V.F(at_use))}")
    if V.sc(got) != eps:
        ctx.broke("correspondence", "generated-jitter-vs-prescribed",
                  f"{env_tag(cfg) or ' [defaults]'}: the jitter resolution generated from _VariationalStrategy gives "
                  f"{float(V.sc(got))}, the configuration prescribes {float(eps)}")
    if V.sc(memo) != 1:
        ctx.broke("correspondence", "generated-training-call-keeps-memo",
                  "generated from the source: a training-mode call does not start from an empty memo table "
                  "(`_clear_cache` overridden / not called first / not clear_cache_hook)")


def build(cfg, rng, natural=False):
    """A variational GP + Gaussian likelihood (+ priors, added losses) with random data and parameters."""
    import torch
    import gpytorch
    torch.manual_seed(rng.torch_seed())
    M, n, d = cfg["M"], cfg["n"], cfg["d"]
    pb = cfg.get("pb", [])
    kb = torch.Size(cfg.get("kb", []))
    Z = V.spread_points([M, d], rng)
    x = V.spread_points([n, d], rng, lo=-2.5, hi=2.5, min_dist=0.25)
    Vv = gpytorch.variational
    dist = getattr(Vv, cfg["dist"])(M, batch_shape=torch.Size(pb))
    strat_cls = getattr(Vv, cfg["strategy"])
    priors = cfg.get("priors", False)

    class GP(gpytorch.models.ApproximateGP):
        def __init__(self):
            # non-default constructor flags / construction environment (all default when the keys are absent)
            vs = make_strategy(cfg, strat_cls, self, Z, dist)
            super().__init__(vs)
            self.mean_module = gpytorch.means.ConstantMean(batch_shape=kb)
            base = (gpytorch.kernels.RBFKernel if cfg.get("kernel", "rbf") == "rbf" else
                    (lambda **kw: gpytorch.kernels.MaternKernel(nu=2.5, **kw)))
            kw = {"lengthscale_prior": gpytorch.priors.GammaPrior(3.0, 6.0)} if priors else {}
            okw = {"outputscale_prior": gpytorch.priors.NormalPrior(1.0, 2.0)} if priors else {}
            self.covar_module = gpytorch.kernels.ScaleKernel(base(batch_shape=kb, **kw), batch_shape=kb, **okw)
            # added-loss terms registered at the configured position of the module tree (default: the model itself)
            owners = []
            pos_list = cfg.get("added_pos") or ["model"] * cfg.get("added", 0)
            for k, pos in enumerate(pos_list):
                if pos == "model":
                    owner = self
                elif pos == "mean":
                    owner = self.mean_module                      # below a gpytorch module (attribute)
                elif pos == "base_kernel":
                    owner = self.covar_module.base_kernel         # ScaleKernel -> base_kernel: gpytorch modules only
                elif pos in ("additive", "product"):
                    # a summand / factor of an AdditiveKernel / ProductKernel: reachable only through the torch
                    # ModuleList `kernels`
                    owner = gpytorch.kernels.MaternKernel(nu=1.5, batch_shape=kb)
                    other = gpytorch.kernels.ScaleKernel(owner, batch_shape=kb)
                    self.full_kernel = (self.covar_module + other) if pos == "additive" else (self.covar_module * other)
                else:
                    owner = gpytorch.means.ZeroMean()             # a gpytorch module held in a plain torch container
                    if pos == "modulelist":
                        self.extras_list = torch.nn.ModuleList([torch.nn.Identity(), owner])
                    elif pos == "moduledict":
                        self.extras_dict = torch.nn.ModuleDict({"holder": owner})
                    elif pos == "sequential":
                        self.extras_seq = torch.nn.Sequential(torch.nn.Identity(), owner)
                    else:
                        raise RuntimeError(pos)
                owner.register_added_loss_term(f"extra_{k}")
                owners.append(owner)
            self.__dict__["_c15_owners"] = owners

        def forward(self, x):
            kern = self.full_kernel if "full_kernel" in self._modules else self.covar_module
            return gpytorch.distributions.MultivariateNormal(self.mean_module(x), kern(x))

    model = finish_model(cfg, GP)
    lk = cfg.get("lik", "gaussian")
    if lk == "gaussian":
        lik = gpytorch.likelihoods.GaussianLikelihood(
            noise_prior=gpytorch.priors.GammaPrior(1.5, 4.0) if priors else None, batch_shape=kb).double()
    else:
        # heteroskedastic: fixed per-point noise of the *training set* (size n when the stored noise is used, n + 3 when
        # the minibatch noise is supplied at call time), optionally plus a learned homoskedastic part
        # or n again with call-time noise (`noise_n="equal"`: minibatch size == number of stored noise values)
        ntrain = n + 3 if (cfg.get("noise_kw") and cfg.get("noise_n") != "equal") else n
        lik = gpytorch.likelihoods.FixedNoiseGaussianLikelihood(
            noise=torch.tensor([rng.uniform(0.05, 0.6) for _ in range(ntrain)], dtype=torch.float64),
            learn_additional_noise=(lk == "fixed+extra")).double()
    V.randomize_hypers(model, rng)
    with torch.no_grad():
        if lk == "gaussian":
            lik.noise = torch.empty_like(lik.noise).uniform_(0.05, 0.6)
        elif lk == "fixed+extra":
            lik.second_noise = torch.tensor(rng.uniform(0.05, 0.4), dtype=torch.float64)
    model.variational_strategy.variational_params_initialized.fill_(1)
    V.randomize_dist(dist, rng)
    added_vals = []
    for k in range(cfg.get("added", 0)):
        val = rng.uniform(-0.7, 1.3)

        class Term(gpytorch.mlls.AddedLossTerm):
            def __init__(self, v):
                self.v = v

            def loss(self):
                return torch.tensor(self.v, dtype=torch.float64)
        model._c15_owners[k].update_added_loss_term(f"extra_{k}", Term(val))
        added_vals.append(val)
    y = torch.tensor([rng.uniform(-1.5, 1.5) for _ in range(n)], dtype=torch.float64)
    return model, lik, dist, x, y, added_vals


def prior_logprobs(mll, idx):
    """Exact (mpmath) log-density of every registered prior at the parameter values *of batch element idx* (each batch
    element is an independent model with its own hyper-parameters; unbatched hyper-parameters are shared), from the
    definitions of the densities."""
    mp = V._mp()
    out = []
    k = len(idx)
    for name, module, prior, closure, _ in mll.named_priors():
        val = closure(module).detach()
        lead = val.shape[:k] if val.dim() >= k else ()
        if len(lead) == k and k:
            val = val[tuple(0 if s_ == 1 else i for s_, i in zip(lead, idx))]
        val = val.reshape(-1)
        tot = mp.mpf(0)
        tname = type(prior).__name__
        for xv in val.tolist():
            xq = V.mpf(V.F(xv))
            if tname == "GammaPrior":
                a, b = V.mpf(V.F(float(prior.concentration))), V.mpf(V.F(float(prior.rate)))
                tot += a * mp.log(b) - mp.loggamma(a) + (a - 1) * mp.log(xq) - b * xq
            elif tname == "NormalPrior":
                lo, sc_ = V.mpf(V.F(float(prior.loc))), V.mpf(V.F(float(prior.scale)))
                tot += -((xq - lo) ** 2) / (2 * sc_ ** 2) - mp.log(sc_) - mp.log(2 * mp.pi) / 2
            else:
                raise RuntimeError(f"prior {tname} not modelled")
        out.append(tot)
    return out


def exact_qf(ctx, d14, model, dist, x, idx, desc, eps=None, prior_recomputed=False):
    """Exact q(f) mean / variances and KL for batch element idx (through the C14 model), from the parameters the model
    holds NOW; `eps` = the jitter the configuration prescribes (`prescribed_jitter`).
    `prior_recomputed` (unwhitened strategy only): the KL is taken against p(u) as `prior_distribution` builds it —
    `K_ZZ + add_jitter() default` — instead of the `K_ZZ + jitter_val I` that a TRAINING-mode forward caches.  That the
    two differ is C14's recorded finding `UnwhitenedVariationalStrategy:*kl*` (its repair is not applied); it shows
    whenever no training-mode forward precedes `kl_divergence()` on the same memo: in eval mode and after a
    `train()/eval()` toggle.  Those cells are judged against the closed form with that p(u), and counted."""
    vs = model.variational_strategy
    M = vs.inducing_points.shape[-2]
    xx, Zx = V.expand_inputs(x, vs.inducing_points.detach())
    Kzz, Kzx, Kxx, mX, mZ = V.joint_blocks(model, Zx, xx, M)
    kzz, kzx, kxx = (V.fmat(V.bget(t, idx, 2)) for t in (Kzz, Kzx, Kxx))
    kzz = V.sym_lower(kzz)
    mx, mz = V.fcol(V.bget(mX, idx, 1)), V.fcol(V.bget(mZ, idx, 1))
    eps = V.F(vs.jitter_val) if eps is None else eps
    kappa = V.kappa_of(kzz, eps)
    m, S, R, hasS = V.exact_dist(d14, dist, idx)
    if type(vs).__name__ == "VariationalStrategy":
        ex = V.exact_whitened(ctx, d14, desc, kzz, kzx, kxx, mx, eps, eps, m, S, hasS)
        var = [ex["cov"][i][i] for i in range(len(mx))]
        epsx = eps
    else:
        epsp = V.add_jitter_default() if prior_recomputed else eps
        ex = V.exact_unwhitened(ctx, d14, desc, kzz, kzx, kxx, mx, mz, eps, epsp, m, S, R, hasS)
        var = ex["trainvar"]          # (= diag of the eval-mode covariance in exact arithmetic: the clamp at 0 is inactive)
        if prior_recomputed:
            ctx.count("unwhitened_prior_recomputed(C14 known finding)")
        epsx = Fraction(0)
    return {"mean": [r[0] for r in ex["mean"]], "var": var, "kl": ex["kl"], "kappa": kappa, "blocks": (kzz, kzx, kxx, mx, mz),
            "eps": eps, "epsx": epsx, "m": m, "S": S}


# ------------------------------------------------------------------ part A: objective values

ADDED_POSITIONS = ["model", "mean", "base_kernel", "modulelist", "additive", "product", "moduledict", "sequential"]


def objective_configs(ctx):
    rng = ctx.rng("objective-configs")
    q = ctx.quick
    out = []
    dists = ["CholeskyVariationalDistribution", "MeanFieldVariationalDistribution", "NaturalVariationalDistribution",
             "DeltaVariationalDistribution", "TrilNaturalVariationalDistribution"]
    k = 0
    for strat in ("VariationalStrategy", "UnwhitenedVariationalStrategy"):
        for obj in ("elbo", "pll"):
            for beta in ([1.0, 0.3, 2.5] if q else [1.0, 0.5, 0.1, 2.5, 0.01]):
                for priors in (False, True):
                    for added in ([0, 2] if q else [0, 1, 2]):
                        n = rng.randint(2, 5 if q else 8)
                        out.append({"strategy": strat, "objective": obj, "beta": beta, "priors": priors, "added": added,
                                    "dist": dists[k % (2 if q and k % 3 else len(dists))], "M": rng.randint(2, 5 if q else 8), "n": n,
                                    "d": rng.choice([1, 2]), "N": rng.choice([n, 3 * n, 17, 1000]),
                                    "pb": rng.choice([[], [], [2]]), "kernel": rng.choice(["rbf", "matern"])})
                        if out[-1]["pb"] and rng.random() < 0.6:
                            out[-1]["kb"] = out[-1]["pb"]     # batched hyper-parameters (each element its own priors)
                        out[-1]["combine"] = k % 3 != 1       # combine_terms=False: the separately returned terms
                        out[-1]["reassign"] = k % 4 == 2      # attributes changed after construction
                        if k % 2 == 1 and not out[-1].get("kb"):
                            # heteroskedastic likelihood; per-point noise stored or supplied at call time (minibatch)
                            out[-1]["lik"] = ["fixed", "fixed+extra"][(k // 2) % 2]
                            out[-1]["noise_kw"] = (k // 4) % 3 != 0
                        k += 1
    # legal-but-unusual: beta = 0 (no KL regularisation) — the definition gives (1/B) sum E log p + (1/N) log prior
    for strat in ("VariationalStrategy", "UnwhitenedVariationalStrategy"):
        for obj in ("elbo", "pll"):
            n = rng.randint(2, 4)
            out.append({"strategy": strat, "objective": obj, "beta": 0.0, "priors": obj == "pll", "added": 0,
                        "dist": dists[0], "M": rng.randint(2, 4), "n": n, "d": 1, "N": 3 * n, "pb": [], "kernel": "rbf",
                        "combine": strat.startswith("V")})
    # shape coincidence: minibatch size == number of stored FixedNoise values, call-time noise differs from the stored one
    # (another data set of the same size / the full batch in permuted order): the call-time noise counts
    j = 0
    for strat in ("VariationalStrategy", "UnwhitenedVariationalStrategy"):
        for obj in ("elbo", "pll"):
            for call in (("fresh", "shuffled") if not q else (("fresh", "shuffled")[j % 2],)):
                n = rng.randint(3, 5 if q else 8)
                out.append({"strategy": strat, "objective": obj, "beta": rng.choice([1.0, 0.3]), "priors": False, "added": 0,
                            "dist": dists[j % len(dists)], "M": rng.randint(2, 4), "n": n, "d": rng.choice([1, 2]),
                            "N": rng.choice([n, 3 * n]), "pb": [], "kernel": "rbf", "combine": j % 3 != 2,
                            "lik": ["fixed", "fixed+extra"][(j // 2) % 2], "noise_kw": True, "noise_n": "equal",
                            "noise_call": call})
                j += 1
    # added-loss terms registered at EVERY position of the module tree (the expected sum is the registered values, never
    # read from `added_loss_terms()`): on the model, below gpytorch modules, only below torch containers
    for j, pos in enumerate(ADDED_POSITIONS if q else ADDED_POSITIONS * 3):
        n = rng.randint(2, 5)
        out.append({"strategy": ["VariationalStrategy", "UnwhitenedVariationalStrategy"][j % 2],
                    "objective": ["elbo", "pll"][(j // 2) % 2], "beta": rng.choice([1.0, 0.3]), "priors": j % 4 == 3,
                    "added": 2, "added_pos": [pos, ADDED_POSITIONS[(j + 3) % 4]], "dist": dists[j % len(dists)],
                    "M": rng.randint(2, 4), "n": n, "d": rng.choice([1, 2]), "N": rng.choice([n, 3 * n, 17]),
                    "pb": [[], [], [2]][j % 3], "kernel": "rbf", "combine": j % 3 != 1})
    return out


def py_spec(kind, ys, mus, vs, ss, B, kl, N, beta, lps, losses):
    """The property's definition evaluated directly (mpmath, 300 bits) — independent of the generated scaling.
    Returns (value, (likelihood term, KL term, log-prior term, added-loss term))."""
    mp = V._mp()
    tot = mp.mpf(0)
    for y, mu, v, s_ in zip(ys, mus, vs, ss):
        y, mu, v, sm = V.mpf(y), V.mpf(mu), V.mpf(v), V.mpf(s_)
        if kind == "elbo":
            tot += -(((y - mu) ** 2 + v) / sm + mp.log(sm) + mp.log(2 * mp.pi)) / 2
        else:
            tot += -((y - mu) ** 2 / (v + sm) + mp.log(v + sm) + mp.log(2 * mp.pi)) / 2
    pieces = (tot / B, V.mpf(V.F(beta)) / N * V.mpf(V.F(kl)), sum(lps, mp.mpf(0)) / N,
              sum((V.mpf(V.F(a)) for a in losses), mp.mpf(0)))
    return pieces[0] - pieces[1] + pieces[2] - pieces[3], pieces


def call_noise(cfg, lik, n, rng):
    """Per-point noise of the evaluated minibatch for a FixedNoise likelihood and the `noise=` keyword (if any).
    `noise_call`: "fresh" (default) — other values than the stored ones; "shuffled" — the stored values in another
    order (full batch in permuted order; needs `noise_n="equal"`)."""
    import torch
    if not cfg.get("noise_kw"):
        return lik.noise_covar.noise.detach().clone(), {}
    if cfg.get("noise_call") == "shuffled":
        stored = lik.noise_covar.noise.detach().clone()
        perm = list(range(n))
        while perm == list(range(n)):
            rng.shuffle(perm)
        noise_b = stored[torch.tensor(perm)].clone()
    else:
        noise_b = torch.tensor([rng.uniform(0.05, 0.6) for _ in range(n)], dtype=torch.float64)
    return noise_b, {"noise": noise_b}


def run_objective(ctx, d14, d15, cfg, rng, replay_only=None):
    import torch
    import gpytorch
    model, lik, dist, x, y, added_vals = build(cfg, rng)
    N, beta = cfg["N"], cfg["beta"]
    cls = gpytorch.mlls.VariationalELBO if cfg["objective"] == "elbo" else gpytorch.mlls.PredictiveLogLikelihood
    combine = cfg.get("combine", True)
    if cfg.get("reassign"):
        # object built once, attributes changed afterwards: the values at call time count
        mll = cls(lik, model, num_data=N + 5, beta=beta * 0.5 + 0.25, combine_terms=not combine)
        mll.num_data, mll.beta, mll.combine_terms = N, beta, combine
    else:
        mll = cls(lik, model, num_data=N, beta=beta, combine_terms=combine)
    n = x.shape[-2]
    lk = cfg.get("lik", "gaussian")
    kw = {}
    noise_b = None
    if lk != "gaussian":
        noise_b, kw = call_noise(cfg, lik, n, rng)
    model.train()
    lik.train()
    with torch.no_grad():
        out = mll(model(x), y, **kw)
    judge_objective(ctx, d14, d15, cfg, cls.__name__, model, lik, dist, x, y, out, noise_b, added_vals, mll,
                    {"cfg": cfg, "runner": "objective"}, replay_only=replay_only, extra_desc=env_tag(cfg))


def judge_objective(ctx, d14, d15, cfg, cls_name, model, lik, dist, x, y, out, noise_b, added_vals, mll, replay_base,
                    replay_only=None, extra_desc="", key_tag="", prior_recomputed=False):
    """Compare what the objective returned (`out`: value, or the tuple of separately returned terms) with its definition
    evaluated exactly from the parameters the objects hold NOW (q(f), KL through the C14 model with the jitter the
    configuration prescribes; logs by mpmath; assembly by the generated `forward`), one case per batch element."""
    N, beta = cfg["N"], cfg["beta"]
    combine = cfg.get("combine", True)
    n = x.shape[-2]
    lk = cfg.get("lik", "gaussian")
    eps = prescribed_jitter(cfg)
    check_generated_jitter(ctx, d15, cfg, eps)
    parts = None
    if combine:
        val = out.detach().clone()
    else:
        parts = [t.detach().clone() for t in out]
        val = parts[0] - parts[1] + parts[2] - (parts[3] if len(parts) > 3 else 0.0)
        if (len(parts) > 3) != bool(added_vals):
            ctx.fail(f"{cls_name}:{cfg['strategy']}/uncombined.arity", f"{cfg}: {len(parts)} separately returned terms",
                     dict(replay_base, idx=None))
    mp = V._mp()
    for idx in itertools.product(*[range(k) for k in val.shape]):
        if replay_only is not None and list(idx) != list(replay_only):
            continue
        if lk == "gaussian":
            ss = [V.F(float(V.bget(lik.noise.detach().squeeze(-1), idx, 0)))] * n
        else:
            extra = V.F(float(lik.second_noise)) if lk == "fixed+extra" else Fraction(0)
            ss = [V.F(float(v)) + extra for v in noise_b.tolist()]
        lps = prior_logprobs(mll, idx)
        desc = f"{cfg['objective']} {cfg['strategy']}/{cfg['dist']} lik={lk} noise_kw={bool(cfg.get('noise_kw'))} beta={beta} " \
               f"N={N} B={n} priors={cfg['priors']} added={cfg['added']} combine_terms={combine} reassign={bool(cfg.get('reassign'))} " \
               f"pb={cfg['pb']} kb={cfg.get('kb', [])} M={cfg['M']} d={cfg['d']}{extra_desc} idx={list(idx)}"
        ex = exact_qf(ctx, d14, model, dist, x, idx, desc, eps=eps, prior_recomputed=prior_recomputed)
        if ex["kappa"] > V.COND_MAX:
            ctx.count("discarded_ill_conditioned")
            continue
        logvs = [lfrac(mp.log(V.mpf(v + s_))) for v, s_ in zip(ex["var"], ss)]
        logss = [lfrac(mp.log(V.mpf(s_))) for s_ in ss]
        line = (f"E {cfg['objective']} {n} {V.toks(V.fcol(y))} {V.toks([[v] for v in ex['mean']])} "
                f"{V.toks([[v] for v in ex['var']])} {V.toks([[v] for v in ss])} {V.toks([[v] for v in logss])} "
                f"{C.rat_str(lfrac(mp.log(2 * mp.pi)))} {V.toks([[v] for v in logvs])} {n} {C.rat_str(V.F(ex['kl']))} "
                f"{N} {C.rat_str(V.F(beta))} {len(lps)} {' '.join(C.rat_str(lfrac(v)) for v in lps)} "
                f"{len(added_vals)} {' '.join(C.rat_str(V.F(v)) for v in added_vals)}").replace("  ", " ")
        spec_py, pieces_py = py_spec(cfg["objective"], [V.F(float(v)) for v in y.tolist()], ex["mean"], ex["var"], ss, n,
                                     ex["kl"], N, beta, lps, added_vals)
        if d15 is not None:
            rep = [V.sc(r_) for r_ in d15.ask(line)]
            got, spec = rep[0], rep[1]
            if abs(float(got - spec)) > 1e-30:
                ctx.broke("correspondence", "model-forward-vs-spec",
                          f"{desc}: generated forward {float(got)} vs definition {float(spec)}")
            if abs(float(V.mpf(spec) - spec_py)) > 1e-30 * max(1.0, abs(float(spec))):
                ctx.broke("correspondence", "model-spec-vs-python-spec", f"{desc}: {float(spec)} vs {float(spec_py)}")
            for nm, g, pz in zip(("log_likelihood", "kl_divergence", "log_prior", "added_loss"), rep[3:7], pieces_py):
                if abs(float(V.mpf(g) - pz)) > 1e-30 * max(1.0, abs(float(pz))):
                    ctx.broke("correspondence", f"model-term-vs-spec:{nm}", f"{desc}: generated {float(g)} vs definition {float(pz)}")
        else:
            spec = lfrac(spec_py)
        cmp_ = V.Cmp(ctx, f"{cls_name}:{cfg['strategy']}{key_tag}", desc,
                     dict(replay_base, idx=list(idx)), ex["kappa"], cfg["M"] + n)
        scale = max(1.0, abs(float(spec)), abs(ex["kl"]) * beta / N)
        cmp_.scalar("value", float(V.bget(val, idx, 0)), spec, scale=scale)
        if parts is not None:
            for nm, t, pz in zip(("log_likelihood", "kl_divergence", "log_prior", "added_loss"), parts, pieces_py):
                cmp_.scalar(f"uncombined.{nm}", float(V.bget(t, idx, 0)), lfrac(pz), scale=scale)
        cmp_.flush()
        ctx.case(desc + f" seed={C.seed()}", sample={"case": desc, "value": float(spec), "rel_err": cmp_.worst})
        ctx.count(f"objective:{cfg['objective']}")
        ctx.count(f"strategy:{cfg['strategy']}")
        ctx.count(f"lik:{lk}{'+kw' if cfg.get('noise_kw') else ''}{'+B=Nstored' if cfg.get('noise_n') == 'equal' else ''}")
        if not combine:
            ctx.count("combine_terms=False")
        _state["worst"] = max(_state.get("worst", 0.0), cmp_.worst)


# ------------------------------------------------------------------ part D: configurations x histories on ONE object
#
# Classes the first three parts never reached (round-3 seeded misses C15-7/8/9):
#   * non-default constructor flags of the strategy: `learn_inducing_locations=False`, a parameter frozen afterwards
#     (`requires_grad_(False)`), an explicit `jitter_val` (constructor argument / property assignment);
#   * objects built under one environment and evaluated under another: inducing points given in float32 and the model
#     converted by `.double()`; built under one `variational_cholesky_jitter` setting, evaluated under another;
#   * the objective evaluated SEVERAL times on one object in training mode with a change in between (hyper-parameters
#     assigned / moved by an optimiser step / loaded from a checkpoint; only q(u) and the noise; another minibatch);
#   * minibatch size equal to the number of stored FixedNoise values with a call-time `noise=` that differs from them.
# Every evaluation is judged against the closed form of the parameters held AT THAT MOMENT with the prescribed jitter.

LEARN_Z = [False, "frozen", True]
HISTORIES = ["assign", "step", "load", "assign-twice", "q-only"]
JITTER_MODES = [
    {},                                                                   # all defaults
    {"jitter_mode": "ctor", "jitter": 1e-3},                              # explicit constructor argument
    {"build_dtype": "float32"},                                           # float32 inducing points, then .double()
    {"jitter_ctx_use": 1e-3},                                             # setting entered at use time only
    {"jitter_ctx_build": 5e-4},                                           # setting in force at construction only
    {"jitter_ctx_build": 1e-4, "jitter_ctx_use": 2e-3},                   # built under one value, used under another
    {"jitter_mode": "assigned", "jitter": 2.5e-4, "build_dtype": "float32"},   # property assigned after construction
]
LIK_MODES = [
    {"lik": "gaussian"},
    {"lik": "fixed", "noise_kw": True, "noise_n": "equal", "noise_call": "fresh"},
    {"lik": "gaussian"},
    {"lik": "fixed+extra", "noise_kw": True, "noise_n": "equal", "noise_call": "shuffled"},
    {"lik": "gaussian"},
    {"lik": "fixed", "noise_kw": True},
    {"lik": "gaussian"},
    {"lik": "fixed+extra", "noise_kw": False},
    {"lik": "gaussian"},
    {"lik": "fixed", "noise_kw": True, "noise_n": "equal", "noise_call": "shuffled"},
    {"lik": "gaussian"},
]


def variant_configs(ctx):
    """Periods 2 (strategy), 3 (learn_z), 5 (history), 7 (jitter / dtype / setting environment), 11 (likelihood) are
    pairwise coprime: 30 consecutive configurations contain every (strategy, learn_z, history) triple and every pair
    with a jitter mode; the objective alternates with period 4."""
    rng = ctx.rng("variant-configs")
    dists = ["CholeskyVariationalDistribution", "MeanFieldVariationalDistribution", "NaturalVariationalDistribution",
             "DeltaVariationalDistribution", "TrilNaturalVariationalDistribution"]
    out = []
    for k in range(30 if ctx.quick else 210):
        n = rng.randint(2, 5 if ctx.quick else 7)
        cfg = {"strategy": ["VariationalStrategy", "UnwhitenedVariationalStrategy"][k % 2],
               "objective": ["elbo", "pll"][(k // 2) % 2], "learn_z": LEARN_Z[k % 3], "history": HISTORIES[k % 5],
               "dist": dists[(k // 2) % 5 if k % 4 else 0], "beta": rng.choice([1.0, 0.3, 2.5]), "priors": k % 6 == 5,
               "added": 0, "M": rng.randint(2, 5 if ctx.quick else 7), "n": n, "d": rng.choice([1, 2]),
               "N": rng.choice([n, 3 * n, 17, 1000]), "pb": rng.choice([[], [], [], [2]]),
               "kernel": rng.choice(["rbf", "matern"]), "combine": k % 8 != 3}
        cfg.update(JITTER_MODES[k % 7])
        cfg.update(LIK_MODES[k % 11])
        out.append(cfg)
    return out


def change_hypers(model, lik, rng):
    """New kernel / mean hyper-parameters by assignment (the documented setters)."""
    import torch
    with torch.no_grad():
        k = model.covar_module
        k.base_kernel.lengthscale = torch.empty_like(k.base_kernel.lengthscale).uniform_(0.6, 1.8)
        k.outputscale = torch.empty_like(k.outputscale).uniform_(0.4, 2.2)
        for p in model.mean_module.parameters():
            p.uniform_(-1.0, 1.0)


def run_variant(ctx, d14, d15, cfg, rng, replay_only=None):
    """One model / likelihood / objective object; a sequence of training-mode evaluations with a change between them."""
    import torch
    import gpytorch
    model, lik, dist, x, y, added_vals = build(cfg, rng)
    N, beta = cfg["N"], cfg["beta"]
    n, d = cfg["n"], cfg["d"]
    cls = gpytorch.mlls.VariationalELBO if cfg["objective"] == "elbo" else gpytorch.mlls.PredictiveLogLikelihood
    mll = cls(lik, model, num_data=N, beta=beta, combine_terms=cfg.get("combine", True))
    lk = cfg.get("lik", "gaussian")
    hist = cfg["history"]
    model.train()
    lik.train()
    opt = None
    if hist == "step":
        params = [p for _, p in model.named_hyperparameters() if p.requires_grad] + list(lik.parameters())
        opt = torch.optim.Adam(params, lr=0.15)
    steps = {"assign": ["assign"], "step": ["step"], "load": ["load"], "assign-twice": ["assign+minibatch", "assign"],
             "q-only": ["q-only"]}[hist]

    def evaluate(j, xb, yb, done):
        noise_b, kw = (None, {})
        if lk != "gaussian":
            noise_b, kw = call_noise(cfg, lik, xb.shape[-2], rng)
        with jitter_setting(cfg.get("jitter_ctx_use")):
            if opt is not None and j == 0:
                opt.zero_grad()
                out = mll(model(xb), yb, **kw)
                tot = out if cfg.get("combine", True) else (out[0] - out[1] + out[2])
                (-tot.sum()).backward()
            else:
                with torch.no_grad():
                    out = mll(model(xb), yb, **kw)
        replay = {"cfg": cfg, "runner": "variant", "evaluation": j}
        if replay_only is not None and replay_only.get("evaluation") not in (None, j):
            return
        judge_objective(ctx, d14, d15, cfg, cls.__name__, model, lik, dist, xb, yb, out, noise_b, added_vals, mll, replay,
                        replay_only=None if replay_only is None else replay_only.get("idx"),
                        extra_desc=f"{env_tag(cfg)} history={hist} evaluation#{j}{'(after ' + '>'.join(done) + ')' if done else ''}",
                        key_tag=f"/history:{'first' if j == 0 else done[-1]}")
        ctx.count(f"variant:evaluation#{j}")

    xb, yb = x, y
    evaluate(0, xb, yb, [])
    done = []
    for j, op in enumerate(steps, start=1):
        if op.startswith("assign"):
            change_hypers(model, lik, rng)
            if "minibatch" in op and lk == "gaussian":
                nb = n + 1
                xb = V.spread_points([nb, d], rng, lo=-2.5, hi=2.5, min_dist=0.25)
                yb = torch.tensor([rng.uniform(-1.5, 1.5) for _ in range(nb)], dtype=torch.float64)
        elif op == "step":
            opt.step()
        elif op == "load":
            other, olik, _, _, _, _ = build(cfg, C.Rng(f"{C.seed()}:{cfg.get('rng_label')}:other"))
            model.load_state_dict(other.state_dict())
            if lk == "gaussian":
                lik.load_state_dict(olik.state_dict())
        elif op == "q-only":
            V.randomize_dist(dist, rng)
            if lk == "gaussian":
                with torch.no_grad():
                    lik.noise = torch.empty_like(lik.noise).uniform_(0.05, 0.6)
        done.append(op)
        evaluate(j, xb, yb, done)
    ctx.count(f"variant:history:{hist}")
    ctx.count(f"variant:learn_z:{cfg['learn_z']}")
    ctx.count("variant:env:" + (",".join(k_ for k_ in ("jitter_mode", "build_dtype", "jitter_ctx_build", "jitter_ctx_use")
                                        if cfg.get(k_) is not None) or "default"))


# ------------------------------------------------------------------ part E: eval mode, re-parameterisation ops, call patterns
#
# Round-4 seeded misses C15-10/11/12.  (a) the objective evaluated in EVAL mode too (memo tables persist there), twice on
# one object with a re-parameterisation in between that is a documented invalidation point: `load_state_dict` on the model /
# on the strategy child, setters or raw `copy_` followed by a `train()/eval()` toggle, a bare toggle; (b) in TRAINING mode
# every re-parameterisation op directly (also `load_state_dict` into the kernel child, raw `copy_` on raw parameters);
# (c) three-step call patterns between `output = model(x)` and `mll(output, y)`: another forward, `model(x*, prior=True)`,
# an eval-mode prediction and back, `kl_divergence()` called directly, a second objective object evaluated — the objective
# of the FIRST output must still be its definition.  (Direct edits in eval mode WITHOUT an invalidation point are the
# documented exclusion of DESIGN §3 and are not generated.)

EVAL_OPS = ["load-model", "load-strategy-child", "setter+toggle", "raw-copy+toggle", "toggle"]
TRAIN_OPS = ["load-strategy-child", "load-kernel-child", "raw-copy", "load-model"]
PATTERNS3 = ["forward-other-x", "prior-call", "eval-predict-and-back", "kl-direct", "second-mll"]


def pattern_configs(ctx):
    rng = ctx.rng("pattern-configs")
    dists = ["CholeskyVariationalDistribution", "MeanFieldVariationalDistribution", "NaturalVariationalDistribution",
             "DeltaVariationalDistribution", "TrilNaturalVariationalDistribution"]
    out = []
    reps = 1 if ctx.quick else 4
    k = 0
    for _ in range(reps):
        cells = [("eval", op) for op in EVAL_OPS] + [("train", op) for op in TRAIN_OPS]
        cells += [("train3", pt) for pt in PATTERNS3] + [("eval3", pt) for pt in ("forward-other-x", "prior-call", "kl-direct")]
        for strat in ("VariationalStrategy", "UnwhitenedVariationalStrategy"):
            for mode, op in cells:
                n = rng.randint(2, 5)
                out.append({"strategy": strat, "objective": ["elbo", "pll"][k % 2], "mode": mode, "op": op,
                            "dist": dists[k % 5], "beta": rng.choice([1.0, 0.3]), "priors": False, "added": k % 2,
                            "M": rng.randint(2, 5), "n": n, "d": rng.choice([1, 2]), "N": rng.choice([n, 3 * n, 17]),
                            "pb": [[], [], [2]][k % 3], "kernel": rng.choice(["rbf", "matern"]), "combine": True,
                            "learn_z": LEARN_Z[k % 3]})
                k += 1
    return out


def run_pattern(ctx, d14, d15, cfg, rng, replay_only=None):
    import torch
    import gpytorch
    model, lik, dist, x, y, added_vals = build(cfg, rng)
    N, beta, n, d = cfg["N"], cfg["beta"], cfg["n"], cfg["d"]
    cls = gpytorch.mlls.VariationalELBO if cfg["objective"] == "elbo" else gpytorch.mlls.PredictiveLogLikelihood
    mll = cls(lik, model, num_data=N, beta=beta)
    vs = model.variational_strategy
    unwh = cfg["strategy"] != "VariationalStrategy"
    mode, op = cfg["mode"], cfg["op"]
    evalm = mode.startswith("eval")
    model.train(not evalm)
    lik.train(not evalm)
    xs = V.spread_points([n + 1, d], rng, lo=-2.5, hi=2.5, min_dist=0.25)

    def judge(j, out, what, recomputed):
        replay = {"cfg": cfg, "runner": "pattern", "evaluation": j}
        if replay_only is not None and replay_only.get("evaluation") not in (None, j):
            return
        judge_objective(ctx, d14, d15, cfg, cls.__name__, model, lik, dist, x, y, out, None, added_vals, mll, replay,
                        replay_only=None if replay_only is None else replay_only.get("idx"),
                        extra_desc=f"{env_tag(cfg)} mode={mode} {what} evaluation#{j}",
                        key_tag=f"/{mode}:{op if (j or mode.endswith('3')) else 'first'}",
                        prior_recomputed=unwh and recomputed)
        ctx.count(f"pattern:{mode}:{op}")

    with torch.no_grad():
        if mode in ("eval", "train"):
            # (a)/(b): evaluate, re-parameterise through an invalidation point, evaluate again on the same objects
            judge(0, mll(model(x), y), "before " + op, evalm)
            other, olik, _, _, _, _ = build(cfg, C.Rng(f"{C.seed()}:{cfg.get('rng_label')}:other"))
            sd = other.state_dict()
            if op == "load-model":
                model.load_state_dict(sd)
            elif op == "load-strategy-child":
                pre = "variational_strategy."
                vs.load_state_dict({k_[len(pre):]: v for k_, v in sd.items() if k_.startswith(pre)})
            elif op == "load-kernel-child":
                pre = "covar_module."
                model.covar_module.load_state_dict({k_[len(pre):]: v for k_, v in sd.items() if k_.startswith(pre)})
            elif op.startswith("setter"):
                change_hypers(model, lik, rng)
            elif op.startswith("raw-copy"):
                for (nm, p_), (_, q_) in zip(model.named_parameters(), other.named_parameters()):
                    p_.copy_(q_)          # raw tensors overwritten in place: hyper-parameters, Z, variational parameters
            if op.endswith("toggle"):
                model.train(evalm)
                model.train(not evalm)
            judge(1, mll(model(x), y), "after " + op, evalm)
        else:
            # (c): something else happens between `output = model(x)` and `mll(output, y)`
            output = model(x)
            recomputed = evalm
            if op == "forward-other-x":
                model(xs).mean.sum().item()
            elif op == "prior-call":
                model(xs, prior=True).mean.sum().item()
            elif op == "eval-predict-and-back":
                model.eval()
                model(xs).variance.sum().item()
                model.train()
                recomputed = True          # the toggle is a documented invalidation point: p(u) is rebuilt by the property
            elif op == "kl-direct":
                vs.kl_divergence().sum().item()
            elif op == "second-mll":
                cls(lik, model, num_data=N + 3, beta=beta)(model(xs), torch.zeros(n + 1, dtype=torch.float64)).sum().item()
            judge(0, mll(output, y), f"output=model(x); {op}; mll(output, y)", recomputed)


# ------------------------------------------------------------------ part B: bound chain, q*, NGD

def bound_configs(ctx):
    rng = ctx.rng("bound-configs")
    out = []
    for k in range(12 if ctx.quick else 80):
        out.append({"strategy": ["VariationalStrategy", "UnwhitenedVariationalStrategy"][k % 2],
                    "dist": "CholeskyVariationalDistribution", "M": rng.randint(2, 5 if ctx.quick else 8),
                    "n": rng.randint(2, 6 if ctx.quick else 8), "d": rng.choice([1, 2]),
                    "kernel": rng.choice(["rbf", "matern"]), "z_subset_of_x": k % 3 == 2,
                    "ngd_history": NGD_HISTORIES[k % 4]})
        # non-default constructor flags / construction environment (part D's classes) in the bound chain and NGD step
        out[-1]["learn_z"] = LEARN_Z[(k + 2) % 3]
        env = JITTER_MODES[(k + 3) % 7]
        if not (out[-1]["z_subset_of_x"] and env.get("build_dtype")):    # (float32 Z cannot hold float64 inputs)
            out[-1].update(env)
    return out


def set_q(dist, strategy, m, S_chol):
    import torch
    with torch.no_grad():
        dist.variational_mean.copy_(m)
        dist.chol_variational_covar.copy_(S_chol)


def n_elbo(model, lik, x, y, N, cfg=None):
    import torch
    import gpytorch
    mll = gpytorch.mlls.VariationalELBO(lik, model, num_data=N)
    with torch.no_grad(), jitter_setting((cfg or {}).get("jitter_ctx_use")):
        return float(mll(model(x), y)) * N


def run_bound(ctx, d14, d15, cfg, rng, replay_only=None):
    import numpy as np
    import torch
    import gpytorch
    model, lik, dist, x, y, _ = build(cfg, rng)
    vs = model.variational_strategy
    whitened = cfg["strategy"] == "VariationalStrategy"
    M, n = cfg["M"], cfg["n"]
    if cfg.get("z_subset_of_x"):
        # inducing points = a subset of the inputs: the collapsed bound is then tight when Z ⊇ X
        with torch.no_grad():
            k = min(M, n) if (whitened or M != n) else n - 1   # (all-equal would take the unwhitened x==Z shortcut)
            vs.inducing_points[:k] = x[:k]
    model.train()
    lik.train()
    N = n
    s = V.F(float(lik.noise.reshape(-1)[0]))
    mp = V._mp()
    desc0 = f"bound {cfg['strategy']} M={M} n={n} d={cfg['d']} kernel={cfg['kernel']} z_subset_of_x={cfg.get('z_subset_of_x')}{env_tag(cfg)}"
    ex = exact_qf(ctx, d14, model, dist, x, (), desc0, eps=prescribed_jitter(cfg))
    kzz, kzx, kxx, mx, mz = ex["blocks"]
    kxx = V.sym_lower(kxx)       # float kernel matrices are symmetric only up to one ulp
    eps, epsx = ex["eps"], ex["epsx"]
    if ex["kappa"] > 1e6:
        ctx.count("discarded_ill_conditioned")
        return
    r = [[V.F(float(y[i])) - mx[i][0]] for i in range(n)]
    try:
        qA, detA, trD, qC, detC = (V.sc(t) for t in d15.ask(
            f"C {M} {n} {V.toks(kzz)} {V.toks(kzx)} {V.toks(kxx)} {V.toks(r)} {C.rat_str(eps)} {C.rat_str(epsx)} {C.rat_str(s)}"))
    except V.DriverFail:
        ctx.count("discarded_singular")
        return
    l2pi = n * mp.log(2 * mp.pi)
    collapsed = -(V.mpf(qA) + V.log_frac(detA) + l2pi) / 2 - V.mpf(trD) / (2 * V.mpf(s))
    exact = -(V.mpf(qC) + V.log_frac(detC) + l2pi) / 2
    scale = max(1.0, abs(float(exact)), abs(float(collapsed)))
    if collapsed > exact + mp.mpf(10) ** -40:
        ctx.broke("correspondence", "model-collapsed-le-exact", f"{desc0}: collapsed {float(collapsed)} > exact {float(exact)}")
    tolb = 1e-9 * scale * max(1.0, ex["kappa"] * 1e-4)
    replay = {"cfg": cfg, "runner": "bound"}
    key = f"bound:{cfg['strategy']}"

    def check_le(what, value):
        ctx.case(f"{desc0} {what} seed={C.seed()}", sample={"case": f"{desc0} {what}", "N_elbo": value,
                                                           "collapsed": float(collapsed), "exact": float(exact)})
        ctx.count("bound_checks")
        if value > float(exact) + tolb:
            ctx.fail(f"{key}/elbo-exceeds-exact-log-marginal",
                     f"{desc0} [{what}]: N*ELBO = {value!r} > exact log marginal {float(exact)!r} (by {value - float(exact):.3e})",
                     dict(replay, what=what))
        elif value > float(collapsed) + tolb:
            ctx.fail(f"{key}/elbo-exceeds-collapsed-bound",
                     f"{desc0} [{what}]: N*ELBO = {value!r} > collapsed bound {float(collapsed)!r} (by {value - float(collapsed):.3e})",
                     dict(replay, what=what))
        _state["min_gap"] = min(_state.get("min_gap", float("inf")), float(collapsed) - value)

    # (1) random q(u)
    for j in range(3 if ctx.quick else 8):
        V.randomize_dist(dist, rng)
        check_le(f"random-q#{j}", n_elbo(model, lik, x, y, N, cfg))
    # (2) q* from the model (exact, then rounded to float for the real code)
    L = V.hp_chol(V.add_jit(kzz, eps))
    e1, e2, mw, Sw, dstar, Sstar = d15.ask(f"OPT {M} {n} {V.toks(L)} {V.toks(kzx)} {V.toks(r)} {C.rat_str(s)}")
    if whitened:
        m_opt = torch.tensor([float(v[0]) for v in mw], dtype=torch.float64)
        S_opt = torch.tensor(V.fl(Sw), dtype=torch.float64)
    else:
        m_opt = torch.tensor([float(dstar[i][0] + mz[i][0]) for i in range(M)], dtype=torch.float64)
        S_opt = torch.tensor(V.fl(Sstar), dtype=torch.float64)
    S_opt = (S_opt + S_opt.T) / 2
    Lc = torch.linalg.cholesky(S_opt)
    set_q(dist, cfg["strategy"], m_opt, Lc)
    at_opt = n_elbo(model, lik, x, y, N, cfg)
    ctx.case(f"{desc0} q* seed={C.seed()}")
    ctx.count("opt_checks")
    tole = 1e-8 * scale * max(1.0, ex["kappa"] * 1e-3)
    if abs(at_opt - float(collapsed)) > tole:
        ctx.fail(f"{key}/elbo-at-optimum-differs-from-collapsed-bound",
                 f"{desc0}: N*ELBO(q*) = {at_opt!r}, collapsed bound = {float(collapsed)!r} (diff {at_opt - float(collapsed):.3e}, tol {tole:.1e})",
                 dict(replay, what="q*"))
    _state["worst_opt"] = max(_state.get("worst_opt", 0.0), abs(at_opt - float(collapsed)) / scale)
    # (3) adversarial: small perturbations around q*
    for j, delta in enumerate([1e-2, 1e-4, 1e-6] if ctx.quick else [1e-1, 1e-2, 1e-3, 1e-4, 1e-5, 1e-6, 1e-7]):
        dm = torch.tensor([rng.gauss(0, 1) for _ in range(M)], dtype=torch.float64) * delta
        dL = torch.tensor([[rng.gauss(0, 1) for _ in range(M)] for _ in range(M)], dtype=torch.float64).tril() * delta
        set_q(dist, cfg["strategy"], m_opt + dm, Lc + dL)
        check_le(f"near-q*(delta={delta})", n_elbo(model, lik, x, y, N, cfg))
    # (4) one NGD step of size one from random natural parameters
    run_ngd(ctx, d14, d15, cfg, rng, model, lik, x, y, (kzz, kzx, kxx, mx, mz, eps, r, s, L), float(collapsed), scale,
            ex["kappa"], desc0)


def run_ngd(ctx, d14, d15, cfg, rng, model0, lik, x, y, exact, collapsed, scale, kappa, desc0):
    import torch
    import gpytorch
    kzz, kzx, kxx, mx, mz, eps, r, s, L = exact
    M, n = cfg["M"], cfg["n"]
    N = n
    whitened = cfg["strategy"] == "VariationalStrategy"
    Vv = gpytorch.variational
    ndist = Vv.NaturalVariationalDistribution(M)
    vs0 = model0.variational_strategy

    class GP(gpytorch.models.ApproximateGP):
        def __init__(self):
            vs = make_strategy(cfg, type(vs0), self, vs0.inducing_points.detach().clone(), ndist)
            super().__init__(vs)
            self.mean_module = model0.mean_module
            self.covar_module = model0.covar_module

        def forward(self, x):
            return gpytorch.distributions.MultivariateNormal(self.mean_module(x), self.covar_module(x))

    model = finish_model(cfg, GP)
    model.variational_strategy.variational_params_initialized.fill_(1)
    V.randomize_dist(ndist, rng)
    model.train()
    lik.train()
    mll = gpytorch.mlls.VariationalELBO(lik, model, num_data=N)
    opt = make_ngd(model.variational_parameters(), N, cfg.get("ngd_history"))
    desc0 = desc0 + f" ngd_history={cfg.get('ngd_history')}"
    e1_0 = V.fcol(ndist.natural_vec.detach())
    e2_0 = V.fmat(ndist.natural_mat.detach())
    opt.zero_grad()
    with jitter_setting(cfg.get("jitter_ctx_use")), BackwardSpy() as spy:
        loss = -mll(model(x), y)
        loss.backward()
    g1 = ndist.natural_vec.grad.detach().clone()
    g2 = ndist.natural_mat.grad.detach().clone()
    key = f"ngd:{cfg['strategy']}"
    replay = {"cfg": cfg, "runner": "bound", "what": "ngd"}
    # model: the gradient handed to the optimiser is the affine map -(1/N)(eta* - eta)   (whitened coordinates)
    if whitened:
        mg1, mg2 = d15.ask(f"G {M} {n} {V.toks(L)} {V.toks(kzx)} {V.toks(r)} {C.rat_str(s)} {N} {V.toks(e1_0)} {V.toks(e2_0)}")
        gerr = max(max(abs(float(a[0]) - b) for a, b in zip(mg1, g1.tolist())),
                   max(abs(float(a) - b) for ra, rb in zip(mg2, g2.tolist()) for a, b in zip(ra, rb)))
        gs = max([1.0] + [abs(float(a)) for ra in mg2 for a in ra] + [abs(float(a[0])) for a in mg1])
        _state["worst_grad"] = max(_state.get("worst_grad", 0.0), gerr / gs)
        if gerr > 1e-7 * gs * max(1.0, kappa * 1e-3):
            ctx.broke("correspondence", "ngd-gradient", f"{desc0}: autograd natural gradient differs from -(1/N)(eta*-eta) by {gerr}")
        if len(spy.calls) != 1:
            ctx.broke("correspondence", "backward-not-called-once", f"{desc0}: _NaturalToMuVarSqrt._backward called {len(spy.calls)} times")
        else:
            check_backward_chain(ctx, d14, d15, desc0, spy.calls[0], M, n, L, kzx, r, s, N, e1_0, e2_0, kappa)
    opt.step()
    # generated update expression vs the real in-place update
    (s1,) = d15.ask(f"S {M} 1 {V.toks(e1_0)} {V.toks(V.fcol(g1))} 1 {N}")
    (s2,) = d15.ask(f"S {M} {M} {V.toks(e2_0)} {V.toks(V.fmat(g2))} 1 {N}")
    uerr = max(max(abs(float(a[0]) - b) for a, b in zip(s1, ndist.natural_vec.detach().tolist())),
               max(abs(float(a) - b) for ra, rb in zip(s2, ndist.natural_mat.detach().tolist()) for a, b in zip(ra, rb)))
    us = max([1.0] + [abs(float(a)) for ra in s2 for a in ra])
    if uerr > 1e-12 * us:
        ctx.fail(f"{key}/step-update", f"{desc0}: NGD.step result differs from p + (-lr*num_data)*grad by {uerr}",
                 dict(replay, observable="step"))
    with torch.no_grad(), jitter_setting(cfg.get("jitter_ctx_use")):
        try:
            after = float(mll(model(x), y)) * N
        except Exception as e:  # non-PD natural matrix after the step would be a failure of the property
            ctx.fail(f"{key}/one-step-not-optimal", f"{desc0}: objective cannot be evaluated after the NGD step: {e!r}", replay)
            return
    ctx.case(f"{desc0} ngd seed={C.seed()}", sample={"case": desc0 + " ngd", "after": after, "collapsed": collapsed})
    ctx.count("ngd_checks")
    toln = 1e-7 * scale * max(1.0, kappa * 1e-3)
    _state["worst_ngd"] = max(_state.get("worst_ngd", 0.0), abs(after - collapsed) / scale)
    if abs(after - collapsed) > toln:
        ctx.fail(f"{key}/one-step-not-optimal",
                 f"{desc0}: after one NGD(lr=1) step N*ELBO = {after!r}, collapsed bound = {collapsed!r} "
                 f"(diff {after - collapsed:.3e}, tol {toln:.1e})", replay)


def make_ngd(params, N, hist):
    """NGD optimiser whose *effective* step size is one at the time of the step.  Histories: built directly with lr=1;
    built with lr=0.1 and raised to 1 afterwards (direct assignment / lr scheduler); built with another num_data that is
    corrected afterwards.  (Objects built once and used after an attribute changed.)"""
    import torch
    import warnings
    import gpytorch
    if hist in (None, "direct"):
        return gpytorch.optim.NGD(params, num_data=N, lr=1.0)
    if hist == "lr-assigned":
        opt = gpytorch.optim.NGD(params, num_data=N, lr=0.1)
        for g in opt.param_groups:
            g["lr"] = 1.0
        return opt
    if hist == "lr-scheduler":
        opt = gpytorch.optim.NGD(params, num_data=N, lr=0.1)
        sched = torch.optim.lr_scheduler.LambdaLR(opt, lambda epoch: 10.0 ** min(epoch, 1))
        with warnings.catch_warnings():
            warnings.simplefilter("ignore")
            sched.step()
        if abs(opt.param_groups[0]["lr"] - 1.0) > 1e-15:
            raise RuntimeError(f"scheduler did not produce lr = 1: {opt.param_groups[0]['lr']}")
        for g in opt.param_groups:
            g["lr"] = 1.0          # (0.1 * 10.0 is 1.0000000000000002 in floating point)
        return opt
    if hist == "num_data-assigned":
        opt = gpytorch.optim.NGD(params, num_data=N + 7, lr=1.0)
        opt.num_data = N
        return opt
    raise RuntimeError(hist)


NGD_HISTORIES = ["direct", "lr-assigned", "lr-scheduler", "num_data-assigned"]


class BackwardSpy:
    """Records the arguments torch autograd hands to `_NaturalToMuVarSqrt._backward` (through `.backward`) and what it
    returns — the real code is called unchanged."""

    def __enter__(self):
        from gpytorch.variational import natural_variational_distribution as nvd
        self.cls = nvd._NaturalToMuVarSqrt
        self.orig = self.cls.__dict__["_backward"]
        self.calls = calls = []
        f = self.cls._backward

        def spy(dout_dmu, dout_dL, mu, L, C):
            args = tuple(t.detach().clone() for t in (dout_dmu, dout_dL, mu, L, C))
            out = f(dout_dmu, dout_dL, mu, L, C)
            calls.append(args + tuple(t.detach().clone() for t in out))
            return out
        self.cls._backward = staticmethod(spy)
        return self

    def __exit__(self, *a):
        setattr(self.cls, "_backward", self.orig)
        return False


def check_backward_chain(ctx, d14, d15, desc, rec, M, n, Lk, kzx, r, s, N, e1, e2, kappa):
    """Part-4 chain on one (batch element of a) recorded `_backward` call, whitened strategy.
    (i)  exact: the generated `_backward` applied to the chain-rule pair of theorem `elbo_grad_mu_chol` (computed from the
         exact `(μ, L)` of the natural parameters) returns `lossGradExpectation` — theorem `natural_backward_elbo_gradient`
         executed on the regenerated code;
    (ii) observed link: the pair torch autograd really delivered = that chain-rule pair (lower triangle of `dout_dL`);
    (iii) the regenerated `_backward` on the recorded tensors = what the implementation returned;
    (iv) the regenerated `_forward` = the C14 natural map = the recorded `(μ, L)`."""
    gmu, gL, mu, L, Cinv, o1, o2 = rec
    mu_x, S_x, b1, b2 = d14.ask(f"DN {M} {V.toks(e1)} {V.toks(e2)}")
    Lx = V.hp_chol(S_x)
    rep = d15.ask(f"NBT {M} {n} {V.toks(Lk)} {V.toks(kzx)} {V.toks(r)} {C.rat_str(s)} {N} {V.toks(e1)} {V.toks(e2)} "
                  f"{V.toks(mu_x)} {V.toks(Lx)}")
    tgmu, tgL, to1, to2, b, A = rep
    if to1 != b or to2 != A:
        ctx.broke("correspondence", "generated-backward-vs-theorem",
                  f"{desc}: generated _backward of the chain-rule pair (b + 2A mu, 2AL) is not (b, A) = lossGradExpectation "
                  f"(max gap {float(V.max_gap(((to1, b), (to2, A))))})")
    tol = 1e-7 * max(1.0, kappa * 1e-3)
    gs = max([1.0] + [abs(float(v)) for row in tgL for v in row] + [abs(float(v[0])) for v in tgmu])
    up = max(max(abs(float(a[0]) - g) for a, g in zip(tgmu, gmu.tolist())),
             max(abs(float(tgL[i][j]) - gL[i][j].item()) for i in range(M) for j in range(i + 1)))
    _state["worst_upstream"] = max(_state.get("worst_upstream", 0.0), up / gs)
    if up > tol * gs:
        ctx.broke("correspondence", "autograd-upstream-gradient",
                  f"{desc}: (dout_dmu, tril dout_dL) delivered to _NaturalToMuVarSqrt.backward differ from the chain-rule "
                  f"gradient (b + 2A mu, 2AL) of theorem elbo_grad_mu_chol by {up:.3e} (scale {gs:.2e})")
    g1, g2 = d15.ask(f"NB {M} {V.toks(V.fcol(gmu))} {V.toks(V.fmat(gL))} {V.toks(V.fcol(mu))} {V.toks(V.fmat(L))} "
                     f"{V.toks(V.fmat(Cinv))}")
    os_ = max([1.0] + [abs(float(v)) for row in g2 for v in row])
    ge = max(max(abs(float(a[0]) - g) for a, g in zip(g1, o1.tolist())),
             max(abs(float(a) - g) for ra, rg in zip(g2, o2.tolist()) for a, g in zip(ra, rg)))
    _state["worst_gen_backward"] = max(_state.get("worst_gen_backward", 0.0), ge / os_)
    if ge > 1e-9 * os_ * max(1.0, kappa):
        ctx.broke("correspondence", "generated-backward-vs-implementation",
                  f"{desc}: regenerated _backward on the recorded tensors differs from what _backward returned by {ge:.3e}")
    # forward
    Linv_x = V.hp_chol([[-2 * v for v in row] for row in e2])
    fmu, fL, fcov, r1, r2, plumbing = d15.ask(f"NF {M} {V.toks(e1)} {V.toks(e2)} {V.toks(Linv_x)} {V.toks(Lx)}")
    if float(V.sc(r1)) > 1e-60 or float(V.sc(r2)) > 1e-60:
        raise RuntimeError("harness: supplied Cholesky factors violate their contract")
    if float(V.max_gap(((fmu, mu_x), (fcov, S_x)))) > 1e-55 or V.sc(plumbing) != 1:
        ctx.broke("correspondence", "generated-forward-vs-model",
                  f"{desc}: regenerated _forward / distForward differ from the natural map of the model by "
                  f"{float(V.max_gap(((fmu, mu_x), (fcov, S_x))))} (autograd plumbing facts: {V.sc(plumbing)})")
    fe = max(max(abs(float(a[0]) - g) for a, g in zip(fmu, mu.tolist())),
             max(abs(float(a) - g) for ra, rg in zip(fL, L.tolist()) for a, g in zip(ra, rg)))
    fs = max([1.0] + [abs(float(v)) for row in fL for v in row] + [abs(float(v[0])) for v in fmu])
    if fe > 1e-8 * fs * max(1.0, kappa):
        ctx.fail("natural-forward/value", f"{desc}: (mu, L) of NaturalVariationalDistribution.forward differ from "
                 f"((-2 eta2)^-1 eta1, chol((-2 eta2)^-1)) by {fe:.3e}", {"desc": desc})
    ctx.count("backward_chain_checks")


def tri_inv(T):
    """Exact inverse of a lower-triangular Fraction matrix."""
    k = len(T)
    X = V.zeros(k, k)
    for j in range(k):
        X[j][j] = 1 / T[j][j]
        for i in range(j + 1, k):
            X[i][j] = -sum(T[i][l] * X[l][j] for l in range(j, i)) / T[i][i]
    return X


def phi(A):
    """`_phi_for_cholesky_`: lower triangle with the diagonal halved."""
    k = len(A)
    return [[(A[i][j] / 2 if i == j else A[i][j]) if j <= i else Fraction(0) for j in range(k)] for i in range(k)]


def batched_configs(ctx):
    rng = ctx.rng("batched-configs")
    out = []
    for k in range(8 if ctx.quick else 40):
        out.append({"strategy": ["VariationalStrategy", "UnwhitenedVariationalStrategy"][(k // 2) % 2 if k >= 4 else 0],
                    "dist": ["NaturalVariationalDistribution", "TrilNaturalVariationalDistribution"][k % 2],
                    "pb": [[2], [3]][(k // 2) % 2], "z_batched": k % 3 == 0, "M": rng.randint(2, 4 if ctx.quick else 6),
                    "n": rng.randint(2, 5 if ctx.quick else 8), "d": rng.choice([1, 2]), "kernel": rng.choice(["rbf", "matern"]),
                    "ngd_history": NGD_HISTORIES[(k + 1) % 4]})
        out[-1]["learn_z"] = LEARN_Z[(k + 1) % 3]
        out[-1].update(JITTER_MODES[(k + 5) % 7])
    return out


def run_bound_batched(ctx, d14, d15, cfg, rng, replay_only=None):
    """Batched variational parameters (batch (2,), (3,)) with Natural / TrilNatural distributions: per batch element
    N*ELBO <= collapsed bound, the gradient handed to NGD = closed-form expectation-parameter gradient, and (Natural)
    one NGD(lr=1) step lands on q* / the collapsed bound."""
    import torch
    import gpytorch
    torch.manual_seed(rng.torch_seed())
    Vv = gpytorch.variational
    M, n, d, pb = cfg["M"], cfg["n"], cfg["d"], cfg["pb"]
    whitened = cfg["strategy"] == "VariationalStrategy"
    natural = cfg["dist"] == "NaturalVariationalDistribution"
    Z = V.spread_points([*(pb if cfg.get("z_batched") else []), M, d], rng)
    x = V.spread_points([n, d], rng, lo=-2.5, hi=2.5, min_dist=0.25)
    y = torch.tensor([rng.uniform(-1.5, 1.5) for _ in range(n)], dtype=torch.float64)
    dist = getattr(Vv, cfg["dist"])(M, batch_shape=torch.Size(pb))

    class GP(gpytorch.models.ApproximateGP):
        def __init__(self):
            super().__init__(make_strategy(cfg, getattr(Vv, cfg["strategy"]), self, Z, dist))
            self.mean_module = gpytorch.means.ConstantMean()
            self.covar_module = gpytorch.kernels.ScaleKernel(gpytorch.kernels.RBFKernel() if cfg["kernel"] == "rbf"
                                                              else gpytorch.kernels.MaternKernel(nu=2.5))

        def forward(self, x):
            return gpytorch.distributions.MultivariateNormal(self.mean_module(x), self.covar_module(x))

    model = finish_model(cfg, GP)
    lik = gpytorch.likelihoods.GaussianLikelihood().double()
    V.randomize_hypers(model, rng)
    with torch.no_grad():
        lik.noise = torch.tensor(rng.uniform(0.05, 0.6), dtype=torch.float64)
    vs = model.variational_strategy
    vs.variational_params_initialized.fill_(1)
    V.randomize_dist(dist, rng)
    model.train()
    lik.train()
    N = n
    mll = gpytorch.mlls.VariationalELBO(lik, model, num_data=N)
    opt = make_ngd(model.variational_parameters(), N, cfg.get("ngd_history"))
    mat_param = dist.natural_mat if natural else dist.natural_tril_mat
    e1_all, e2_all = dist.natural_vec.detach().clone(), mat_param.detach().clone()
    opt.zero_grad()
    with jitter_setting(cfg.get("jitter_ctx_use")), BackwardSpy() as spy:
        val = mll(model(x), y)
        (-val.sum()).backward()
    val0 = val.detach().clone() * N
    g1_all, g2_all = dist.natural_vec.grad.detach().clone(), mat_param.grad.detach().clone()
    after = None
    if natural:
        opt.step()
        with torch.no_grad(), jitter_setting(cfg.get("jitter_ctx_use")):
            try:
                after = mll(model(x), y).detach().clone() * N
            except Exception as e:
                after = e
    s = V.F(float(lik.noise))
    mp = V._mp()
    xx, Zx = V.expand_inputs(x, vs.inducing_points.detach())
    Kzz, Kzx, Kxx, mX, mZ = V.joint_blocks(model, Zx, xx, M)
    eps = prescribed_jitter(cfg)
    epsx = eps if whitened else Fraction(0)
    for b in range(pb[0]):
        if replay_only is not None and list(replay_only) != [b]:
            continue
        idx = (b,)
        desc = f"batched {cfg['strategy']}/{cfg['dist']} pb={pb} z_batched={bool(cfg.get('z_batched'))} M={M} n={n} d={d} " \
               f"kernel={cfg['kernel']} ngd_history={cfg.get('ngd_history')}{env_tag(cfg)} element={b}"
        replay = {"cfg": cfg, "runner": "bound_batched", "idx": [b]}
        kzz, kzx, kxx = (V.fmat(V.bget(t, idx, 2)) for t in (Kzz, Kzx, Kxx))
        kzz, kxx = V.sym_lower(kzz), V.sym_lower(kxx)
        mx = V.fcol(V.bget(mX, idx, 1))
        kappa = V.kappa_of(kzz, eps)
        if kappa > 1e6:
            ctx.count("discarded_ill_conditioned")
            continue
        r = [[V.F(float(y[i])) - mx[i][0]] for i in range(n)]
        if d15 is not None:
            qA, detA, trD, qC, detC = (V.sc(t) for t in d15.ask(
                f"C {M} {n} {V.toks(kzz)} {V.toks(kzx)} {V.toks(kxx)} {V.toks(r)} {C.rat_str(eps)} {C.rat_str(epsx)} {C.rat_str(s)}"))
            collapsed = float(-(V.mpf(qA) + V.log_frac(detA) + n * mp.log(2 * mp.pi)) / 2 - V.mpf(trD) / (2 * V.mpf(s)))
        else:       # no C15 driver: Python/mpmath oracle
            collapsed = py_collapsed(kzz, kzx, kxx, r, eps, epsx, s)
        scale = max(1.0, abs(collapsed))
        key = f"batched:{cfg['strategy']}:{cfg['dist'].replace('VariationalDistribution', '')}"
        ctx.case(desc + f" seed={C.seed()}", sample={"case": desc, "N_elbo": float(val0[b]), "collapsed": collapsed})
        ctx.count("batched_checks")
        tolb = 1e-9 * scale * max(1.0, kappa * 1e-4)
        if float(val0[b]) > collapsed + tolb:
            ctx.fail(f"{key}/elbo-exceeds-collapsed-bound", f"{desc}: N*ELBO = {float(val0[b])!r} > collapsed bound {collapsed!r}",
                     dict(replay, what="random-q"))
        # gradient handed to the optimiser vs the closed-form expectation-parameter gradient (whitened coordinates)
        L = V.hp_chol(V.add_jit(kzz, eps))
        e1 = V.fcol(e1_all[b])
        Pm = V.fmat(e2_all[b])
        if natural:
            e2 = Pm
        else:  # eta2 = -1/2 T^T T  (only the lower triangle of T is read)
            Tl = [[Pm[i][j] if j <= i else Fraction(0) for j in range(M)] for i in range(M)]
            TtT = V.mmul(V.mT(Tl), Tl)
            e2 = [[-v / 2 for v in row] for row in TtT]
        if whitened and d15 is not None:
            mg1, mg2 = d15.ask(f"G {M} {n} {V.toks(L)} {V.toks(kzx)} {V.toks(r)} {C.rat_str(s)} {N} {V.toks(e1)} {V.toks(e2)}")
            if natural:
                exp2 = mg2
            else:
                Li_ = tri_inv(Tl)      # L = T^{-1};  dout/dT = phi(-2 L^T G2 L) T
                A = V.mmul(V.mT(Li_), V.mmul(mg2, Li_))
                exp2 = V.mmul(phi([[-2 * v for v in row] for row in A]), Tl)
            gerr = max(max(abs(float(a[0]) - g) for a, g in zip(mg1, g1_all[b].tolist())),
                       max(abs(float(a) - g) for ra, rg in zip(exp2, g2_all[b].tolist()) for a, g in zip(ra, rg)))
            gs = max([1.0] + [abs(float(a)) for ra in exp2 for a in ra] + [abs(float(a[0])) for a in mg1])
            _state["worst_grad_batched"] = max(_state.get("worst_grad_batched", 0.0), gerr / gs)
            if natural and len(spy.calls) == 1:
                check_backward_chain(ctx, d14, d15, desc, tuple(t[b] for t in spy.calls[0]), M, n, L, kzx, r, s, N, e1, e2, kappa)
            elif natural:
                ctx.broke("correspondence", "backward-not-called-once", f"{desc}: _backward called {len(spy.calls)} times")
            if gerr > 1e-7 * gs * max(1.0, kappa * 1e-3):
                ctx.fail(f"{key}/natural-gradient",
                         f"{desc}: the gradient handed to NGD differs from the closed-form expectation-parameter gradient "
                         f"-(1/N)(eta* - eta){'' if natural else ' (mapped to the tril parameter)'} by {gerr:.3e} (scale {gs:.2e})",
                         dict(replay, what="gradient"))
        if natural:
            if isinstance(after, Exception):
                ctx.fail(f"{key}/one-step-not-optimal", f"{desc}: objective cannot be evaluated after the NGD step: {after!r}",
                         dict(replay, what="ngd"))
                continue
            # parameters after the step vs eta*
            if whitened and d15 is not None:
                o1, o2 = d15.ask(f"OPT {M} {n} {V.toks(L)} {V.toks(kzx)} {V.toks(r)} {C.rat_str(s)}")[:2]
                perr = max(max(abs(float(a[0]) - g) for a, g in zip(o1, dist.natural_vec.detach()[b].tolist())),
                           max(abs(float(a) - g) for ra, rg in zip(o2, dist.natural_mat.detach()[b].tolist()) for a, g in zip(ra, rg)))
                ps = max([1.0] + [abs(float(a)) for ra in o2 for a in ra])
                if perr > 1e-7 * ps * max(1.0, kappa * 1e-3):
                    ctx.fail(f"{key}/one-step-not-optimal", f"{desc}: natural parameters after one NGD(lr=1) step differ from "
                             f"eta* by {perr:.3e}", dict(replay, what="ngd-parameters"))
            toln = 1e-7 * scale * max(1.0, kappa * 1e-3)
            ctx.count("ngd_checks_batched")
            _state["worst_ngd_batched"] = max(_state.get("worst_ngd_batched", 0.0), abs(float(after[b]) - collapsed) / scale)
            if abs(float(after[b]) - collapsed) > toln:
                ctx.fail(f"{key}/one-step-not-optimal",
                         f"{desc}: after one NGD(lr=1) step N*ELBO = {float(after[b])!r}, collapsed bound = {collapsed!r} "
                         f"(diff {float(after[b]) - collapsed:.3e}, tol {toln:.1e})", dict(replay, what="ngd"))


def py_collapsed(kzz, kzx, kxx, r, eps, epsx, s):
    """Collapsed (Titsias) bound by mpmath at 300 bits — the spec oracle used when the C15 driver cannot run."""
    mp = V._mp()
    M, n = len(kzz), len(kxx)
    Kt = mp.matrix([[V.mpf(v) for v in row] for row in V.add_jit(kzz, eps)])
    Kzx = mp.matrix([[V.mpf(v) for v in row] for row in kzx])
    Kxx = mp.matrix([[V.mpf(v) for v in row] for row in V.add_jit(kxx, epsx)])
    rv = mp.matrix([[V.mpf(v[0])] for v in r])
    Q = Kzx.T * (mp.inverse(Kt) * Kzx)
    A = Q + V.mpf(s) * mp.eye(n)
    quad = (rv.T * (mp.inverse(A) * rv))[0, 0]
    tr = sum(Kxx[i, i] - Q[i, i] for i in range(n))
    return float(-(quad + mp.log(mp.det(A)) + n * mp.log(2 * mp.pi)) / 2 - tr / (2 * V.mpf(s)))


def run_bound_py(ctx, d14, cfg, rng):
    """Bound and one-NGD-step checks against the Python/mpmath oracle only (no C15 driver): used by `search`."""
    import torch
    import gpytorch
    model, lik, dist, x, y, _ = build(cfg, rng)
    model.train()
    lik.train()
    M, n = cfg["M"], cfg["n"]
    s = V.F(float(lik.noise.reshape(-1)[0]))
    desc0 = f"bound[py-oracle] {cfg['strategy']} M={M} n={n} d={cfg['d']} kernel={cfg['kernel']} ngd_history={cfg.get('ngd_history')}{env_tag(cfg)}"
    ex = exact_qf(ctx, d14, model, dist, x, (), desc0, eps=prescribed_jitter(cfg))
    kzz, kzx, kxx, mx, mz = ex["blocks"]
    if ex["kappa"] > 1e6:
        return
    r = [[V.F(float(y[i])) - mx[i][0]] for i in range(n)]
    collapsed = py_collapsed(kzz, kzx, V.sym_lower(kxx), r, ex["eps"], ex["epsx"], s)
    scale = max(1.0, abs(collapsed))
    key = f"bound:{cfg['strategy']}"
    replay = {"cfg": cfg, "runner": "bound_py"}
    for j in range(3):
        V.randomize_dist(dist, rng)
        v = n_elbo(model, lik, x, y, n, cfg)
        ctx.case(f"{desc0} random-q#{j} seed={C.seed()}")
        if v > collapsed + 1e-9 * scale * max(1.0, ex["kappa"] * 1e-4):
            ctx.fail(f"{key}/elbo-exceeds-collapsed-bound", f"{desc0}: N*ELBO = {v!r} > collapsed bound {collapsed!r}", replay)
    Vv = gpytorch.variational
    ndist = Vv.NaturalVariationalDistribution(M)
    vs0 = model.variational_strategy

    class GP(gpytorch.models.ApproximateGP):
        def __init__(self):
            super().__init__(make_strategy(cfg, type(vs0), self, vs0.inducing_points.detach().clone(), ndist))
            self.mean_module = model.mean_module
            self.covar_module = model.covar_module

        def forward(self, x):
            return gpytorch.distributions.MultivariateNormal(self.mean_module(x), self.covar_module(x))

    m2 = finish_model(cfg, GP)
    m2.variational_strategy.variational_params_initialized.fill_(1)
    V.randomize_dist(ndist, rng)
    m2.train()
    mll = gpytorch.mlls.VariationalELBO(lik, m2, num_data=n)
    opt = make_ngd(m2.variational_parameters(), n, cfg.get("ngd_history"))
    opt.zero_grad()
    with jitter_setting(cfg.get("jitter_ctx_use")):
        (-mll(m2(x), y)).backward()
    opt.step()
    with torch.no_grad(), jitter_setting(cfg.get("jitter_ctx_use")):
        after = float(mll(m2(x), y)) * n
    ctx.case(f"{desc0} ngd seed={C.seed()}")
    if abs(after - collapsed) > 1e-7 * scale * max(1.0, ex["kappa"] * 1e-3):
        ctx.fail(f"ngd:{cfg['strategy']}/one-step-not-optimal",
                 f"{desc0}: after one NGD step of size one N*ELBO = {after!r}, collapsed bound = {collapsed!r}", replay)


# ------------------------------------------------------------------ entry points

def multitask_configs(ctx):
    rng = ctx.rng("multitask-configs")
    out = []
    for rep in range(1 if ctx.tier == "quick" else 5):
        # non-default task dimensions are generated with coinciding batch sizes only (the case in which a sum over the wrong
        # dimension is silent); rectangular batch shapes with a non-default task_dim are not generated
        for task_dim, shape in ((-1, (3,)), (-1, (2, 3)), (-1, (2, 2)), (-2, (2, 2)), (-2, (3, 3)), (-3, (2, 2, 2)),
                                (0, (2, 2)), (1, (2, 2)), (0, (3, 3))):
            out.append({"task_dim": task_dim, "shape": list(shape), "n": rng.randint(2, 4), "M": rng.randint(2, 3),
                        "N": rng.choice([None, 7, 40]), "strategy": "IndependentMultitask"})
    return out


def run_multitask(ctx, d14, d15, cfg, rng, replay_only=None):
    """IndependentMultitaskVariationalStrategy over a whitened VariationalStrategy with batch shape `shape`, tasks along
    `task_dim`: the KL term of the ELBO is the sum over the TASK dimension of the per-GP closed form
    KL(N(m, LL^T) || N(0, I)) = (tr LL^T + m.m - M - 2 sum log L_ii)/2, one value per remaining batch element:
    elbo = E_q[log p]/n - KL/N (n = number of points in the call, N = num_data)."""
    import torch
    import gpytorch
    shape, td, n, M = tuple(cfg["shape"]), cfg["task_dim"], cfg["n"], cfg["M"]
    gen = torch.Generator().manual_seed(rng.getrandbits(30))
    t = shape[td]

    class MT(gpytorch.models.ApproximateGP):
        def __init__(self):
            Z = torch.rand(*shape, M, 1, generator=gen, dtype=torch.float64)
            dist = gpytorch.variational.CholeskyVariationalDistribution(M, batch_shape=torch.Size(shape))
            base = gpytorch.variational.VariationalStrategy(self, Z, dist, learn_inducing_locations=True)
            super().__init__(gpytorch.variational.IndependentMultitaskVariationalStrategy(base, num_tasks=t, task_dim=td))
            self.mean_module = gpytorch.means.ConstantMean(batch_shape=torch.Size(shape))
            self.covar_module = gpytorch.kernels.ScaleKernel(gpytorch.kernels.RBFKernel(batch_shape=torch.Size(shape)),
                                                             batch_shape=torch.Size(shape))

        def forward(self, x):
            return gpytorch.distributions.MultivariateNormal(self.mean_module(x), self.covar_module(x))
    model = MT().double()
    lik = gpytorch.likelihoods.MultitaskGaussianLikelihood(num_tasks=t).double()
    model.train()
    lik.train()
    x = torch.rand(n, 1, generator=gen, dtype=torch.float64)
    model(x)                                     # first call initialises the variational parameters
    vd = model.variational_strategy.base_variational_strategy._variational_distribution
    with torch.no_grad():
        vd.variational_mean.copy_(torch.randn(*shape, M, generator=gen, dtype=torch.float64))
        L = torch.tril(0.3 * torch.randn(*shape, M, M, generator=gen, dtype=torch.float64), -1) + \
            torch.diag_embed(0.4 + torch.rand(*shape, M, generator=gen, dtype=torch.float64))
        vd.chol_variational_covar.copy_(L)
    m = vd.variational_mean.detach()
    kl_each = 0.5 * ((L * L).sum((-1, -2)) + (m * m).sum(-1) - M - 2.0 * torch.log(L.diagonal(dim1=-1, dim2=-2)).sum(-1))
    kl_ref = kl_each.sum(dim=td)
    out = model(x)
    y = torch.randn(*out.batch_shape, n, t, generator=gen, dtype=torch.float64)
    N = cfg["N"] or n
    mll = gpytorch.mlls.VariationalELBO(lik, model, num_data=N)
    val = mll(out, y).detach()
    ell = lik.expected_log_prob(y, out).detach()
    while ell.dim() > kl_ref.dim():              # sum over the points (and the task axis when the likelihood keeps it)
        ell = ell.sum(-1)
    want = ell / n - kl_ref / N
    desc = f"task_dim={td} batch={list(shape)}"
    ctx.case(f"multitask ELBO {desc} n={n} M={M} N={N}", sample={"kind": "multitask-elbo", "cfg": cfg})
    ok = val.shape == want.shape and bool(((val - want).abs() <= 1e-9 * (1 + want.abs())).all())
    if not ok:
        ctx.fail(f"multitask-kl:{'default' if td == -1 else 'nondefault'}-task_dim",
                 f"IndependentMultitaskVariationalStrategy({desc}): VariationalELBO = {val.tolist()} (shape {list(val.shape)}), "
                 f"E_q[log p]/n - (sum over the task dimension of the closed-form per-GP KL)/N = {want.tolist()} "
                 f"(shape {list(want.shape)}); strategy.kl_divergence() = {model.variational_strategy.kl_divergence().tolist()}, "
                 f"closed form {kl_ref.tolist()}", {"cfg": cfg, "runner": "multitask"})


def guarded(ctx, runner, cfg, thunk):
    """One configuration.  An exception of the *real code* on a valid configuration is a failure of the property; a dead
    driver propagates (the caller switches to the specification oracle); any other harness problem is recorded as a
    broken correspondence for this configuration and the run continues — nothing aborts the remaining cases."""
    import traceback
    try:
        thunk()
    except V.DriverFail:
        ctx.count("discarded_driver_fail")
    except V.DriverDead:
        raise
    except Exception as e:
        tb = traceback.format_exc()
        if "/gpytorch/" in tb or "/linear_operator/" in tb or "torch" in type(e).__module__:
            key = f"{runner}:beta=0/raises" if cfg.get("beta") == 0 else f"{runner}:{cfg.get('strategy')}/raises"
            ctx.fail(key, f"{runner} {cfg}: real code raised {type(e).__name__}: {str(e)[:200]}",
                     {"cfg": cfg, "runner": runner})
        else:
            ctx.count("harness_errors")
            if ctx.counters.get("harness_errors", 0) <= 3:
                ctx.broke("correspondence", f"harness-error:{runner}", tb[-1500:])


def open_d15(ctx):
    """The C15 driver (generated scaling + ELBO model); None when it cannot run — then every case is still judged,
    against the Python/mpmath specification oracle."""
    try:
        d = V.Driver("C15")
        d.ask("S 1 1 1 1 1 1 1 1 1 1")
        return d
    except V.DriverDead as e:
        ctx.broke("correspondence", "driver-C15-does-not-run", str(e)[-800:])
        return None


def run_all(ctx, d14, d15):
    st = {"d15": d15}

    def go(runner, cfg, fn):
        try:
            guarded(ctx, runner, cfg, lambda: fn(st["d15"]))
        except V.DriverDead as e:       # died in the middle of the run: finish with the specification oracle
            if st["d15"] is not None:
                ctx.broke("correspondence", "driver-C15-died", str(e)[-800:])
                st["d15"] = None
                guarded(ctx, runner, cfg, lambda: fn(None))
            else:
                raise
    for i, cfg in enumerate(objective_configs(ctx)):
        cfg["rng_label"] = f"objective:{i}"
        go("objective", cfg, lambda d, c=cfg: run_objective(ctx, d14, d, c, ctx.rng(c["rng_label"])))
    for i, cfg in enumerate(variant_configs(ctx)):
        cfg["rng_label"] = f"variant:{i}"
        go("variant", cfg, lambda d, c=cfg: run_variant(ctx, d14, d, c, ctx.rng(c["rng_label"])))
    for i, cfg in enumerate(pattern_configs(ctx)):
        cfg["rng_label"] = f"pattern:{i}"
        go("pattern", cfg, lambda d, c=cfg: run_pattern(ctx, d14, d, c, ctx.rng(c["rng_label"])))
    for i, cfg in enumerate(bound_configs(ctx)):
        cfg["rng_label"] = f"bound:{i}"
        go("bound", cfg, lambda d, c=cfg: (run_bound(ctx, d14, d, c, ctx.rng(c["rng_label"])) if d is not None
                                           else run_bound_py(ctx, d14, c, ctx.rng(c["rng_label"]))))
    for i, cfg in enumerate(multitask_configs(ctx)):
        cfg["rng_label"] = f"multitask:{i}"
        go("multitask", cfg, lambda d, c=cfg: run_multitask(ctx, d14, d, c, ctx.rng(c["rng_label"])))
    for i, cfg in enumerate(batched_configs(ctx)):
        cfg["rng_label"] = f"batched:{i}"
        go("bound_batched", cfg, lambda d, c=cfg: run_bound_batched(ctx, d14, d, c, ctx.rng(c["rng_label"])))
    return st["d15"]


def correspondence(ctx):
    import torch
    import warnings
    torch.set_num_threads(2)
    warnings.simplefilter("ignore")
    d14 = V.open_driver(ctx)
    d15 = open_d15(ctx)
    try:
        d15 = run_all(ctx, d14, d15)
    finally:
        d14.close()
        if d15 is not None:
            d15.close()
    for k in ("worst", "worst_opt", "worst_ngd", "worst_grad", "min_gap", "worst_grad_batched", "worst_ngd_batched",
              "worst_upstream", "worst_gen_backward"):
        if k in _state:
            ctx.notes[f"c15_{k}"] = _state[k]
    ctx.notes["driver_requests"] = d14.n + (d15.n if d15 is not None else 0)


def search(ctx, broken):
    """Proof / translator / driver broke and the regular run produced no failing input: re-run every generator against
    the specification oracles only (Python/mpmath definition of the objective, mpmath collapsed bound) — independent of
    the generated scaling and of the C15 driver."""
    if ctx.failures:
        return
    import torch
    import warnings
    torch.set_num_threads(2)
    warnings.simplefilter("ignore")
    d14 = V.open_driver(ctx)
    try:
        run_all(ctx, d14, None)
    finally:
        d14.close()


def replay(ctx, payload):
    import torch
    import warnings
    torch.set_num_threads(2)
    warnings.simplefilter("ignore")
    case = payload["case"]
    os.environ["VERIF_SEED"] = str(payload.get("seed", 0))
    d14 = V.open_driver(ctx)
    d15 = open_d15(ctx)
    try:
        cfg = case["cfg"]
        rng = ctx.rng(cfg.get("rng_label", ""))
        if case.get("runner") == "objective":
            run_objective(ctx, d14, d15, cfg, rng, replay_only=case.get("idx"))
        elif case.get("runner") == "pattern":
            run_pattern(ctx, d14, d15, cfg, rng, replay_only={"evaluation": case.get("evaluation"), "idx": case.get("idx")})
        elif case.get("runner") == "variant":
            run_variant(ctx, d14, d15, cfg, rng, replay_only={"evaluation": case.get("evaluation"), "idx": case.get("idx")})
        elif case.get("runner") == "bound_py" or (d15 is None and case.get("runner") == "bound"):
            run_bound_py(ctx, d14, cfg, rng)
        elif case.get("runner") == "multitask":
            run_multitask(ctx, d14, d15, cfg, rng)
        elif case.get("runner") == "bound_batched":
            run_bound_batched(ctx, d14, d15, cfg, rng, replay_only=case.get("idx"))
        else:
            run_bound(ctx, d14, d15, cfg, rng)
    finally:
        d14.close()
        if d15 is not None:
            d15.close()
    return not ctx.failures

"""C20 — global settings are scoped.

Tie: translator G1 (Gen/Settings.lean + generated per-class theorems) AND correspondence: well-nested
`with` programs with exceptions run on the real classes; raw class fields at every probe compared exactly
with the Lean model; independently the property itself (store after == store before; inside a block the
observer shows the argument; a field the block does NOT name shows the enclosing value / the documented default;
entering a block changes no other class) is checked on the real classes (spec oracle, no model involved).

Wave 3: subset programs for every multi-field setting (every subset of the fields, nested under every subset),
multi-manager `with a, b[, c]:`, `contextlib.ExitStack`, `try/except` re-entry after a manager that failed to enter
(`Model/SettingsExt.lean`, `XProg`), thread cells (ONE process-global store: cross-thread isolation is not claimed),
decorator cell (the classes are not decorators).
"""
import itertools
import os
import re as _re0
import sys

from lib import common as C

ID = "C20"
PROP_MODULES = ["GPVerif.Props.C20", "GPVerif.Gen.SettingsThms"]
BUILD_TARGETS = ["GPVerif.Props.C20", "GPVerif.Gen.Settings"]
RULE = ("well-nested with-programs over all public settings classes (depth<=2 exhaustive over the listed argument "
        "variants, raise injected at every body boundary; thorough adds depth 3); for every multi-field setting every "
        "subset of its fields (incl. none) nested under every subset, every field probed inside; multi-manager "
        "`with a, b[, c]:`, ExitStack and try/except re-entry programs (a later manager failing in __init__ / __enter__); "
        "thread interleavings and decorator cells; distinct = distinct program text; "
        "non-trivial = the program enters at least one block that changes a visible value")
EXHAUSTIVE = True
TRUSTED = ["translator harness/translate/g1_settings.py (Python ast -> Settings IR)",
           "modelled not verified: Python's with/exception protocol (Prog.run / XProg.run: single and multi-manager with, "
           "contextlib.ExitStack LIFO unwinding, try/except), class-attribute lookup, the GIL serialising thread events",
           "hand-written specification tables in the translator: DOCUMENTED_CTOR_DEFAULTS, NONE_MEANS_KEEP, COMPOSITE_OBS"]
ASSUMPTIONS = ["__exit__ is called on every exit path of a with body (Python semantics)",
               "deterministic_probes.probe_vectors is a cache, not a setting (writes dropped from the model)",
               "settings objects are constructed and entered by the same with statement (or ExitStack.enter_context call)",
               "NOT CLAIMED: cross-thread isolation. The settings are process-global class attributes: a block entered by "
               "thread A is visible in thread B, and blocks of two threads that are not globally well nested do not restore "
               "(Props/C20: thread_block_visible_in_other_thread, threads_interleaved_not_scoped; thread cells compare the real "
               "classes with that model, so a change to thread-local storage shows as a broken tie)",
               "NOT CLAIMED: ExitStack.enter_context inside a with block nested in the ExitStack body (the manager outlives "
               "the block: exitstack_escape_not_scoped); decorator use (the classes are not ContextDecorators: checked)"]

_ALWAYS_KNOWN = "leak:cholesky_jitter._global_half_value"
GEN = os.path.join(C.LEAN_DIR, "GPVerif", "Gen", "Settings.lean")
_state = {}


class _Boom(Exception):
    pass


def generate(ctx):
    sys.path.insert(0, os.path.join(C.VERIF, "harness"))
    from translate import g1_settings
    tr, exported, changed = g1_settings.generate(C.REPO, GEN)
    _state["tr"], _state["exported"] = tr, exported
    ctx.notes["gen_changed"] = changed
    ctx.notes["classes_translated"] = len(tr.order)


# ------------------------------------------------------------------ real side

def _unlisted_public(mod):
    """public settings classes DEFINED in `mod` but missing from its `__all__` (min_fixed_noise): reachable as
    `gpytorch.settings.<name>` and used by the library, hence part of the check."""
    return [k for k, v in vars(mod).items()
            if isinstance(v, type) and not k.startswith("_") and v.__module__ == mod.__name__
            and hasattr(v, "__enter__") and hasattr(v, "__exit__") and k not in mod.__all__]


def _real_classes():
    import gpytorch.settings as S
    import gpytorch.beta_features as B
    import linear_operator.settings as LS
    out = {}
    for mod in (S, B):
        for n in list(mod.__all__) + _unlisted_public(mod):
            out[n] = getattr(mod, n)
    for n in ("_fast_covar_root_decomposition", "_fast_log_prob", "_fast_solves"):
        out[n] = getattr(LS, n)
    return out


_ALIAS = {"torch.float64": "torch.double", "torch.float32": "torch.float", "torch.float16": "torch.half"}


def canon(v):
    import torch
    if isinstance(v, torch.dtype):
        return _ALIAS.get(str(v), str(v))
    return repr(v)


def variants(name, cls, desc):
    """Argument variants for one class: list of kwargs dicts (values are Python objects).  Always includes an explicit
    argument EQUAL TO THE CLASS DEFAULT (a block that re-asserts the default inside another block must win) and
    falsy-but-legal values (0, 0.0, False) where `x or current` / truthiness bugs hide."""
    import torch
    params = [p for p, _ in desc["params"]]
    if params == ["state"]:
        return [{"state": True}, {"state": False}, {}]
    if params == ["value"]:
        if name == "observation_nan_policy":
            return [{"value": "mask"}, {"value": "ignore"}, {"value": "fill"}, {"value": "bogus"}]
        if name.startswith("_linalg_dtype"):
            return [{"value": torch.float}, {"value": cls.value()}, {"value": torch.half}]
        return [{"value": 7}, {"value": cls.value()}, {"value": 0}, {"value": 0.125}]
    if params == ["float_value", "double_value", "half_value"]:
        return [{"half_value": 0.5}, {"double_value": 0.0}, {"float_value": 0.25}, {"double_value": 0.75, "half_value": 0.5},
                {"float_value": 0.25, "double_value": 0.75, "half_value": 0.5}, {"float_value": 0}, {}]
    if params == ["state", "num_probe_vectors"]:
        return [{"state": True, "num_probe_vectors": 5}, {"state": False}, {"num_probe_vectors": 3},
                {"state": True, "num_probe_vectors": 0}]
    if params == ["covar_root_decomposition", "log_prob", "solves"]:
        return [{"covar_root_decomposition": False}, {"log_prob": False, "solves": False}, {}]
    if params == ["default", "symeig", "cholesky"]:
        return [{"default": torch.float}, {"symeig": torch.half}, {"default": torch.float, "cholesky": torch.half}]
    raise RuntimeError(f"no argument variants for constructor {name}({params})")


OBS_PARAM = {"on()": "state", "value()": "value", "value(torch.float)": "float_value",
             "value(torch.double)": "double_value", "value(torch.half)": "half_value",
             "num_probe_vectors()": "num_probe_vectors"}


class World:
    """The real classes, discovered REFLECTIVELY (no dependence on the translator): class fields = non-callable
    class attributes with a leading underscore, constructor parameters from the signature, observers by name.
    The translator's tables (`tr`) are only used to encode programs for the Lean driver."""

    def __init__(self, tr=None, exported=None):
        import inspect
        import gpytorch.settings as S
        import gpytorch.beta_features as B
        self.tr = tr
        self.real = _real_classes()
        self.names = list(self.real)
        self.exported = [n for mod in (S, B) for n in list(mod.__all__) + _unlisted_public(mod)
                         if isinstance(self.real.get(n), type)]
        self.descs = {}
        for n, cls in self.real.items():
            fields = {}
            for k in dir(cls):
                if k.startswith("_") and not k.startswith("__"):
                    v = inspect.getattr_static(cls, k)
                    if not callable(v) and not isinstance(v, (classmethod, staticmethod, property)):
                        fields[k] = getattr(cls, k)
            params = [(p.name, None) for p in list(inspect.signature(cls.__init__).parameters.values())[1:]
                      if p.kind in (p.POSITIONAL_OR_KEYWORD, p.KEYWORD_ONLY)]
            obs = {}
            if hasattr(cls, "on"):
                obs["on()"] = None
            if hasattr(cls, "value"):
                sig = inspect.signature(cls.value)
                if "dtype" in sig.parameters:
                    for t in ("float", "double", "half"):
                        obs[f"value(torch.{t})"] = None
                else:
                    obs["value()"] = None
            if hasattr(cls, "num_probe_vectors"):
                obs["num_probe_vectors()"] = None
            self.descs[n] = {"fields": fields, "params": params, "observers": obs}
        self.atoms = list(tr.T.atom) if tr is not None else ["None"]
        self._atom_ix = {}
        self._obs = {}
        self.slots = [(n, f) for n in self.names for f in self.descs[n]["fields"]]
        self._slot_objs = [(self.real[n], f) for n, f in self.slots]
        if tr is not None:
            # the model's slots, in the driver's dump order
            self.model_names = [tr.descs[k]["name"] for k in tr.order]
            self.model_slots = [(tr.descs[k]["name"], f) for k in tr.order for f in tr.descs[k]["fields"]]
            missing = [sl for sl in self.model_slots if sl not in self.slots]
            if missing:
                raise RuntimeError(f"translated class fields not found on the real classes: {missing[:5]}")

    def atom(self, v):
        if v is None:
            return "N"
        k = (v.__class__, v)          # True / 1 / 1.0 are equal and hash alike: keep the type in the key
        r = self._atom_ix.get(k)
        if r is None:
            c = canon(v)
            if c not in self.atoms:
                self.atoms.append(c)
            r = self._atom_ix[k] = str(self.atoms.index(c))
        return r

    def snapshot(self):
        return tuple(self.atom(getattr(c, f)) for c, f in self._slot_objs)

    def raw_list(self):
        """raw class-field values in slot order (for the frame oracle: cheaper than `snapshot`)"""
        return [getattr(c, f) for c, f in self._slot_objs]

    def param_names(self, n):
        return [p for p, _ in self.descs[n]["params"]]

    def project(self, snap):
        """restrict a reflective snapshot to the model's slots (driver order)"""
        d = dict(zip(self.slots, snap))
        return tuple(d[sl] for sl in self.model_slots)

    def raw(self):
        return {(n, f): getattr(self.real[n], f) for n, f in self.slots}

    def restore(self, raw):
        for (n, f), v in raw.items():
            setattr(self.real[n], f, v)

    def observers(self, n):
        """name -> callable for the visible value(s) of class n."""
        import torch
        if n in self._obs:
            return self._obs[n]
        cls = self.real[n]
        obs = self._obs[n] = {}
        for oname in self.descs[n]["observers"]:
            if oname == "on()":
                obs[oname] = cls.on
            elif oname == "value()":
                obs[oname] = cls.value
            elif oname.startswith("value(torch."):
                dt = getattr(torch, oname[len("value(torch."):-1])
                obs[oname] = (lambda c, d: (lambda: c.value(d)))(cls, dt)
            elif oname == "num_probe_vectors()":
                obs[oname] = cls.num_probe_vectors
        return obs


# Program items:
#   'P' probe | 'R' raise | ('W', name, kwargs, body)                      single-manager with
#   ('M', [(name, kwargs), …], body)      `with a(..), b(..)[, c(..)]: body`   (one real multi-manager statement)
#   ('X', body)                           `with contextlib.ExitStack() as es: body`
#   ('C', name, kwargs)                   `es.enter_context(name(**kwargs))`  (statement level of an 'X' body only)
#   ('T', body)                           `try: body` / `except Exception: pass`
# Programs that use only P / R / W are sent to the driver in the original grammar and run by `Prog.run`; the others go
# through `XProg.run` (`Model/SettingsExt.lean`).

def _is_ext(prog):
    return any(isinstance(it, tuple) and (it[0] != "W" or _is_ext(it[3])) for it in prog)


def _args(w, n, kw):
    toks = []
    for k, v in kw.items():
        toks += [str(w.tr.T.f(k)), w.atom(v)]
    return [str(w.tr.T.c(n)), str(len(kw))] + toks


def encode(w, prog):
    out = []
    for it in prog:
        if it in ("P", "R"):
            out.append(it)
        elif it[0] == "W":
            out += ["W"] + _args(w, it[1], it[2]) + encode(w, it[3]).split() + ["E"]
        elif it[0] == "M":
            out += ["M", str(len(it[1]))]
            for n, kw in it[1]:
                out += _args(w, n, kw)
            out += encode(w, it[2]).split() + ["E"]
        elif it[0] in ("X", "T"):
            out += [it[0]] + encode(w, it[1]).split() + ["E"]
        elif it[0] == "C":
            out += ["C"] + _args(w, it[1], it[2])
        else:
            raise RuntimeError(f"unknown program item {it!r}")
    return " ".join(out)


def _call(n, kw):
    return f"{n}({', '.join(f'{k}={canon(v)}' for k, v in kw.items())})"


def show(prog):
    out = []
    for it in prog:
        if it == "P":
            out.append("probe")
        elif it == "R":
            out.append("raise")
        elif it[0] == "W":
            out.append(f"with {_call(it[1], it[2])}: [{show(it[3])}]")
        elif it[0] == "M":
            out.append(f"with {', '.join(_call(n, kw) for n, kw in it[1])}: [{show(it[2])}]")
        elif it[0] == "X":
            out.append(f"with ExitStack() as es: [{show(it[1])}]")
        elif it[0] == "T":
            out.append(f"try: [{show(it[1])}] except: pass")
        elif it[0] == "C":
            out.append(f"es.enter_context({_call(it[1], it[2])})")
    return "; ".join(out)


def _spec_tables():
    from translate import g1_settings as G
    return G.DOCUMENTED_CTOR_DEFAULTS, G.NONE_MEANS_KEEP, G.COMPOSITE_OBS


def _members(n):
    """classes whose fields a block of class n legitimately changes"""
    _, _, comp = _spec_tables()
    return {n} | {m for m, _, _ in comp.get(n, {}).values()}


def _pre(w, n):
    """observed right BEFORE `n(**kw)` is constructed: every raw class field (frame oracle) and, for the per-dtype
    settings, the visible values (an un-named field must keep them)."""
    _, keep, _ = _spec_tables()
    pre = {"raw": w.raw_list()}
    if w.param_names(n) == list(keep):
        pre["obs"] = {oname: canon(fn()) for oname, fn in w.observers(n).items()}
    return pre


def _post(w, n, kw, pre, inner_checks, suffix=""):
    """spec oracle inside the block of `n(**kw)` (right after entry; `suffix` = '@after-nested' when the nested program
    has finished normally).  Entries: (key, sentence, got, want)."""
    dcd, keep, comp = _spec_tables()
    obs = w.observers(n)
    pn_all = w.param_names(n)
    # innermost wins: observers show the arguments
    for oname, fn in obs.items():
        pn = OBS_PARAM.get(oname)
        if pn in kw and kw[pn] is not None:
            inner_checks.append((f"innermost:{n}.{oname}{suffix}", f"{n}.{oname} shows {{got}}, argument was {{want}}",
                                 canon(fn()), canon(kw[pn])))
    if not suffix:
        # documented constructor defaults: an omitted argument shows its documented default
        tab = dcd.get(n) or (dcd["*flag*"] if pn_all == ["state"] else {})
        for oname, fn in obs.items():
            pn = OBS_PARAM.get(oname)
            if pn in tab and pn not in kw:
                inner_checks.append((f"innermost:{n}.{oname}@omitted-arg",
                                     f"{n}.{oname} shows {{got}}, the documented default of the omitted argument is {{want}}",
                                     canon(fn()), tab[pn]))
    # a field the block does NOT name keeps the value of the enclosing block (per-dtype settings: None = keep)
    if pre is not None and "obs" in pre:
        for oname, fn in obs.items():
            pn = OBS_PARAM.get(oname)
            if pn in keep and kw.get(pn) is None:
                inner_checks.append((f"innermost:{n}.{oname}@unnamed-field{suffix.replace('@', '-')}",
                                     f"{n}.{oname} shows {{got}} although the block does not name {pn}; the enclosing "
                                     f"value is {{want}}", canon(fn()), pre["obs"][oname]))
    # composite settings: the member's observer shows the argument / the fallback parameter / the documented default
    for pn, (mname, moname, fallback) in comp.get(n, {}).items():
        if kw.get(pn) is not None:
            want = canon(kw[pn])
        elif fallback is not None and kw.get(fallback) is not None:
            want = canon(kw[fallback])
        else:
            want = dcd.get(n, {}).get(pn if fallback is None else fallback)
        if want is None or mname not in w.real:
            continue
        inner_checks.append((f"innermost:{n}.{pn}->{mname}.{moname}{suffix}",
                             f"{mname}.{moname} shows {{got}} inside {n}; specified: {{want}}",
                             canon(w.observers(mname)[moname]()), want))
    # frame: entering a block of class n changes no field of any other class
    if pre is not None and not suffix:
        mem = _members(n)
        now = w.raw_list()
        for (cn, f), a_, b_ in zip(w.slots, pre["raw"], now):
            if cn not in mem and not (a_ is b_ or a_ == b_):
                inner_checks.append((f"frame:{cn}.{f}", f"entering {_call(n, kw)} changed {cn}.{f} to {{got}} (was {{want}})",
                                     canon(b_), canon(a_)))


def run_real(w, prog, trace, inner_checks, strict=False, es=None):
    """Executes on the real classes (strict: warnings escalated to exceptions, like `python -W error`)."""
    import contextlib
    import warnings
    for it in prog:
        if it == "P":
            trace.append(w.snapshot())
        elif it == "R":
            raise _Boom()
        elif it[0] == "W":
            _, n, kw, body = it
            with warnings.catch_warnings():
                warnings.simplefilter("error" if strict else "ignore")
                pre = _pre(w, n)
                cm = w.real[n](**kw)   # may raise ValueError: nothing entered
                with cm:
                    _post(w, n, kw, pre, inner_checks)
                    run_real(w, body, trace, inner_checks, strict, es=es)
                    # … and again after the nested program finished normally
                    _post(w, n, kw, pre, inner_checks, "@after-nested")
        elif it[0] == "M":
            _, ms, body = it
            with warnings.catch_warnings():
                warnings.simplefilter("error" if strict else "ignore")
                R = w.real
                if len(ms) == 2:
                    (n1, k1), (n2, k2) = ms
                    with R[n1](**k1), R[n2](**k2):
                        _post(w, n2, k2, None, inner_checks)
                        run_real(w, body, trace, inner_checks, strict)
                        _post(w, n2, k2, None, inner_checks, "@after-nested")
                elif len(ms) == 3:
                    (n1, k1), (n2, k2), (n3, k3) = ms
                    with R[n1](**k1), R[n2](**k2), R[n3](**k3):
                        _post(w, n3, k3, None, inner_checks)
                        run_real(w, body, trace, inner_checks, strict)
                        _post(w, n3, k3, None, inner_checks, "@after-nested")
                else:
                    raise RuntimeError("multi-manager with: 2 or 3 managers")
        elif it[0] == "X":
            with contextlib.ExitStack() as stack:
                run_real(w, it[1], trace, inner_checks, strict, es=stack)
        elif it[0] == "C":
            _, n, kw = it
            with warnings.catch_warnings():
                warnings.simplefilter("error" if strict else "ignore")
                pre = _pre(w, n)
                es.enter_context(w.real[n](**kw))
            _post(w, n, kw, pre, inner_checks)
        elif it[0] == "T":
            try:
                run_real(w, it[1], trace, inner_checks, strict, es=es)
            except (_Boom, ValueError, Warning):
                pass
        else:
            raise RuntimeError(f"unknown program item {it!r}")
    return False


def _subsets(xs):
    return [c for r in range(len(xs) + 1) for c in itertools.combinations(xs, r)]


def field_rounds(name, cls, params):
    """For a multi-field setting: list of (outer values, inner values), one value per constructor parameter; within a
    tuple the values are pairwise distinct wherever the type allows (a float/double/half mix-up must be visible)."""
    import torch
    if params == ["float_value", "double_value", "half_value"]:
        return [((0.11, 0.22, 0.33), (0.44, 0.55, 0.66))]
    if params == ["state", "num_probe_vectors"]:
        return [((True, 5), (False, 3)), ((False, 4), (True, 6))]
    if params == ["covar_root_decomposition", "log_prob", "solves"]:
        F, T = (False,) * 3, (True,) * 3
        return [(F, F), (F, T), (T, F)]
    if params == ["default", "symeig", "cholesky"]:
        return [((torch.float, torch.half, torch.bfloat16), (torch.half, torch.bfloat16, torch.float))]
    raise RuntimeError(f"no field values for multi-field constructor {name}({params})")


def subset_programs(w):
    """Every multi-field setting: a block naming every SUBSET of its fields (incl. none), alone and nested under a
    block of the same class naming every subset (other values), every field probed inside, with and without raise."""
    for n in w.exported:
        params = w.param_names(n)
        if len(params) < 2:
            continue
        for outer, inner in field_rounds(n, w.real[n], params):
            for s1 in _subsets(range(len(params))):
                k1 = {params[j]: outer[j] for j in s1}
                for tail in ([], ["R"]):
                    yield ["P", ("W", n, k1, ["P"] + tail), "P"]
                for s2 in _subsets(range(len(params))):
                    k2 = {params[j]: inner[j] for j in s2}
                    for tail in ([], ["R"]):
                        yield ["P", ("W", n, k1, ["P", ("W", n, k2, ["P"] + tail), "P"]), "P"]


def raisers(w):
    """(name, kwargs, needs_strict): managers that fail to enter — constructor raising (ValueError) or `__enter__`
    raising (a warning escalated to an error)."""
    out = []
    if "observation_nan_policy" in w.real:
        out.append(("observation_nan_policy", {"value": "bogus"}, False))
    if "checkpoint_kernel" in w.real:
        out.append(("checkpoint_kernel", {"value": 3}, True))
    return out


def ext_programs(w, tier, rng, blocks):
    """multi-manager with / ExitStack / try-except re-entry programs (run by `XProg.run` on the model side)."""
    first = {}
    for n, kw in blocks:
        first.setdefault(n, (n, kw))
    firsts = list(first.values())
    # a later manager fails to enter: the earlier ones must be exited; then the SAME setting is re-entered
    for a in firsts:
        for rn, rkw, _ in raisers(w):
            yield ["P", ("T", [("M", [a, (rn, rkw)], ["P"])]), "P", ("W", a[0], a[1], ["P"]), "P"]
            yield ["P", ("T", [("M", [a, (rn, rkw), a], ["P"])]), "P", ("M", [a, a], ["P"]), "P"]
            yield ["P", ("T", [("X", [("C",) + a, "P", ("C", rn, rkw), "P"])]), "P", ("X", [("C",) + a, "P"]), "P"]
            yield ["P", ("M", [a, (rn, rkw)], ["P"]), "P"]          # without try: the exception ends the program
    # multi-manager with = nested blocks; ExitStack = nested blocks
    k2, k3 = (500, 150) if tier == "quick" else (6000, 3000)
    for _ in range(k2):
        a, b = rng.choice(blocks), rng.choice(blocks)
        tail = ["R"] if rng.random() < 0.3 else []
        yield ["P", ("M", [a, b], ["P"] + tail), "P"]
        yield ["P", ("X", [("C",) + a, "P", ("C",) + b, "P"] + tail), "P"]
    for _ in range(k3):
        a, b, c = (rng.choice(blocks) for _ in range(3))
        tail = ["R"] if rng.random() < 0.3 else []
        yield ["P", ("M", [a, b, c], ["P"] + tail), "P"]
        yield ["P", ("W", a[0], a[1], ["P", ("X", ["P", ("C",) + b, ("W", c[0], c[1], ["P"] + tail), ("C",) + a, "P"]), "P"]), "P"]
        yield ["P", ("X", [("C",) + a, ("T", [("M", [b, c], ["P", "R"])]), "P", ("X", [("C",) + c, "P"]), "P"]), "P"]


def programs(w, tier, rng):
    blocks = []
    for n in w.exported:
        for kw in variants(n, w.real[n], w.descs[n]):
            blocks.append((n, kw))
    # depth 1: every variant, with and without raise in the body
    for n, kw in blocks:
        yield ["P", ("W", n, kw, ["P"]), "P"]
        yield ["P", ("W", n, kw, ["P", "R"]), "P"]
    # depth 2: all ordered pairs; quick = first two variants per class, thorough = all variants
    per = {}
    for n, kw in blocks:
        per.setdefault(n, []).append((n, kw))
    lim = 2 if tier == "quick" else 99
    b2 = [b for n in w.exported for b in per[n][:lim]]
    for (n1, k1), (n2, k2) in itertools.product(b2, b2):
        yield ["P", ("W", n1, k1, ["P", ("W", n2, k2, ["P"]), "P"]), "P"]
        yield ["P", ("W", n1, k1, ["P", ("W", n2, k2, ["P", "R"]), "P"]), "P"]
        yield ["P", ("W", n1, k1, [("W", n2, k2, ["P"]), "P", "R"]), "P"]
    # sequences and depth 3 (sampled)
    k = 400 if tier == "quick" else 20000
    for _ in range(k):
        a, b, c = (rng.choice(blocks) for _ in range(3))
        r1, r2, r3 = (rng.random() < 0.25 for _ in range(3))
        inner = ["P", ("W", c[0], c[1], ["P"] + (["R"] if r3 else [])), "P"]
        mid = ["P", ("W", b[0], b[1], inner + (["R"] if r2 else [])), "P"]
        if rng.random() < 0.5:
            yield ["P", ("W", a[0], a[1], mid + (["R"] if r1 else [])), "P"]
        else:  # sequential composition after an exception-free block
            yield ["P", ("W", a[0], a[1], ["P"]), ("W", b[0], b[1], inner), "P"]
    # wave 3: subsets of the fields of every multi-field setting; multi-manager with / ExitStack / try-except
    yield from subset_programs(w)
    yield from ext_programs(w, tier, rng, blocks)


# ------------------------------------------------------------------ threads / decorators / ExitStack misuse

def run_threads(w, events):
    """Execute one global interleaving of thread events on the real classes, each thread holding REAL nested `with`
    blocks open: events ('e', t, name, kwargs) | ('x', t) | ('p', t).  The main thread hands one event at a time to the
    worker of thread t and waits for its acknowledgement, so the global order is exactly `events`.  Returns the probes."""
    import queue
    import threading
    trace = []

    class Worker(threading.Thread):
        def __init__(self):
            super().__init__(daemon=True)
            self.q, self.ack = queue.Queue(), queue.Queue()

        def run(self):
            self.serve(True)

        def serve(self, top):
            while True:
                cmd = self.q.get()
                if cmd[0] == "e":
                    try:
                        with w.real[cmd[1]](**cmd[2]):
                            self.ack.put("entered")
                            self.serve(False)
                        self.ack.put("exited")
                    except Exception as e:   # constructor / __enter__ raised: nothing entered
                        self.ack.put(f"error {type(e).__name__}")
                elif cmd[0] == "x":
                    if top:
                        self.ack.put("nothing-open")
                    else:
                        return
                elif cmd[0] == "p":
                    trace.append(w.snapshot())
                    self.ack.put("probed")
                else:
                    return

    workers = {}
    try:
        for ev in events:
            t = ev[1]
            if t not in workers:
                workers[t] = Worker()
                workers[t].start()
            workers[t].q.put(("e", ev[2], ev[3]) if ev[0] == "e" else (ev[0],))
            workers[t].ack.get(timeout=30)
    finally:
        for wk in workers.values():
            for _ in range(8):     # close whatever is still open, then stop
                wk.q.put(("x",))
            wk.q.put(("q",))
        for wk in workers.values():
            wk.join(timeout=30)
    return trace


def encode_threads(w, events):
    out = []
    for ev in events:
        if ev[0] == "e":
            out += ["e", str(ev[1])] + _args(w, ev[2], ev[3])
        else:
            out += [ev[0], str(ev[1])]
    return " ".join(out)


def show_threads(events):
    return "; ".join((f"T{ev[1]} enters {_call(ev[2], ev[3])}" if ev[0] == "e" else
                      f"T{ev[1]} leaves its block" if ev[0] == "x" else f"T{ev[1]} probes") for ev in events)


def side_cells(ctx, w, base, base_raw, lines, recs, want_driver):
    """Cells about what is NOT claimed / not supported, compared with the model (`runThreads`, `XProg.run`) so that a
    change of the documented behaviour shows as a broken tie: (1) the settings are ONE process-global store — a block
    of thread A is visible in thread B, globally well-nested blocks of two threads restore, interleaved ones need not;
    (2) the classes cannot be used as decorators; (3) ExitStack.enter_context inside a nested with block."""
    import contextlib
    import warnings
    with warnings.catch_warnings():
        warnings.simplefilter("ignore")
        for n in w.exported:
            vs = []
            for kw in variants(n, w.real[n], w.descs[n]):
                try:
                    w.real[n](**kw)
                    vs.append(kw)
                except ValueError:
                    pass
            if not vs:
                continue
            # (2) decorators
            inst = w.real[n](**vs[0])
            ctx.case(f"decorator {n}", nontrivial=True)
            if callable(inst) or issubclass(w.real[n], contextlib.ContextDecorator):
                ctx.broke("correspondence", f"decorator-use:{n}",
                          f"instances of {n} are callable / ContextDecorators: use as a decorator is possible but NOT modelled")
            # (1) threads
            ka, kb = vs[0], vs[1 % len(vs)]
            scen = {
                "visible": [("e", 0, n, ka), ("p", 1), ("x", 0), ("p", 1)],
                "lifo": [("e", 0, n, ka), ("e", 1, n, kb), ("p", 0), ("x", 1), ("p", 0), ("x", 0), ("p", 1)],
                "interleaved": [("e", 0, n, ka), ("e", 1, n, kb), ("x", 0), ("p", 1), ("x", 1), ("p", 0)],
            }
            for sname, evs in scen.items():
                text = f"[threads:{sname}] {show_threads(evs)}"
                trace = run_threads(w, evs)
                final = w.snapshot()
                ctx.case(text, nontrivial=True)
                ctx.count("thread_cells")
                # documented behaviour, judged directly on the real classes: the other thread SEES the block
                if sname == "visible":
                    for oname, fn in w.observers(n).items():
                        pn = OBS_PARAM.get(oname)
                        if pn in ka and ka[pn] is not None:
                            d = dict(zip(w.slots, trace[0]))
                            vis = [w.atoms[int(v)] if v != "N" else "None" for (cn, f), v in d.items() if cn == n]
                            if canon(ka[pn]) not in vis and trace[0] == base:
                                ctx.broke("correspondence", f"thread-visibility:{n}",
                                          f"`{text}`: thread 1 does not see the block of thread 0 — the settings look "
                                          f"thread-local; the model (and every theorem) assumes ONE process-global store")
                if sname != "interleaved" and final != base:
                    for (cn, f), a_, b_ in zip(w.slots, base, final):
                        if a_ != b_:
                            ctx.fail(f"leak:{cn}.{f}", f"after `{text}` (globally well nested) {cn}.{f} is "
                                     f"{w.atoms[int(b_)] if b_ != 'N' else None!r}, was {w.atoms[int(a_)] if a_ != 'N' else None!r}",
                                     {"threads": text, "field": f"{cn}.{f}"})
                if want_driver:
                    lines.append("TL " + encode_threads(w, evs))
                    recs.append((text, False, w.project(final), [w.project(t) for t in trace], ""))
                if final != base:
                    w.restore(base_raw)     # interleaved blocks of two threads: documented non-claim
            # (3) ExitStack misuse (non-claim): compared with the model only
            if len(w.param_names(n)) >= 1 and want_driver:
                prog = ["P", ("X", [("W", n, ka, [("C", n, kb), "P"]), "P"]), "P"]
                text = "[non-claim:exitstack-escape] " + show(prog)
                trace, inner = [], []
                try:
                    run_real(w, prog, trace, inner, False)
                except (_Boom, ValueError, Warning):
                    pass
                final = w.snapshot()
                ctx.case(text, nontrivial=True)
                lines.append("XL " + encode(w, prog))
                recs.append((text, False, w.project(final), [w.project(t) for t in trace], ";pending=0"))
                if final != base:
                    w.restore(base_raw)


def correspondence(ctx, want_driver=True):
    sys.path.insert(0, os.path.join(C.VERIF, "harness"))
    w = World(_state.get("tr"), _state.get("exported"))
    if w.tr is None:
        want_driver = False   # translator broke: the spec oracle below still runs on the real classes
    rng = ctx.rng("programs")
    base_raw = w.raw()
    base = w.snapshot()
    lines, recs = [], []
    kinds = {}
    # classes whose construction / entry / exit emits a warning (found by running them once)
    import warnings as _w
    warners = set()
    for n in w.exported:
        for kw in variants(n, w.real[n], w.descs[n])[:1]:
            with _w.catch_warnings(record=True) as rec:
                _w.simplefilter("always")
                try:
                    with w.real[n](**kw):
                        pass
                except Exception:
                    pass
            if rec:
                warners.add(n)
    ctx.notes["classes_that_warn"] = sorted(warners)
    w.restore(base_raw)   # the probing above may itself have leaked (known finding): start from the pristine state

    def both_modes():
        for prog in programs(w, ctx.tier, rng):
            yield False, prog
            if any(it[1] in warners for it in _walk(prog)):
                yield True, prog   # same program with warnings escalated to exceptions
    for strict, prog in both_modes():
        trace, inner = [], []
        raised = False
        try:
            run_real(w, prog, trace, inner, strict)
        except _Boom:
            raised = True
        except (ValueError, Warning):
            raised = True
        final = w.snapshot()
        text = ("[-W error] " if strict else "") + show(prog)
        nontriv = any(t != base for t in trace)
        ctx.case(text, nontrivial=nontriv, sample={"program": text, "raised": raised})
        for n in {it[1] for it in _walk(prog)}:
            kinds[n] = kinds.get(n, 0) + 1
        # --- spec oracle, on the real classes only
        leaked = set()
        if final != base:
            for (n, f), a, b in zip(w.slots, base, final):
                if a != b:
                    leaked.add(f"{n}.{f}")
                    ctx.fail(f"leak:{n}.{f}", f"after `{text}` {n}.{f} is {w.atoms[int(b)] if b != 'N' else None!r}, "
                             f"was {w.atoms[int(a)] if a != 'N' else None!r} before the block",
                             {"program": text, "strict": strict, "field": f"{n}.{f}"})
            w.restore(base_raw)
        seen_keys = set()
        for key, sentence, got, want in inner:
            if got != want:
                # exact signature of "`__exit__` does not restore a None": the value a NESTED block left behind is
                # seen in the enclosing block whose own value of that un-named field was None, and the same field is
                # also reported as leaked at the end of this program -> same root cause, reported under the leak key
                m = _re0.match(r"innermost:(\w+)\.value\(torch\.(\w+)\)@unnamed-field-after-nested$", key)
                if m and want == "None" and f"{m.group(1)}._global_{m.group(2)}_value" in leaked:
                    key = f"leak:{m.group(1)}._global_{m.group(2)}_value"
            if got != want and key not in seen_keys:
                seen_keys.add(key)
                ctx.fail(key, f"inside `{text}` " + sentence.format(got=got, want=want),
                         {"program": text, "strict": strict, "check": key, "got": got, "want": want})
        if want_driver:
            ext = _is_ext(prog)
            lines.append(("X" if ext else "") + ("S " if strict else "L ") + encode(w, prog))
            recs.append((text, raised, w.project(final), [w.project(t) for t in trace], ";pending=0" if ext else ""))
            ctx.count("xprog_lines" if ext else "prog_lines")
    # --- spec oracle: outside all blocks every setting reports its documented default (docstring of the real class)
    import ast as _ast
    import re as _re
    for n in w.exported:
        cls = w.real[n]
        doc = cls.__doc__ or ""
        checks = []
        m = _re.search(r"\(?Default:\s*([^\s)]+)\)?", doc)
        obs = w.observers(n)
        if m and "on()" in obs:
            checks.append(("on()", m.group(1)))
        elif m and "value()" in obs:
            checks.append(("value()", m.group(1)))
        for ty, txt in _re.findall(r"Default for `(float|double|half)`:\s*([^\s]+)", doc):
            checks.append((f"value(torch.{ty})", txt))
        for oname, txt in checks:
            if oname not in obs:
                continue
            try:
                want = _ast.literal_eval(txt)
            except Exception:
                want = txt.rstrip(".")
            got = obs[oname]()
            same = (got == want) if not isinstance(want, str) or isinstance(got, str) else (canon(got) == want)
            ctx.case(f"default {n}.{oname}", nontrivial=True)
            if not same:
                ctx.fail(f"default:{n}.{oname}", f"outside all blocks {n}.{oname} reports {got!r}; the class documents "
                         f"Default: {txt}", {"class": n, "observer": oname, "documented": txt, "got": repr(got)})
    # --- spec oracle: the SAME context object entered twice (re-entrant / sequential reuse) still restores the store
    import warnings as _w2
    reent = 0
    for n in w.exported:
        for kw in variants(n, w.real[n], w.descs[n])[:3]:
            for shape in ("nested", "nested-raise", "sequential"):
                try:
                    with _w2.catch_warnings():
                        _w2.simplefilter("ignore")
                        cobj = w.real[n](**kw)
                        try:
                            if shape == "sequential":
                                with cobj:
                                    pass
                                with cobj:
                                    pass
                            else:
                                with cobj:
                                    with cobj:
                                        if shape == "nested-raise":
                                            raise _Boom()
                        except _Boom:
                            pass
                except ValueError:
                    continue
                reent += 1
                ctx.case(f"reuse {shape} {n}({kw})", nontrivial=True)
                final = w.snapshot()
                if final != base:
                    for (cn, f), a, b in zip(w.slots, base, final):
                        if a != b:
                            ctx.fail(f"leak:{cn}.{f}", f"after using ONE {n}({kw}) object twice ({shape}) {cn}.{f} is "
                                     f"{w.atoms[int(b)] if b != 'N' else None!r}, was {w.atoms[int(a)] if a != 'N' else None!r}",
                                     {"class": n, "kwargs": repr(kw), "shape": shape, "field": f"{cn}.{f}"})
                    w.restore(base_raw)
    ctx.count("reuse_programs", reent)
    side_cells(ctx, w, base, base_raw, lines, recs, want_driver)
    ctx.notes["classes_exercised"] = len(kinds)
    ctx.notes["blocks_per_class_min"] = min(kinds.values()) if kinds else 0
    if not want_driver:
        _maybe_deepen(ctx)
        return
    # --- model correspondence
    import time as _time
    _t0 = _time.time()
    replies = C.run_driver("C20", lines)
    ctx.notes["driver_wall_s"] = round(_time.time() - _t0, 1)
    mism = 0
    for (text, raised, final, trace, sfx), line, rep in zip(recs, lines, replies):
        want = f"raised={1 if raised else 0};final={','.join(final)};trace=" + "|".join(",".join(t) for t in trace) + sfx
        if rep != want:
            mism += 1
            if mism <= 5:
                # locate the first differing slot for the key
                key = "model-mismatch"
                if text.startswith("[threads:"):
                    key = "thread-shared-store"
                elif text.startswith("[non-claim:"):
                    key = "exitstack-escape"
                try:
                    rf = rep.split(";")[1][len("final="):].split(",")
                    d = [w.model_slots[i] for i, (a, b) in enumerate(zip(rf, final)) if a != b]
                    if d:
                        key = f"{key}:{d[0][0]}.{d[0][1]}"
                except Exception:
                    pass
                ctx.broke("correspondence", key, f"program `{text}`\nmodel: {rep[:300]}\nreal:  {want[:300]}")
    ctx.count("driver_lines", len(lines))
    ctx.count("model_mismatches", mism)
    # run.py starts `search` only when there are no failures at all; the known cholesky_jitter finding always fires, so
    # when a proof / the tie broke (incl. a model mismatch above) and nothing BUT that known key failed, deepen here
    _maybe_deepen(ctx)


def _walk(prog):
    """every manager a program constructs, as ('W', name, kwargs, …) tuples"""
    for it in prog:
        if not isinstance(it, tuple):
            continue
        if it[0] == "W":
            yield it
            yield from _walk(it[3])
        elif it[0] == "M":
            for n, kw in it[1]:
                yield ("W", n, kw, [])
            yield from _walk(it[2])
        elif it[0] == "C":
            yield ("W", it[1], it[2], [])
        elif it[0] in ("X", "T"):
            yield from _walk(it[1])


def _maybe_deepen(ctx):
    if ctx.broken and all(f["key"] == _ALWAYS_KNOWN for f in ctx.failures):
        search(ctx, ctx.broken, force=True)


def search(ctx, broken, force=False):
    """The proof or the tie broke.  The spec oracle inside `correspondence` is independent of the model and of
    the translator (the real classes are discovered reflectively), so it has already run over the full program
    set; if it reported nothing, deepen once with the thorough program set."""
    if (ctx.failures and not force) or ctx.tier == "thorough" or _state.get("deepened"):
        return
    _state["deepened"] = True
    ctx.tier = "thorough"
    try:
        correspondence(ctx, want_driver=False)
    finally:
        ctx.tier = "quick"


def replay(ctx, payload):
    """Re-run one recorded program on the real classes; True when it no longer fails."""
    w = World()
    case = payload.get("case") or {}
    if "shape" in case and "class" in case:      # ONE context object used twice
        import torch
        import warnings
        n, kw, shape = case["class"], eval(case["kwargs"], {"torch": torch}), case["shape"]
        base = w.snapshot()
        with warnings.catch_warnings():
            warnings.simplefilter("ignore")
            try:
                cobj = w.real[n](**kw)
                if shape == "sequential":
                    with cobj:
                        pass
                    with cobj:
                        pass
                else:
                    with cobj:
                        with cobj:
                            if shape == "nested-raise":
                                raise _Boom()
            except (_Boom, ValueError):
                pass
        return w.snapshot() == base
    if "program" not in case:                    # thread / side cells are broken-tie reports, not replayable inputs
        return True
    want = case["program"].replace("[-W error] ", "")
    strict = bool(case.get("strict"))
    for prog in programs(w, "thorough", ctx.rng("programs")):
        if show(prog) == want:
            base = w.snapshot()
            inner = []
            try:
                run_real(w, prog, [], inner, strict)
            except (_Boom, ValueError, Warning):
                pass
            want_key = payload["case"].get("check")
            bad = [k for k, _, got, want in inner if got != want and (want_key is None or k == want_key)]
            return w.snapshot() == base and not bad
    return True

"""C20 — global settings are scoped.

Tie: translator G1 (Gen/Settings.lean + generated per-class theorems) AND correspondence: well-nested
`with` programs with exceptions run on the real classes; raw class fields at every probe compared exactly
with the Lean model; independently the property itself (store after == store before; inside a block the
observer shows the argument) is checked on the real classes (spec oracle, no model involved).
"""
import itertools
import os
import sys

from lib import common as C

ID = "C20"
PROP_MODULES = ["GPVerif.Props.C20", "GPVerif.Gen.SettingsThms"]
BUILD_TARGETS = ["GPVerif.Props.C20", "GPVerif.Gen.Settings"]
RULE = ("well-nested with-programs over all exported settings classes (depth<=2 exhaustive over the listed argument "
        "variants, raise injected at every body boundary; thorough adds depth 3); distinct = distinct program text; "
        "non-trivial = the program enters at least one block that changes a visible value")
EXHAUSTIVE = True
TRUSTED = ["translator harness/translate/g1_settings.py (Python ast -> Settings IR)",
           "modelled not verified: Python's with/exception protocol (Prog.run), class-attribute lookup"]
ASSUMPTIONS = ["__exit__ is called on every exit path of a with body (Python semantics)",
               "deterministic_probes.probe_vectors is a cache, not a setting (writes dropped from the model)",
               "settings objects are constructed and entered by the same with statement"]

GEN = os.path.join(C.LEAN_DIR, "GPVerif", "Gen", "Settings.lean")
_state = {}


class _Boom(Exception):
    pass


def generate(ctx):
    sys.path.insert(0, os.path.join(C.VERIF, "harness"))
    from translate import g1_settings
    tr, exported, changed = g1_settings.generate(C.REPO, GEN)
    _state["tr"], _state["exported"] = tr, exported
    ctx.notes["gen_changed"] = changed
    ctx.notes["classes_translated"] = len(tr.order)


# ------------------------------------------------------------------ real side

def _real_classes():
    import gpytorch.settings as S
    import gpytorch.beta_features as B
    import linear_operator.settings as LS
    out = {}
    for n in S.__all__:
        out[n] = getattr(S, n)
    for n in B.__all__:
        out[n] = getattr(B, n)
    for n in ("_fast_covar_root_decomposition", "_fast_log_prob", "_fast_solves"):
        out[n] = getattr(LS, n)
    return out


_ALIAS = {"torch.float64": "torch.double", "torch.float32": "torch.float", "torch.float16": "torch.half"}


def canon(v):
    import torch
    if isinstance(v, torch.dtype):
        return _ALIAS.get(str(v), str(v))
    return repr(v)


def variants(name, cls, desc):
    """Argument variants for one class: list of kwargs dicts (values are Python objects).  Always includes an explicit
    argument EQUAL TO THE CLASS DEFAULT (a block that re-asserts the default inside another block must win) and
    falsy-but-legal values (0, 0.0, False) where `x or current` / truthiness bugs hide."""
    import torch
    params = [p for p, _ in desc["params"]]
    if params == ["state"]:
        return [{"state": True}, {"state": False}, {}]
    if params == ["value"]:
        if name == "observation_nan_policy":
            return [{"value": "mask"}, {"value": "ignore"}, {"value": "fill"}, {"value": "bogus"}]
        if name.startswith("_linalg_dtype"):
            return [{"value": torch.float}, {"value": cls.value()}, {"value": torch.half}]
        return [{"value": 7}, {"value": cls.value()}, {"value": 0}, {"value": 0.125}]
    if params == ["float_value", "double_value", "half_value"]:
        return [{"half_value": 0.5}, {"double_value": 0.0}, {"float_value": 0.25}, {"double_value": 0.75, "half_value": 0.5},
                {"float_value": 0.25, "double_value": 0.75, "half_value": 0.5}, {"float_value": 0}, {}]
    if params == ["state", "num_probe_vectors"]:
        return [{"state": True, "num_probe_vectors": 5}, {"state": False}, {"num_probe_vectors": 3},
                {"state": True, "num_probe_vectors": 0}]
    if params == ["covar_root_decomposition", "log_prob", "solves"]:
        return [{"covar_root_decomposition": False}, {"log_prob": False, "solves": False}, {}]
    if params == ["default", "symeig", "cholesky"]:
        return [{"default": torch.float}, {"symeig": torch.half}, {"default": torch.float, "cholesky": torch.half}]
    raise RuntimeError(f"no argument variants for constructor {name}({params})")


OBS_PARAM = {"on()": "state", "value()": "value", "value(torch.float)": "float_value",
             "value(torch.double)": "double_value", "value(torch.half)": "half_value",
             "num_probe_vectors()": "num_probe_vectors"}


class World:
    """The real classes, discovered REFLECTIVELY (no dependence on the translator): class fields = non-callable
    class attributes with a leading underscore, constructor parameters from the signature, observers by name.
    The translator's tables (`tr`) are only used to encode programs for the Lean driver."""

    def __init__(self, tr=None, exported=None):
        import inspect
        import gpytorch.settings as S
        import gpytorch.beta_features as B
        self.tr = tr
        self.real = _real_classes()
        self.names = list(self.real)
        self.exported = [n for n in list(S.__all__) + list(B.__all__) if isinstance(self.real.get(n), type)]
        self.descs = {}
        for n, cls in self.real.items():
            fields = {}
            for k in dir(cls):
                if k.startswith("_") and not k.startswith("__"):
                    v = inspect.getattr_static(cls, k)
                    if not callable(v) and not isinstance(v, (classmethod, staticmethod, property)):
                        fields[k] = getattr(cls, k)
            params = [(p.name, None) for p in list(inspect.signature(cls.__init__).parameters.values())[1:]
                      if p.kind in (p.POSITIONAL_OR_KEYWORD, p.KEYWORD_ONLY)]
            obs = {}
            if hasattr(cls, "on"):
                obs["on()"] = None
            if hasattr(cls, "value"):
                sig = inspect.signature(cls.value)
                if "dtype" in sig.parameters:
                    for t in ("float", "double", "half"):
                        obs[f"value(torch.{t})"] = None
                else:
                    obs["value()"] = None
            if hasattr(cls, "num_probe_vectors"):
                obs["num_probe_vectors()"] = None
            self.descs[n] = {"fields": fields, "params": params, "observers": obs}
        self.atoms = list(tr.T.atom) if tr is not None else ["None"]
        self.slots = [(n, f) for n in self.names for f in self.descs[n]["fields"]]
        if tr is not None:
            # the model's slots, in the driver's dump order
            self.model_names = [tr.descs[k]["name"] for k in tr.order]
            self.model_slots = [(tr.descs[k]["name"], f) for k in tr.order for f in tr.descs[k]["fields"]]
            missing = [sl for sl in self.model_slots if sl not in self.slots]
            if missing:
                raise RuntimeError(f"translated class fields not found on the real classes: {missing[:5]}")

    def atom(self, v):
        if v is None:
            return "N"
        c = canon(v)
        if c not in self.atoms:
            self.atoms.append(c)
        return str(self.atoms.index(c))

    def snapshot(self):
        return tuple(self.atom(getattr(self.real[n], f)) for n, f in self.slots)

    def project(self, snap):
        """restrict a reflective snapshot to the model's slots (driver order)"""
        d = dict(zip(self.slots, snap))
        return tuple(d[sl] for sl in self.model_slots)

    def raw(self):
        return {(n, f): getattr(self.real[n], f) for n, f in self.slots}

    def restore(self, raw):
        for (n, f), v in raw.items():
            setattr(self.real[n], f, v)

    def observers(self, n):
        """name -> callable for the visible value(s) of class n."""
        import torch
        cls = self.real[n]
        obs = {}
        for oname in self.descs[n]["observers"]:
            if oname == "on()":
                obs[oname] = cls.on
            elif oname == "value()":
                obs[oname] = cls.value
            elif oname.startswith("value(torch."):
                dt = getattr(torch, oname[len("value(torch."):-1])
                obs[oname] = (lambda c, d: (lambda: c.value(d)))(cls, dt)
            elif oname == "num_probe_vectors()":
                obs[oname] = cls.num_probe_vectors
        return obs


def encode(w, prog):
    """prog: nested list of items: 'P' | 'R' | ('W', name, kwargs, body)."""
    out = []
    for it in prog:
        if it in ("P", "R"):
            out.append(it)
        else:
            _, n, kw, body = it
            toks = []
            for k, v in kw.items():
                toks += [str(w.tr.T.f(k)), w.atom(v)]
            out += ["W", str(w.tr.T.c(n)), str(len(kw))] + toks + encode(w, body).split() + ["E"]
    return " ".join(out)


def show(prog):
    out = []
    for it in prog:
        if it == "P":
            out.append("probe")
        elif it == "R":
            out.append("raise")
        else:
            _, n, kw, body = it
            out.append(f"with {n}({', '.join(f'{k}={canon(v)}' for k, v in kw.items())}): [{show(body)}]")
    return "; ".join(out)


def run_real(w, prog, trace, inner_checks, strict=False):
    """Executes on the real classes (strict: warnings escalated to exceptions, like `python -W error`)."""
    import warnings
    for it in prog:
        if it == "P":
            trace.append(w.snapshot())
        elif it == "R":
            raise _Boom()
        else:
            _, n, kw, body = it
            with warnings.catch_warnings():
                warnings.simplefilter("error" if strict else "ignore")
                cm = w.real[n](**kw)   # may raise ValueError: nothing entered
                with cm:
                    # spec oracle (innermost wins): observers show the arguments right after entry
                    for oname, fn in w.observers(n).items():
                        pn = OBS_PARAM.get(oname)
                        if pn in kw and kw[pn] is not None:
                            inner_checks.append((n, oname, canon(fn()), canon(kw[pn])))
                    # spec oracle (documented constructor defaults): an omitted argument shows its documented default
                    from translate.g1_settings import DOCUMENTED_CTOR_DEFAULTS as _DCD
                    tab = _DCD.get(n) or (_DCD["*flag*"] if [p for p, _ in w.descs[n]["params"]] == ["state"] else {})
                    for oname, fn in w.observers(n).items():
                        pn = OBS_PARAM.get(oname)
                        if pn in tab and pn not in kw:
                            inner_checks.append((n, oname + "@omitted-arg", canon(fn()), tab[pn]))
                    run_real(w, body, trace, inner_checks, strict)
                    # … and again after the nested program finished normally
                    for oname, fn in w.observers(n).items():
                        pn = OBS_PARAM.get(oname)
                        if pn in kw and kw[pn] is not None:
                            inner_checks.append((n, oname + "@after-nested", canon(fn()), canon(kw[pn])))
    return False


def programs(w, tier, rng):
    blocks = []
    for n in w.exported:
        for kw in variants(n, w.real[n], w.descs[n]):
            blocks.append((n, kw))
    # depth 1: every variant, with and without raise in the body
    for n, kw in blocks:
        yield ["P", ("W", n, kw, ["P"]), "P"]
        yield ["P", ("W", n, kw, ["P", "R"]), "P"]
    # depth 2: all ordered pairs; quick = first two variants per class, thorough = all variants
    per = {}
    for n, kw in blocks:
        per.setdefault(n, []).append((n, kw))
    lim = 2 if tier == "quick" else 99
    b2 = [b for n in w.exported for b in per[n][:lim]]
    for (n1, k1), (n2, k2) in itertools.product(b2, b2):
        yield ["P", ("W", n1, k1, ["P", ("W", n2, k2, ["P"]), "P"]), "P"]
        yield ["P", ("W", n1, k1, ["P", ("W", n2, k2, ["P", "R"]), "P"]), "P"]
        yield ["P", ("W", n1, k1, [("W", n2, k2, ["P"]), "P", "R"]), "P"]
    # sequences and depth 3 (sampled)
    k = 400 if tier == "quick" else 20000
    for _ in range(k):
        a, b, c = (rng.choice(blocks) for _ in range(3))
        r1, r2, r3 = (rng.random() < 0.25 for _ in range(3))
        inner = ["P", ("W", c[0], c[1], ["P"] + (["R"] if r3 else [])), "P"]
        mid = ["P", ("W", b[0], b[1], inner + (["R"] if r2 else [])), "P"]
        if rng.random() < 0.5:
            yield ["P", ("W", a[0], a[1], mid + (["R"] if r1 else [])), "P"]
        else:  # sequential composition after an exception-free block
            yield ["P", ("W", a[0], a[1], ["P"]), ("W", b[0], b[1], inner), "P"]


def correspondence(ctx, want_driver=True):
    sys.path.insert(0, os.path.join(C.VERIF, "harness"))
    w = World(_state.get("tr"), _state.get("exported"))
    if w.tr is None:
        want_driver = False   # translator broke: the spec oracle below still runs on the real classes
    rng = ctx.rng("programs")
    base_raw = w.raw()
    base = w.snapshot()
    lines, recs = [], []
    kinds = {}
    # classes whose construction / entry / exit emits a warning (found by running them once)
    import warnings as _w
    warners = set()
    for n in w.exported:
        for kw in variants(n, w.real[n], w.descs[n])[:1]:
            with _w.catch_warnings(record=True) as rec:
                _w.simplefilter("always")
                try:
                    with w.real[n](**kw):
                        pass
                except Exception:
                    pass
            if rec:
                warners.add(n)
    ctx.notes["classes_that_warn"] = sorted(warners)
    w.restore(base_raw)   # the probing above may itself have leaked (known finding): start from the pristine state

    def both_modes():
        for prog in programs(w, ctx.tier, rng):
            yield False, prog
            if any(it[1] in warners for it in _walk(prog)):
                yield True, prog   # same program with warnings escalated to exceptions
    for strict, prog in both_modes():
        trace, inner = [], []
        raised = False
        try:
            run_real(w, prog, trace, inner, strict)
        except _Boom:
            raised = True
        except (ValueError, Warning):
            raised = True
        final = w.snapshot()
        text = ("[-W error] " if strict else "") + show(prog)
        nontriv = any(t != base for t in trace)
        ctx.case(text, nontrivial=nontriv, sample={"program": text, "raised": raised})
        for n in {it[1] for it in _walk(prog)}:
            kinds[n] = kinds.get(n, 0) + 1
        # --- spec oracle, on the real classes only
        if final != base:
            for (n, f), a, b in zip(w.slots, base, final):
                if a != b:
                    ctx.fail(f"leak:{n}.{f}", f"after `{text}` {n}.{f} is {w.atoms[int(b)] if b != 'N' else None!r}, "
                             f"was {w.atoms[int(a)] if a != 'N' else None!r} before the block",
                             {"program": text, "strict": strict, "field": f"{n}.{f}"})
            w.restore(base_raw)
        for n, oname, got, want in inner:
            if got != want:
                ctx.fail(f"innermost:{n}.{oname}", f"inside `{text}` {n}.{oname} shows {got}, argument was {want}",
                         {"program": text, "observer": oname})
        if want_driver:
            lines.append(("S " if strict else "L ") + encode(w, prog))
            recs.append((text, raised, w.project(final), [w.project(t) for t in trace]))
    # --- spec oracle: outside all blocks every setting reports its documented default (docstring of the real class)
    import ast as _ast
    import re as _re
    for n in w.exported:
        cls = w.real[n]
        doc = cls.__doc__ or ""
        checks = []
        m = _re.search(r"\(?Default:\s*([^\s)]+)\)?", doc)
        obs = w.observers(n)
        if m and "on()" in obs:
            checks.append(("on()", m.group(1)))
        elif m and "value()" in obs:
            checks.append(("value()", m.group(1)))
        for ty, txt in _re.findall(r"Default for `(float|double|half)`:\s*([^\s]+)", doc):
            checks.append((f"value(torch.{ty})", txt))
        for oname, txt in checks:
            if oname not in obs:
                continue
            try:
                want = _ast.literal_eval(txt)
            except Exception:
                want = txt.rstrip(".")
            got = obs[oname]()
            same = (got == want) if not isinstance(want, str) or isinstance(got, str) else (canon(got) == want)
            ctx.case(f"default {n}.{oname}", nontrivial=True)
            if not same:
                ctx.fail(f"default:{n}.{oname}", f"outside all blocks {n}.{oname} reports {got!r}; the class documents "
                         f"Default: {txt}", {"class": n, "observer": oname, "documented": txt, "got": repr(got)})
    # --- spec oracle: the SAME context object entered twice (re-entrant / sequential reuse) still restores the store
    import warnings as _w2
    reent = 0
    for n in w.exported:
        for kw in variants(n, w.real[n], w.descs[n])[:3]:
            for shape in ("nested", "nested-raise", "sequential"):
                try:
                    with _w2.catch_warnings():
                        _w2.simplefilter("ignore")
                        cobj = w.real[n](**kw)
                        try:
                            if shape == "sequential":
                                with cobj:
                                    pass
                                with cobj:
                                    pass
                            else:
                                with cobj:
                                    with cobj:
                                        if shape == "nested-raise":
                                            raise _Boom()
                        except _Boom:
                            pass
                except ValueError:
                    continue
                reent += 1
                ctx.case(f"reuse {shape} {n}({kw})", nontrivial=True)
                final = w.snapshot()
                if final != base:
                    for (cn, f), a, b in zip(w.slots, base, final):
                        if a != b:
                            ctx.fail(f"leak:{cn}.{f}", f"after using ONE {n}({kw}) object twice ({shape}) {cn}.{f} is "
                                     f"{w.atoms[int(b)] if b != 'N' else None!r}, was {w.atoms[int(a)] if a != 'N' else None!r}",
                                     {"class": n, "kwargs": repr(kw), "shape": shape, "field": f"{cn}.{f}"})
                    w.restore(base_raw)
    ctx.count("reuse_programs", reent)
    ctx.notes["classes_exercised"] = len(kinds)
    ctx.notes["blocks_per_class_min"] = min(kinds.values()) if kinds else 0
    if not want_driver:
        return
    # --- model correspondence
    replies = C.run_driver("C20", lines)
    mism = 0
    for (text, raised, final, trace), line, rep in zip(recs, lines, replies):
        want = f"raised={1 if raised else 0};final={','.join(final)};trace=" + "|".join(",".join(t) for t in trace)
        if rep != want:
            mism += 1
            if mism <= 5:
                # locate the first differing slot for the key
                key = "model-mismatch"
                try:
                    rf = rep.split(";")[1][len("final="):].split(",")
                    d = [w.model_slots[i] for i, (a, b) in enumerate(zip(rf, final)) if a != b]
                    if d:
                        key = f"model-mismatch:{d[0][0]}.{d[0][1]}"
                except Exception:
                    pass
                ctx.broke("correspondence", key, f"program `{text}`\nmodel: {rep[:300]}\nreal:  {want[:300]}")
    ctx.count("driver_lines", len(lines))
    ctx.count("model_mismatches", mism)


def _walk(prog):
    for it in prog:
        if isinstance(it, tuple):
            yield it
            yield from _walk(it[3])


def search(ctx, broken):
    """The proof or the tie broke.  The spec oracle inside `correspondence` is independent of the model and of
    the translator (the real classes are discovered reflectively), so it has already run over the full program
    set; if it reported nothing, deepen once with the thorough program set."""
    if ctx.failures or ctx.tier == "thorough":
        return
    ctx.tier = "thorough"
    try:
        correspondence(ctx, want_driver=False)
    finally:
        ctx.tier = "quick"


def replay(ctx, payload):
    """Re-run one recorded program on the real classes; True when it no longer fails."""
    w = World()
    want = payload["case"]["program"].replace("[-W error] ", "")
    strict = bool(payload["case"].get("strict"))
    for prog in programs(w, "thorough", ctx.rng("programs")):
        if show(prog) == want:
            base = w.snapshot()
            try:
                run_real(w, prog, [], [], strict)
            except (_Boom, ValueError, Warning):
                pass
            return w.snapshot() == base
    return True
